#!/bin/bash
# usage: fuzz.sh <target> <property> <runs>
# libFuzzer campaign (thorough tier only): rebuilds the target against /repo's working tree, seeds a
# fresh corpus, runs a fixed number of executions with seed VERIF_SEED. A crash whose input fails the
# in-target oracle becomes a standard replay file and a VIOLATION line (exit 1); timeouts/ooms are
# reported as inconclusive inputs and never as violations. Appends a "fuzz" block to the evidence.
TARGET="$1"; PROP="$2"; RUNS="${3:-200000}"
ROOT="$(cd "$(dirname "$0")" && pwd)"
export CARGO_NET_OFFLINE=true RUST_BACKTRACE=0 VERIF_ROOT="$ROOT"
SEED="${VERIF_SEED:-0}"; [ "$SEED" = "0" ] && SEED=1
cd "$ROOT/harness" || exit 3
if ! cargo +nightly fuzz build --fuzz-dir ../fuzz "$TARGET" >"$ROOT/fuzz/build-$TARGET.log" 2>&1; then
  echo "note: libFuzzer target $TARGET does not build (see fuzz/build-$TARGET.log); fuzz tier skipped"
  exit 0
fi
WORK="$ROOT/fuzz/corpus/$TARGET-$$"; rm -rf "$WORK"; mkdir -p "$WORK/corpus" "$WORK/art"
./target/release/vharness corpus "$TARGET" "$WORK/corpus" >/dev/null 2>&1
NSEED=$(ls "$WORK/corpus" | wc -l)
T0=$(date +%s)
cargo +nightly fuzz run --fuzz-dir ../fuzz "$TARGET" "$WORK/corpus" -- -runs="$RUNS" -seed="$SEED" -timeout=30 -rss_limit_mb=4096 -len_control=0 -artifact_prefix="$WORK/art/" >"$WORK/log.txt" 2>&1
RC=$?
T1=$(date +%s)
DONE=$(grep -oE "Done [0-9]+ runs" "$WORK/log.txt" | grep -oE "[0-9]+" | tail -1)
[ -z "$DONE" ] && DONE=$(grep -oE "^#[0-9]+" "$WORK/log.txt" | tr -d '#' | tail -1)
CRASH=$(ls "$WORK/art" 2>/dev/null | grep -c "^crash-")
SLOW=$(ls "$WORK/art" 2>/dev/null | grep -cE "^(timeout|oom|slow-unit)-")
VIOL=0; REPLAY=""
if [ "$CRASH" -gt 0 ]; then
  LINE=$(grep -m1 "^VIOLATION-CASE " "$WORK/log.txt")
  SIG=$(grep -m1 "^VIOLATION-SIGNATURE " "$WORK/log.txt" | cut -d' ' -f2-)
  mkdir -p "$ROOT/replays/$PROP"
  if [ -n "$LINE" ]; then
    CHECK=$(echo "$LINE" | cut -d' ' -f2); CASE=$(echo "$LINE" | cut -d' ' -f3-)
    REPLAY="$ROOT/replays/$PROP/fuzz-$TARGET-$(date +%s).json"
    printf '{"property":"%s","check":"%s","signature":"%s","message":"found by libFuzzer target %s","seed":%s,"case":%s}\n' "$PROP" "$CHECK" "$(echo "$SIG" | sed 's/\\/\\\\/g; s/"/\\"/g')" "$TARGET" "$SEED" "$CASE" > "$REPLAY"
  else
    # a crash outside the oracle (harness or library abort): keep the raw input
    REPLAY="$ROOT/replays/$PROP/fuzz-$TARGET-$(ls "$WORK/art" | grep "^crash-" | head -1)"
    cp "$WORK/art/$(ls "$WORK/art" | grep "^crash-" | head -1)" "$REPLAY"
  fi
  echo "VIOLATION property=$PROP replay=$REPLAY"
  echo "  found by libFuzzer target $TARGET: $SIG"
  VIOL=1
fi
[ "$SLOW" -gt 0 ] && echo "note: $SLOW input(s) hit the libFuzzer timeout/memory guard (inconclusive, not judged)"
python3 - "$ROOT/evidence/$PROP.json" "$TARGET" "${DONE:-0}" "$NSEED" "$CRASH" "$SLOW" "$((T1-T0))" "$SEED" <<'PY'
import json,sys
path,target,done,nseed,crash,slow,wall,seed=sys.argv[1:]
try:
    ev=json.load(open(path))
except Exception:
    sys.exit(0)
ev.setdefault("coverage",{})["fuzz"]={"engine":"libFuzzer (cargo-fuzz)","target":target,"executions":int(done),"seed_corpus_files":int(nseed),"seed":int(seed),"oracle_failures":int(crash),"timeouts_or_ooms_not_judged":int(slow),"wall_s":int(wall)}
if int(crash)>0: ev["violations"]=ev.get("violations",0)+1
json.dump(ev,open(path,"w"),indent=1)
PY
rm -rf "$WORK"
echo "$PROP fuzz: target=$TARGET executions=${DONE:-?} seed_files=$NSEED oracle_failures=$CRASH inconclusive=$SLOW wall=$((T1-T0))s"
exit $VIOL
