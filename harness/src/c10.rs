//! C10 — primitive operations follow their documented NumPy-style modular semantics.
//!
//! One-operation graphs (operation x 11 scalar types x shapes up to rank 4 with size-1 broadcasting
//! x parameters x extreme values) are built through the public `Graph` API, evaluated by
//! `SimpleEvaluator` and compared (inferred type and every element, decoded with `hv::decode`) with
//! the reference interpreter `refsem::eval_op`.
use crate::core::*;
use crate::gen::*;
use crate::hv::*;
use crate::refsem;
use crate::util::catch;
use ciphercore_base::data_types::{
    array_type, named_tuple_type, scalar_type, tuple_type, vector_type, ScalarType, Type,
};
use ciphercore_base::evaluators::evaluate_simple_evaluator;
use ciphercore_base::graphs::{create_context, Graph, Node, Operation, SliceElement};
use proptest::prelude::*;
use serde::{Deserialize, Serialize};
use serde_json::Value as J;

pub const RULE: &str = "generated one-operation graphs (operation x 11 scalar types x shapes of rank 0-4 with size-1 / missing dimensions for broadcasting x fitting parameters x element values weighted to 0, 1, -1, min, max, 2^k, 2^k+-1 and uniform), evaluated by SimpleEvaluator and compared in type and in every element with the reference interpreter refsem (written from the Graph docs); \
non-trivial = the graph was accepted, the reference decides the case, the result has >= 2 elements or the operation is a reduction to a scalar (Sum, Dot, Matmul of vectors), and >= 1 operand element is an extreme value (-1/max, min, max signed; for BIT: a one; for 128-bit types: an element >= 2^64 in magnitude); distinct = distinct generated case";

// -------------------------------------------------------------------------------------------------
// case

#[derive(Clone, Debug, Serialize, Deserialize)]
pub struct Case {
    pub op: Operation,
    pub arg_types: Vec<Type>,
    pub args: Vec<HVal>,
    /// arguments supplied as Constant nodes instead of Input nodes
    pub consts: bool,
}

fn op_name(op: &Operation) -> String {
    match op {
        Operation::ApplyPermutation(false) => "ApplyPermutation".to_string(),
        Operation::ApplyPermutation(true) => "ApplyInversePermutation".to_string(),
        other => format!("{}", other),
    }
}

// -------------------------------------------------------------------------------------------------
// interpreter: case -> graph through the public Graph API

fn apply(g: &Graph, op: &Operation, n: Vec<Node>) -> ciphercore_base::errors::Result<Node> {
    let a = |i: usize| n[i].clone();
    match op {
        Operation::Add => g.add(a(0), a(1)),
        Operation::Subtract => g.subtract(a(0), a(1)),
        Operation::Multiply => g.multiply(a(0), a(1)),
        Operation::MixedMultiply => g.mixed_multiply(a(0), a(1)),
        Operation::Dot => g.dot(a(0), a(1)),
        Operation::Matmul => g.matmul(a(0), a(1)),
        Operation::Gemm(ta, tb) => g.gemm(a(0), a(1), *ta, *tb),
        Operation::Truncate(s) => g.truncate(a(0), *s),
        Operation::Sum(ax) => g.sum(a(0), ax.clone()),
        Operation::CumSum(ax) => g.cum_sum(a(0), *ax),
        Operation::PermuteAxes(ax) => g.permute_axes(a(0), ax.clone()),
        Operation::Get(ix) => g.get(a(0), ix.clone()),
        Operation::GetSlice(s) => g.get_slice(a(0), s.clone()),
        Operation::Reshape(t) => g.reshape(a(0), t.clone()),
        Operation::Stack(s) => g.stack(n, s.clone()),
        Operation::Concatenate(ax) => g.concatenate(n, *ax),
        Operation::A2B => g.a2b(a(0)),
        Operation::B2A(st) => g.b2a(a(0), *st),
        Operation::CreateTuple => g.create_tuple(n),
        Operation::CreateNamedTuple(names) => g.create_named_tuple(names.iter().cloned().zip(n.into_iter()).collect()),
        Operation::CreateVector(t) => g.create_vector(t.clone(), n),
        Operation::TupleGet(i) => g.tuple_get(a(0), *i),
        Operation::NamedTupleGet(k) => g.named_tuple_get(a(0), k.clone()),
        Operation::VectorGet => g.vector_get(a(0), a(1)),
        Operation::Zip => g.zip(n),
        Operation::Repeat(k) => g.repeat(a(0), *k),
        Operation::ArrayToVector => g.array_to_vector(a(0)),
        Operation::VectorToArray => g.vector_to_array(a(0)),
        Operation::Gather(ax) => g.gather(a(0), a(1), *ax),
        Operation::InversePermutation => g.inverse_permutation(a(0)),
        Operation::ApplyPermutation(false) => g.apply_permutation(a(0), a(1)),
        Operation::ApplyPermutation(true) => g.apply_inverse_permutation(a(0), a(1)),
        Operation::SegmentCumSum => g.segment_cumsum(a(0), a(1), a(2)),
        Operation::Sort(k) => g.sort(a(0), k.clone()),
        Operation::Zeros(t) => g.zeros(t.clone()),
        Operation::Ones(t) => g.ones(t.clone()),
        other => g.add_node(n, vec![], other.clone()),
    }
}

fn arity(op: &Operation) -> Option<usize> {
    Some(match op {
        Operation::Zeros(_) | Operation::Ones(_) => 0,
        Operation::Add
        | Operation::Subtract
        | Operation::Multiply
        | Operation::MixedMultiply
        | Operation::Dot
        | Operation::Matmul
        | Operation::Gemm(_, _)
        | Operation::VectorGet
        | Operation::Gather(_)
        | Operation::ApplyPermutation(_) => 2,
        Operation::SegmentCumSum => 3,
        Operation::Stack(_)
        | Operation::Concatenate(_)
        | Operation::CreateTuple
        | Operation::CreateNamedTuple(_)
        | Operation::CreateVector(_)
        | Operation::Zip => return None,
        _ => 1,
    })
}

enum Built {
    Rejected(String),
    /// the context is kept alive: graphs only hold a weak pointer to it
    Ok(ciphercore_base::graphs::Context, Graph, Type),
}

fn build(c: &Case) -> Built {
    macro_rules! tr {
        ($e:expr) => {
            match $e {
                Ok(v) => v,
                Err(e) => return Built::Rejected(format!("{}", e)),
            }
        };
    }
    let ctx = tr!(create_context());
    let g = tr!(ctx.create_graph());
    let mut nodes = vec![];
    for (t, v) in c.arg_types.iter().zip(c.args.iter()) {
        let n = if c.consts {
            tr!(g.constant(t.clone(), encode(v, t)))
        } else {
            tr!(g.input(t.clone()))
        };
        nodes.push(n);
    }
    let out = tr!(apply(&g, &c.op, nodes));
    let t = tr!(out.get_type());
    tr!(out.set_as_output());
    tr!(g.finalize());
    tr!(g.set_as_main());
    tr!(ctx.finalize());
    Built::Ok(ctx, g, t)
}

// -------------------------------------------------------------------------------------------------
// oracle

fn walk_leaves<F: FnMut(ScalarType, &[u128])>(t: &Type, v: &HVal, f: &mut F) {
    match v {
        HVal::A(x) => {
            if is_leaf(t) {
                f(leaf_st(t), x)
            }
        }
        HVal::V(cs) => {
            if !is_leaf(t) {
                for (c, ct) in cs.iter().zip(children_types(t).iter()) {
                    walk_leaves(ct, c, f);
                }
            }
        }
    }
}

fn magnitude(x: u128, st: ScalarType) -> u128 {
    let w = bits(st);
    if is_signed(st) && (x >> (w - 1)) & 1 == 1 {
        (x.wrapping_neg()) & mask(st)
    } else {
        x
    }
}

/// an operand element that counts as extreme for the non-triviality rule
fn extreme_elem(x: u128, st: ScalarType) -> bool {
    match bits(st) {
        1 => x == 1,
        128 => magnitude(x, st) >> 64 != 0,
        _ => is_extreme(x, st),
    }
}

/// every differing element of every differing leaf is a 128-bit element whose upper 64 bits were
/// dropped (the value went through a 64-bit integer): got == want mod 2^64, zero-extended
fn is_u64_truncation(t: &Type, got: &HVal, want: &HVal) -> bool {
    match (got, want) {
        (HVal::A(g), HVal::A(w)) => {
            is_leaf(t)
                && bits(leaf_st(t)) == 128
                && g.len() == w.len()
                && g.iter().zip(w.iter()).all(|(x, y)| x == y || *x == (*y & u64::MAX as u128))
        }
        (HVal::V(g), HVal::V(w)) => {
            !is_leaf(t)
                && g.len() == w.len()
                && g.iter()
                    .zip(w.iter())
                    .zip(children_types(t).iter())
                    .all(|((x, y), ct)| x == y || is_u64_truncation(ct, x, y))
        }
        _ => false,
    }
}

/// digit runs -> '#', so that rejection messages form a small label set
fn squash_digits(m: &str) -> String {
    let mut out = String::new();
    let mut in_num = false;
    for ch in m.chars().take(90) {
        if ch.is_ascii_digit() {
            if !in_num {
                out.push('#');
            }
            in_num = true;
        } else {
            in_num = false;
            out.push(ch);
        }
    }
    out
}

fn short<T: std::fmt::Debug>(x: &T) -> String {
    let s = format!("{:?}", x);
    if s.len() > 700 {
        format!("{}…", s.chars().take(700).collect::<String>())
    } else {
        s
    }
}

fn is_scalar_reduction(op: &Operation, result_t: &Type) -> bool {
    matches!(op, Operation::Sum(_) | Operation::Dot | Operation::Matmul) && matches!(result_t, Type::Scalar(_))
}

pub fn oracle(c: &Case) -> Outcome {
    let name = op_name(&c.op);
    if c.arg_types.len() != c.args.len() || arity(&c.op).map(|k| k != c.args.len()).unwrap_or(false) {
        return Outcome::skip("malformed-case");
    }
    let reference = refsem::eval_op(&c.op, &c.arg_types, &c.args);
    let built = match catch(|| build(c)) {
        Ok(b) => b,
        // panics of the builder are judged by C09/C11, not here
        Err(p) => return Outcome::skip(&format!("builder-panic:{}", name)).label(format!("builder-panic-msg:{}", p.chars().take(80).collect::<String>())),
    };
    let (_ctx, g, node_t) = match built {
        Built::Ok(ctx, g, t) => (ctx, g, t),
        Built::Rejected(msg) => {
            let o = Outcome::skip(&format!("builder-reject:{}", name));
            return if reference.is_ok() {
                o.label(format!("builder-reject-but-ref-decides:{}:{}", name, squash_digits(msg.lines().next().unwrap_or(""))))
            } else {
                o
            };
        }
    };
    let (ref_t, ref_v) = match reference {
        Ok(r) => r,
        Err(_) => return Outcome::skip(&format!("ref-undecided:{}", name)),
    };
    if node_t != ref_t {
        return Outcome::fail(
            &format!("type-{}", name),
            format!("{}: inferred type {} but documented result type {} (operands {:?})", short(&c.op), node_t, ref_t, c.arg_types),
        );
    }
    let inputs = if c.consts {
        vec![]
    } else {
        c.arg_types.iter().zip(c.args.iter()).map(|(t, v)| encode(v, t)).collect()
    };
    let value = match catch(|| evaluate_simple_evaluator(g, inputs, Some([7u8; 16]))) {
        Ok(Ok(v)) => v,
        Ok(Err(e)) => {
            return Outcome::fail(
                &format!("eval-err-{}", name),
                format!("{} on {:?}: evaluation failed ({}) but the documented result is {}", short(&c.op), c.arg_types, e, short(&ref_v)),
            )
        }
        Err(p) => {
            return Outcome::fail(
                &format!("eval-panic-{}", name),
                format!("{} on {:?}: evaluation panicked ({}) but the documented result is {}", short(&c.op), c.arg_types, p, short(&ref_v)),
            )
        }
    };
    let got = match decode(&value, &node_t) {
        Ok(h) => h,
        Err(e) => {
            return Outcome::fail(
                &format!("layout-{}", name),
                format!("{} on {:?}: result does not have the layout of {}: {}", short(&c.op), c.arg_types, node_t, e),
            )
        }
    };
    if got != ref_v {
        let sig = if is_u64_truncation(&node_t, &got, &ref_v) {
            format!("u128-trunc-{}", name)
        } else {
            format!("value-{}", name)
        };
        return Outcome::fail(
            &sig,
            format!(
                "{} on types {:?} args {}: evaluator gives {} but the documented result is {}",
                short(&c.op),
                c.arg_types,
                short(&c.args),
                short(&got),
                short(&ref_v)
            ),
        );
    }
    // accounting
    let mut sts: Vec<ScalarType> = vec![];
    let mut extreme = false;
    let mut big = false;
    for (t, v) in c.arg_types.iter().zip(c.args.iter()) {
        walk_leaves(t, v, &mut |st, xs| {
            if !sts.contains(&st) {
                sts.push(st);
            }
            for x in xs {
                extreme |= extreme_elem(*x, st);
                big |= *x >> 64 != 0;
            }
        });
    }
    walk_leaves(&ref_t, &ref_v, &mut |st, _| {
        if !sts.contains(&st) {
            sts.push(st);
        }
    });
    let n_out = total_elems(&ref_t);
    let nontrivial = (n_out >= 2 || is_scalar_reduction(&c.op, &ref_t)) && extreme;
    let mut o = Outcome::pass(nontrivial).label(format!("op:{}", name));
    for st in &sts {
        o = o.label(format!("cell:{}/{}", name, st));
        o = o.label(format!("st:{}", st));
    }
    let bcast = c.arg_types.len() >= 2
        && c.arg_types.iter().all(is_leaf)
        && c.arg_types.iter().any(|t| leaf_shape(t) != leaf_shape(&c.arg_types[0]));
    if bcast {
        o = o.label("operand-shapes-differ");
    }
    if is_leaf(&ref_t) {
        o = o.label(format!("result-rank:{}", leaf_shape(&ref_t).len()));
    } else {
        o = o.label("result:container");
    }
    if big {
        o = o.label("has>=2^64");
    }
    if let Operation::GetSlice(sl) = &c.op {
        for e in sl {
            o = o.label(match e {
                SliceElement::SingleIndex(i) if *i < 0 => "slice:single-negative",
                SliceElement::SingleIndex(_) => "slice:single",
                SliceElement::Ellipsis => "slice:ellipsis",
                SliceElement::SubArray(_, _, Some(st)) if *st < 0 => "slice:negative-step",
                SliceElement::SubArray(Some(a), _, _) if *a < 0 => "slice:negative-start",
                SliceElement::SubArray(_, Some(b), _) if *b < 0 => "slice:negative-stop",
                SliceElement::SubArray(_, _, _) => "slice:subarray",
            });
        }
        if sl.len() < leaf_shape(&c.arg_types[0]).len() && !sl.contains(&SliceElement::Ellipsis) {
            o = o.label("slice:shorter-than-rank");
        }
    }
    if let Operation::Truncate(sc) = &c.op {
        o = o.label(if sc.is_power_of_two() { "truncate:scale=2^k" } else { "truncate:scale-general" });
        if *sc >> 64 != 0 {
            o = o.label("truncate:scale>=2^64");
        }
    }
    if let Operation::Gemm(ta, tb) = &c.op {
        o = o.label(format!("gemm:transpose=({},{})", ta, tb));
    }
    if c.consts {
        o = o.label("args:constants");
    }
    o
}

// -------------------------------------------------------------------------------------------------
// generators

#[derive(Clone, Debug)]
struct Proto {
    op: Operation,
    arg_types: Vec<Type>,
    /// pre-made values for index-like arguments (permutations, indices); None = arb_hval
    preset: Vec<Option<HVal>>,
}

fn proto(op: Operation, arg_types: Vec<Type>) -> Proto {
    let n = arg_types.len();
    Proto { op, arg_types, preset: vec![None; n] }
}

fn leaf(shape: &[u64], st: ScalarType) -> Type {
    if shape.is_empty() {
        scalar_type(st)
    } else {
        array_type(shape.to_vec(), st)
    }
}

fn cap_shape(mut s: Vec<u64>, cap: u64) -> Vec<u64> {
    while s.iter().product::<u64>() > cap {
        let (i, _) = s.iter().enumerate().max_by_key(|(_, d)| **d).unwrap();
        s[i] = (s[i] / 2).max(1);
    }
    s
}

/// dimensions with rank in [min_rank, max_rank] (rank 0 = scalar), a deliberate share of size-1
fn dims(min_rank: usize, max_rank: usize, max_dim: u64, cap: u64) -> BoxedStrategy<Vec<u64>> {
    proptest::collection::vec(prop_oneof![2 => Just(1u64), 5 => 1..=max_dim], min_rank..=max_rank)
        .prop_map(move |s| cap_shape(s, cap))
        .boxed()
}

/// an operand shape that broadcasts to `r`: leading dimensions dropped, some dimensions set to 1
fn derive(r: &[u64], drop: usize, ones: u8) -> Vec<u64> {
    let d = drop.min(r.len());
    r[d..].iter().enumerate().map(|(k, x)| if (ones >> k) & 1 == 1 { 1 } else { *x }).collect()
}
fn arb_drop() -> BoxedStrategy<usize> {
    prop_oneof![3 => Just(0usize), 2 => 0..=4usize].boxed()
}
fn arb_ones() -> BoxedStrategy<u8> {
    prop_oneof![2 => Just(0u8), 3 => any::<u8>()].boxed()
}

/// permutation of 0..n from sort keys (stable argsort), shrinks towards the identity
fn perm_from_keys(keys: &[u16]) -> Vec<u64> {
    let mut idx: Vec<u64> = (0..keys.len() as u64).collect();
    idx.sort_by_key(|i| keys[*i as usize]);
    idx
}
fn arb_perm(n: usize) -> BoxedStrategy<Vec<u64>> {
    proptest::collection::vec(any::<u16>(), n).prop_map(|k| perm_from_keys(&k)).boxed()
}

fn arb_arith() -> BoxedStrategy<Proto> {
    (arb_st(), dims(0, 4, 4, 48), arb_drop(), arb_ones(), arb_drop(), arb_ones(), 0..3u8)
        .prop_map(|(st, r, da, oa, db, ob, sel)| {
            let a = derive(&r, da, oa);
            let b = derive(&r, db, ob);
            let op = match sel {
                0 => Operation::Add,
                1 => Operation::Subtract,
                _ => Operation::Multiply,
            };
            proto(op, vec![leaf(&a, st), leaf(&b, st)])
        })
        .boxed()
}

fn arb_mixed() -> BoxedStrategy<Proto> {
    (arb_st_nonbit(), dims(0, 4, 4, 48), arb_drop(), arb_ones(), arb_drop(), arb_ones())
        .prop_map(|(st, r, da, oa, db, ob)| {
            let a = derive(&r, da, oa);
            let b = derive(&r, db, ob);
            proto(Operation::MixedMultiply, vec![leaf(&a, st), leaf(&b, ScalarType::Bit)])
        })
        .boxed()
}

fn arb_dot() -> BoxedStrategy<Proto> {
    (arb_st(), 0..7u8, dims(0, 3, 3, 27), dims(0, 2, 3, 9), 1..=3u64, 1..=3u64, any::<bool>())
        .prop_map(|(st, variant, pre_a, pre_b, k, n, flip)| {
            let (a, b): (Vec<u64>, Vec<u64>) = match variant {
                // scalar factor on either side
                0 => {
                    let mut other = pre_a.clone();
                    other.push(k);
                    if flip {
                        (vec![], other)
                    } else {
                        (other, vec![])
                    }
                }
                // 1-D x 1-D
                1 => (vec![k], vec![k]),
                // 2-D x 2-D
                2 => (vec![pre_a.first().copied().unwrap_or(2), k], vec![k, n]),
                // N-D x 1-D
                3 => {
                    let mut a = pre_a.clone();
                    a.push(k);
                    (a, vec![k])
                }
                // 1-D x M-D
                4 => {
                    let mut b = pre_b.clone();
                    b.push(k);
                    b.push(n);
                    (vec![k], b)
                }
                // N-D x M-D
                _ => {
                    let mut a = pre_a.clone();
                    a.push(k);
                    let mut b = pre_b.clone();
                    b.push(k);
                    b.push(n);
                    (a, b)
                }
            };
            proto(Operation::Dot, vec![leaf(&a, st), leaf(&b, st)])
        })
        .boxed()
}

fn arb_matmul_gemm() -> BoxedStrategy<Proto> {
    (
        arb_st(),
        0..8u8,
        dims(0, 2, 3, 9),
        (arb_drop(), arb_ones(), arb_drop(), arb_ones()),
        (1..=3u64, 1..=3u64, 1..=3u64),
        any::<bool>(),
        any::<bool>(),
    )
        .prop_map(|(st, variant, batch, (da, oa, db, ob), (m, k, n), ta, tb)| {
            let ba = derive(&batch, da, oa);
            let bb = derive(&batch, db, ob);
            let mat = |batch: &[u64], r: u64, c: u64, t: bool| {
                let mut s = batch.to_vec();
                if t {
                    s.push(c);
                    s.push(r);
                } else {
                    s.push(r);
                    s.push(c);
                }
                s
            };
            match variant {
                // matmul with a 1-D first / second / both operands
                0 => proto(Operation::Matmul, vec![leaf(&[k], st), leaf(&mat(&bb, k, n, false), st)]),
                1 => proto(Operation::Matmul, vec![leaf(&mat(&ba, m, k, false), st), leaf(&[k], st)]),
                2 => proto(Operation::Matmul, vec![leaf(&[k], st), leaf(&[k], st)]),
                3 | 4 => proto(
                    Operation::Matmul,
                    vec![leaf(&mat(&ba, m, k, false), st), leaf(&mat(&bb, k, n, false), st)],
                ),
                _ => proto(
                    Operation::Gemm(ta, tb),
                    vec![leaf(&mat(&ba, m, k, ta), st), leaf(&mat(&bb, k, n, tb), st)],
                ),
            }
        })
        .boxed()
}

fn arb_scale(st: ScalarType) -> BoxedStrategy<u128> {
    let w = bits(st);
    let m = mask(st);
    if w == 1 {
        return prop_oneof![3 => Just(1u128), 1 => Just(2u128), 1 => Just(3u128), 1 => any::<u128>().prop_map(|x| x.max(1))].boxed();
    }
    prop_oneof![
        2 => Just(1u128),
        2 => Just(2u128),
        2 => Just(3u128),
        2 => Just(10u128),
        1 => Just(1000u128),
        4 => (0..w).prop_map(|k| 1u128 << k),
        2 => (1..w).prop_map(|k| (1u128 << k) + 1),
        2 => (2..=w).prop_map(|k| mask_bits(k) ),
        3 => any::<u128>().prop_map(move |x| (x & m).max(1)),
        1 => Just(m),
        // beyond the modulus of the type (all scales are u128)
        1 => any::<u128>().prop_map(|x| x.max(1)),
        1 => Just(u128::MAX),
    ]
    .boxed()
}

fn arb_truncate() -> BoxedStrategy<Proto> {
    (arb_st(), dims(0, 4, 4, 32))
        .prop_flat_map(|(st, s)| arb_scale(st).prop_map(move |scale| proto(Operation::Truncate(scale), vec![leaf(&s, st)])))
        .boxed()
}

fn arb_reductions() -> BoxedStrategy<Proto> {
    (arb_st(), dims(1, 4, 4, 48), proptest::collection::vec((any::<bool>(), any::<u16>()), 4), any::<u16>(), 0..3u8)
        .prop_map(|(st, s, sel, forced, which)| {
            let r = s.len();
            let t = leaf(&s, st);
            match which {
                0 => {
                    // non-empty set of axes in a generated order
                    let f = pick(forced, r);
                    let mut axes: Vec<(u16, u64)> = (0..r).filter(|k| *k == f || sel[*k].0).map(|k| (sel[k].1, k as u64)).collect();
                    axes.sort();
                    proto(Operation::Sum(axes.into_iter().map(|x| x.1).collect()), vec![t])
                }
                1 => proto(Operation::CumSum(pick(forced, r) as u64), vec![t]),
                _ => {
                    let keys: Vec<u16> = (0..r).map(|k| sel[k].1).collect();
                    proto(Operation::PermuteAxes(perm_from_keys(&keys)), vec![t])
                }
            }
        })
        .boxed()
}

fn arb_get() -> BoxedStrategy<Proto> {
    (arb_st(), dims(1, 4, 4, 48), any::<u16>(), proptest::collection::vec(any::<u16>(), 4))
        .prop_map(|(st, s, len, picks)| {
            let k = 1 + pick(len, s.len());
            let index: Vec<u64> = (0..k).map(|i| pick(picks[i], s[i] as usize) as u64).collect();
            proto(Operation::Get(index), vec![leaf(&s, st)])
        })
        .boxed()
}

fn arb_bound(n: i64) -> BoxedStrategy<Option<i64>> {
    prop_oneof![
        4 => Just(None),
        6 => (-n - 2..=n + 2).prop_map(Some),
        1 => Just(Some(i64::MAX)),
        1 => Just(Some(i64::MIN)),
    ]
    .boxed()
}

/// a sub-array that selects `count >= 1` in-range indices, written with a generated mix of
/// negative / positive / omitted bounds (construction over rejection)
fn arb_fitting_subarray(n: i64) -> BoxedStrategy<SliceElement> {
    (1..=3i64, any::<bool>(), any::<u16>(), any::<u16>(), any::<[bool; 4]>(), 0..3i64)
        .prop_map(move |(mag, neg, pi, pc, flags, extra)| {
            let s = if neg { -mag } else { mag };
            let i = pick(pi, n as usize) as i64;
            let maxc = if s > 0 { (n - 1 - i) / s + 1 } else { i / (-s) + 1 };
            let c = 1 + pick(pc, maxc as usize) as i64;
            let stop_idx = i + s * c; // exclusive
            let default_start = if s > 0 { i == 0 } else { i == n - 1 };
            let start = if default_start && flags[0] {
                None
            } else if flags[1] {
                Some(i - n)
            } else {
                Some(i)
            };
            let stop = if s > 0 {
                if stop_idx >= n {
                    // NumPy clamps a stop beyond the end
                    if flags[2] {
                        None
                    } else {
                        Some(stop_idx + extra)
                    }
                } else if flags[3] {
                    Some(stop_idx - n)
                } else {
                    Some(stop_idx)
                }
            } else if stop_idx < 0 {
                // running past index 0: omitted stop, or a stop that is negative after adding n
                if flags[2] {
                    None
                } else {
                    Some(-n - 1 - extra)
                }
            } else if flags[3] {
                Some(stop_idx - n)
            } else {
                Some(stop_idx)
            };
            let step = if s == 1 && flags[0] { None } else { Some(s) };
            SliceElement::SubArray(start, stop, step)
        })
        .boxed()
}

fn arb_slice_elem(n: u64) -> BoxedStrategy<SliceElement> {
    let n = n as i64;
    prop_oneof![
        2 => (-n..n).prop_map(SliceElement::SingleIndex),
        6 => arb_fitting_subarray(n),
        3 => (
            arb_bound(n),
            arb_bound(n),
            prop_oneof![
                4 => Just(None),
                2 => Just(Some(1i64)),
                2 => Just(Some(-1i64)),
                3 => (2..=4i64).prop_map(Some),
                3 => (2..=4i64).prop_map(|x| Some(-x)),
                1 => Just(Some(i64::MAX)),
                1 => Just(Some(i64::MIN)),
            ]
        )
            .prop_map(|(a, b, c)| SliceElement::SubArray(a, b, c)),
    ]
    .boxed()
}

fn arb_get_slice() -> BoxedStrategy<Proto> {
    (arb_st(), dims(1, 4, 5, 60))
        .prop_flat_map(|(st, s)| {
            let elems: Vec<BoxedStrategy<SliceElement>> = s.iter().map(|d| arb_slice_elem(*d)).collect();
            (elems, any::<u16>(), prop_oneof![3 => Just(None), 2 => (any::<u16>(), any::<u16>()).prop_map(Some)]).prop_map(
                move |(elems, keep, ell)| {
                    let r = elems.len();
                    let mut slice: Vec<SliceElement> = elems;
                    match ell {
                        None => {
                            // fewer elements than the rank: trailing dimensions are taken in full
                            let k = 1 + pick(keep, r);
                            slice.truncate(k);
                        }
                        Some((x, y)) => {
                            // replace the run [i, j) by an ellipsis (the run may be empty)
                            let i = pick(x, r + 1);
                            let j = i + pick(y, r + 1 - i);
                            let mut out: Vec<SliceElement> = slice[..i].to_vec();
                            out.push(SliceElement::Ellipsis);
                            out.extend_from_slice(&slice[j..]);
                            slice = out;
                        }
                    }
                    proto(Operation::GetSlice(slice), vec![leaf(&s, st)])
                },
            )
        })
        .boxed()
}

/// a shape with the same number of elements: the prime factors of the dimensions re-dealt into
/// 1..=4 slots, plus optional size-1 dimensions
fn refactor(s: &[u64], slots: usize, deal: &[u16], one_at: Option<u16>) -> Vec<u64> {
    let mut primes = vec![];
    for d in s {
        let mut d = *d;
        let mut p = 2;
        while d > 1 {
            if d % p == 0 {
                primes.push(p);
                d /= p;
            } else {
                p += 1;
            }
        }
    }
    let mut out = vec![1u64; slots.max(1)];
    for (i, p) in primes.iter().enumerate() {
        let k = pick(deal[i % deal.len()], out.len());
        out[k] *= p;
    }
    if let Some(x) = one_at {
        if out.len() < 4 {
            let k = pick(x, out.len() + 1);
            out.insert(k, 1);
        }
    }
    out
}

fn arb_reshape() -> BoxedStrategy<Proto> {
    let one_leaf = (dims(0, 4, 4, 48), 0..=4usize, proptest::collection::vec(any::<u16>(), 6), proptest::option::of(any::<u16>()));
    (arb_st(), proptest::collection::vec(one_leaf, 1..=3), 0..6u8, any::<bool>())
        .prop_map(|(st, leaves, form, as_vec_src)| {
            let olds: Vec<Vec<u64>> = leaves.iter().map(|l| l.0.clone()).collect();
            let news: Vec<Vec<u64>> = leaves
                .iter()
                .map(|(s, slots, deal, one)| if *slots == 0 { if num_elems(s) == 1 { vec![] } else { vec![num_elems(s) as u64] } } else { refactor(s, *slots, deal, *one) })
                .collect();
            if form == 0 || leaves.len() == 1 && form < 3 {
                // plain array -> array
                return proto(Operation::Reshape(leaf(&news[0], st)), vec![leaf(&olds[0], st)]);
            }
            // containers: "n arrays or scalars ... can be reshaped to any type with the same number
            // of arrays and scalars"
            let all_same_old = olds.iter().all(|s| *s == olds[0]);
            let src = if as_vec_src && all_same_old {
                vector_type(olds.len() as u64, leaf(&olds[0], st))
            } else {
                tuple_type(olds.iter().map(|s| leaf(s, st)).collect())
            };
            let new_leaves: Vec<Type> = news.iter().map(|s| leaf(s, st)).collect();
            let all_same_new = new_leaves.iter().all(|t| *t == new_leaves[0]);
            let names = ["a", "b", "c"];
            let dst = match form {
                1 | 2 => tuple_type(new_leaves),
                3 => named_tuple_type(new_leaves.into_iter().enumerate().map(|(i, t)| (names[i].to_string(), t)).collect()),
                4 if all_same_new => vector_type(new_leaves.len() as u64, new_leaves[0].clone()),
                _ => {
                    // nested: ((first), rest...)
                    let mut it = new_leaves.into_iter();
                    let first = tuple_type(vec![it.next().unwrap()]);
                    let mut v = vec![first];
                    v.extend(it);
                    tuple_type(v)
                }
            };
            proto(Operation::Reshape(dst), vec![src])
        })
        .boxed()
}

fn arb_stack() -> BoxedStrategy<Proto> {
    let outers: Vec<Vec<u64>> = vec![vec![1], vec![2], vec![3], vec![4], vec![1, 2], vec![2, 1], vec![2, 2], vec![2, 3], vec![2, 1, 2], vec![1, 1]];
    (
        arb_st(),
        proptest::sample::select(outers),
        dims(0, 3, 3, 12),
        proptest::collection::vec((arb_drop(), arb_ones()), 6),
    )
        .prop_map(|(st, outer, inner, ders)| {
            let k = num_elems(&outer);
            let ts: Vec<Type> = (0..k).map(|i| leaf(&derive(&inner, ders[i].0, ders[i].1), st)).collect();
            proto(Operation::Stack(outer), ts)
        })
        .boxed()
}

fn arb_concat() -> BoxedStrategy<Proto> {
    (arb_st(), dims(1, 4, 3, 16), any::<u16>(), proptest::collection::vec(1..=3u64, 2..=4))
        .prop_map(|(st, s, ax, lens)| {
            let axis = pick(ax, s.len());
            let ts: Vec<Type> = lens
                .iter()
                .map(|l| {
                    let mut x = s.clone();
                    x[axis] = *l;
                    leaf(&x, st)
                })
                .collect();
            proto(Operation::Concatenate(axis as u64), ts)
        })
        .boxed()
}

fn arb_conversions() -> BoxedStrategy<Proto> {
    (arb_st_nonbit(), dims(0, 3, 3, 6), any::<bool>())
        .prop_map(|(st, s, to_bits)| {
            if to_bits {
                proto(Operation::A2B, vec![leaf(&s, st)])
            } else {
                let mut b = s.clone();
                b.push(bits(st) as u64);
                proto(Operation::B2A(st), vec![leaf(&b, ScalarType::Bit)])
            }
        })
        .boxed()
}

const NAMES: [&str; 6] = ["a", "b", "key", "x1", "Z", "n_0"];

fn arb_small_type() -> BoxedStrategy<Type> {
    // mostly leaves (every scalar type, rank 0-3), sometimes a nested container
    prop_oneof![4 => arb_leaf_type(3, 3, 12), 1 => arb_type(1)].boxed()
}

fn arb_containers() -> BoxedStrategy<Proto> {
    (
        0..11u8,
        proptest::collection::vec(arb_small_type(), 0..=4),
        arb_small_type(),
        (any::<u16>(), 0..=4u64, proptest::sample::select(vec![ScalarType::U32, ScalarType::U64])),
        arb_leaf_type(3, 4, 24),
    )
        .prop_map(|(which, ts, one, (sel, n, ist), lf)| {
            let k = ts.len();
            match which {
                0 => proto(Operation::CreateTuple, ts),
                1 => {
                    let names: Vec<String> = (0..k).map(|i| NAMES[i].to_string()).collect();
                    proto(Operation::CreateNamedTuple(names), ts)
                }
                2 => proto(Operation::CreateVector(one.clone()), (0..n).map(|_| one.clone()).collect()),
                3 => {
                    let mut ts = ts;
                    ts.push(one);
                    let i = pick(sel, ts.len()) as u64;
                    proto(Operation::TupleGet(i), vec![tuple_type(ts)])
                }
                4 => {
                    let mut ts = ts;
                    ts.push(one);
                    let i = pick(sel, ts.len());
                    let nt = named_tuple_type(ts.into_iter().enumerate().map(|(j, t)| (NAMES[j].to_string(), t)).collect());
                    proto(Operation::NamedTupleGet(NAMES[i].to_string()), vec![nt])
                }
                5 => {
                    let n = n.max(1);
                    let i = pick(sel, n as usize) as u128;
                    let mut p = proto(Operation::VectorGet, vec![vector_type(n, one), scalar_type(ist)]);
                    p.preset[1] = Some(HVal::A(vec![i]));
                    p
                }
                6 => {
                    let mut ts = ts;
                    ts.truncate(2);
                    ts.push(one.clone());
                    if ts.len() < 2 {
                        ts.push(one);
                    }
                    let n = n.max(1);
                    proto(Operation::Zip, ts.into_iter().map(|t| vector_type(n, t)).collect())
                }
                7 => proto(Operation::Repeat(n), vec![one]),
                8 => {
                    let t = if let Type::Scalar(st) = lf { array_type(vec![n.max(1)], st) } else { lf };
                    proto(Operation::ArrayToVector, vec![t])
                }
                9 => proto(Operation::VectorToArray, vec![vector_type(n.max(1), lf)]),
                _ => proto(Operation::VectorToArray, vec![vector_type(n.max(1), scalar_type(leaf_st(&lf)))]),
            }
        })
        .boxed()
}

fn arb_gather() -> BoxedStrategy<Proto> {
    (arb_st(), dims(1, 4, 5, 60), any::<u16>(), proptest::collection::vec(any::<u16>(), 5), any::<u16>(), any::<bool>(), prop_oneof![4 => Just(ScalarType::U64), 1 => Just(ScalarType::U32)])
        .prop_map(|(st, s, ax, keys, cnt, two_d, ist)| {
            let axis = pick(ax, s.len());
            let d = s[axis] as usize;
            let p = perm_from_keys(&keys[..d]);
            let m = 1 + pick(cnt, d);
            let ishape: Vec<u64> = if two_d && m % 2 == 0 { vec![2, (m / 2) as u64] } else if two_d { vec![1, m as u64] } else { vec![m as u64] };
            let mut pr = proto(Operation::Gather(axis as u64), vec![leaf(&s, st), array_type(ishape, ist)]);
            pr.preset[1] = Some(HVal::A(p[..m].iter().map(|x| *x as u128).collect()));
            pr
        })
        .boxed()
}

fn arb_perm_ops() -> BoxedStrategy<Proto> {
    (
        arb_st(),
        1..=6u64,
        dims(0, 2, 3, 6),
        proptest::collection::vec(any::<u16>(), 6),
        0..6u8,
        (1..=4u64, proptest::collection::vec((arb_st(), dims(0, 2, 3, 6)), 0..=3), any::<u16>()),
    )
        .prop_map(|(st, n, rest, keys, which, (b, payload, keypos))| {
            let perm = HVal::A(perm_from_keys(&keys[..n as usize]).iter().map(|x| *x as u128).collect());
            let pt = array_type(vec![n], ScalarType::U64);
            let mut rows = vec![n];
            rows.extend_from_slice(&rest);
            match which {
                0 => {
                    let mut p = proto(Operation::InversePermutation, vec![pt]);
                    p.preset[0] = Some(perm);
                    p
                }
                1 | 2 => {
                    let mut p = proto(Operation::ApplyPermutation(which == 2), vec![leaf(&rows, st), pt]);
                    p.preset[1] = Some(perm);
                    p
                }
                3 => proto(
                    Operation::SegmentCumSum,
                    vec![leaf(&rows, st), array_type(vec![n], ScalarType::Bit), leaf(&rest, st)],
                ),
                _ => {
                    // table: key column [n, b] BIT at a generated position among the payload columns
                    let mut cols: Vec<Type> = payload
                        .iter()
                        .map(|(pst, r)| {
                            let mut s = vec![n];
                            s.extend_from_slice(r);
                            leaf(&s, *pst)
                        })
                        .collect();
                    let kp = pick(keypos, cols.len() + 1);
                    cols.insert(kp, array_type(vec![n, b], ScalarType::Bit));
                    let nt = named_tuple_type(cols.into_iter().enumerate().map(|(j, t)| (NAMES[j].to_string(), t)).collect());
                    proto(Operation::Sort(NAMES[kp].to_string()), vec![nt])
                }
            }
        })
        .boxed()
}

fn arb_consts() -> BoxedStrategy<Proto> {
    (arb_small_type(), any::<bool>())
        .prop_map(|(t, ones)| proto(if ones { Operation::Ones(t) } else { Operation::Zeros(t) }, vec![]))
        .boxed()
}

/// 128-bit elements reduced to their low 64 bits (keeps 128-bit types in the search behind the
/// known 64-bit-conversion findings)
fn low64(t: &Type, v: &HVal) -> HVal {
    match v {
        HVal::A(x) => {
            if is_leaf(t) && bits(leaf_st(t)) == 128 {
                HVal::A(x.iter().map(|e| e & u64::MAX as u128).collect())
            } else {
                v.clone()
            }
        }
        HVal::V(cs) => HVal::V(cs.iter().zip(children_types(t).iter()).map(|(c, ct)| low64(ct, c)).collect()),
    }
}

fn finish(p: BoxedStrategy<Proto>) -> BoxedStrategy<Case> {
    p.prop_flat_map(|p| {
        let vals: BoxedStrategy<Vec<HVal>> = if p.arg_types.is_empty() {
            Just(vec![]).boxed()
        } else {
            p.arg_types
                .iter()
                .zip(p.preset.iter())
                .map(|(t, pre)| match pre {
                    Some(v) => Just(v.clone()).boxed(),
                    None => arb_hval(t),
                })
                .collect::<Vec<BoxedStrategy<HVal>>>()
                .boxed()
        };
        (vals, proptest::bool::weighted(0.3), proptest::bool::weighted(0.3)).prop_map(move |(args, consts, small)| {
            let args = if small {
                args.iter()
                    .zip(p.arg_types.iter())
                    .zip(p.preset.iter())
                    .map(|((v, t), pre)| if pre.is_some() { v.clone() } else { low64(t, v) })
                    .collect()
            } else {
                args
            };
            Case { op: p.op.clone(), arg_types: p.arg_types.clone(), args, consts }
        })
    })
    .boxed()
}

fn arb_case() -> BoxedStrategy<Case> {
    // weights ~ number of operations in the family
    finish(
        prop_oneof![
            6 => arb_arith(),
            2 => arb_mixed(),
            3 => arb_dot(),
            5 => arb_matmul_gemm(),
            3 => arb_truncate(),
            5 => arb_reductions(),
            2 => arb_get(),
            4 => arb_get_slice(),
            3 => arb_reshape(),
            3 => arb_stack(),
            2 => arb_concat(),
            4 => arb_conversions(),
            11 => arb_containers(),
            2 => arb_gather(),
            8 => arb_perm_ops(),
            1 => arb_consts(),
        ]
        .boxed(),
    )
}

// -------------------------------------------------------------------------------------------------

pub fn run(env: &Env) {
    env.assume("signed plaintext Truncate rounds toward zero (DESIGN C10/C05; the Graph docs only say 'divides'); A2B/B2A bit index 0 is the least significant bit (ops/comparisons.rs docs); ApplyPermutation(a,p)[i] = a[p[i]] ('permutation maps can be performed by Gather', doc of inverse_permutation)");
    env.assume("not compared (documentation silent): Gather with duplicate or out-of-range indices, VectorGet out of range, invalid permutations, A2B of BIT, B2A to BIT; builder rejections are counted, not judged (C09/C11)");
    env.note("caps", serde_json::json!({"max_rank": 4, "max_dim": 5, "max_operand_elements": 60}));
    env.campaign(
        "one-op",
        "one-operation graph vs refsem::eval_op: inferred type equal, evaluation succeeds, every decoded element equal",
        env.n(1_500_000, 40_000_000),
        arb_case,
        oracle,
    );
    for (name, case) in pinned_cases() {
        env.pinned(&name, &case, oracle);
    }
}

/// minimal reproductions of the known findings (one per signature)
pub fn pinned_cases() -> Vec<(String, Case)> {
    use ciphercore_base::data_types::{BIT, INT128, UINT128, UINT64};
    let big = (1u128 << 64) + 5; // low 64 bits = 5
    let minus_one = u128::MAX; // INT128 -1, low 64 bits = 2^64-1
    let a2 = array_type(vec![2], UINT128);
    let a1i = array_type(vec![1], INT128);
    let p1 = array_type(vec![1], UINT64);
    let one = |op: Operation, arg_types: Vec<Type>, args: Vec<HVal>| Case { op, arg_types, args, consts: false };
    vec![
        ("u128-Get".into(), one(Operation::Get(vec![1]), vec![a2.clone()], vec![HVal::A(vec![7, big])])),
        (
            "u128-GetSlice".into(),
            one(Operation::GetSlice(vec![SliceElement::SubArray(None, None, None)]), vec![a1i.clone()], vec![HVal::A(vec![minus_one])]),
        ),
        ("u128-Stack".into(), one(Operation::Stack(vec![1]), vec![scalar_type(UINT128)], vec![HVal::A(vec![big])])),
        (
            "u128-Concatenate".into(),
            one(Operation::Concatenate(0), vec![a1i.clone(), a1i.clone()], vec![HVal::A(vec![minus_one]), HVal::A(vec![3])]),
        ),
        ("u128-ArrayToVector".into(), one(Operation::ArrayToVector, vec![a2.clone()], vec![HVal::A(vec![7, big])])),
        (
            "u128-VectorToArray".into(),
            one(Operation::VectorToArray, vec![vector_type(1, scalar_type(UINT128))], vec![HVal::V(vec![HVal::A(vec![big])])]),
        ),
        ("u128-Gather".into(), one(Operation::Gather(0), vec![a2.clone(), p1.clone()], vec![HVal::A(vec![7, big]), HVal::A(vec![1])])),
        (
            "u128-ApplyPermutation".into(),
            one(Operation::ApplyPermutation(false), vec![a1i.clone(), p1.clone()], vec![HVal::A(vec![minus_one]), HVal::A(vec![0])]),
        ),
        (
            "u128-ApplyInversePermutation".into(),
            one(Operation::ApplyPermutation(true), vec![a1i.clone(), p1.clone()], vec![HVal::A(vec![minus_one]), HVal::A(vec![0])]),
        ),
        (
            "u128-Sort".into(),
            one(
                Operation::Sort("a".into()),
                vec![named_tuple_type(vec![("a".into(), array_type(vec![1, 1], BIT)), ("b".into(), array_type(vec![1], UINT128))])],
                vec![HVal::V(vec![HVal::A(vec![0]), HVal::A(vec![big])])],
            ),
        ),
    ]
}

pub fn replay(_check: &str, case: J) -> Outcome {
    replay_with::<Case, _>(case, oracle)
}
