//! C16 — comparison operations equal integer comparison.
//!
//! Every case is plain data (operation, signedness, width, batch shapes, operand integers). The
//! interpreter encodes the integers as BIT arrays `[batch.., w]` (bit 0 least significant) with the
//! harness's own encoder, builds a graph with ONE comparison / Min / Max custom operation,
//! instantiates it, evaluates the instantiated main graph with a seeded SimpleEvaluator and compares
//! every output element with native `u128` / `i128` comparison of the operand integers, using the
//! harness's own NumPy-style broadcasting (nested multi-index walk).
use crate::core::*;
use crate::gen::pick;
use crate::hv::{decode, encode, mask_bits, HVal};
use ciphercore_base::custom_ops::{run_instantiation_pass, CustomOperation};
use ciphercore_base::data_types::{array_type, scalar_type, Type, BIT};
use ciphercore_base::data_values::Value;
use ciphercore_base::evaluators::simple_evaluator::SimpleEvaluator;
use ciphercore_base::evaluators::Evaluator;
use ciphercore_base::graphs::create_context;
use ciphercore_base::ops::comparisons::{
    Equal, GreaterThan, GreaterThanEqualTo, LessThan, LessThanEqualTo, NotEqual,
};
use ciphercore_base::ops::min_max::{Max, Min};
use proptest::prelude::*;
use serde::{Deserialize, Serialize};
use serde_json::{json, Value as J};
use std::collections::BTreeMap;

pub const RULE: &str = "one Equal/NotEqual/LessThan/LessThanEqualTo/GreaterThan/GreaterThanEqualTo/Min/Max custom op on BIT arrays [batch..,w] \
(w 1..128, signed from 2, batch rank 0-3 with NumPy broadcasting), instantiated and evaluated, compared element by element with native u128/i128 comparison \
(Min/Max as bit strings); grid = ALL operand pairs of a width in one evaluation; sweep = per (width, op, signedness) a fixed systematic list of ~17w+180 boundary pairs \
(equal operands, a single differing bit at every position, carry chains, neighbouring powers of two, every bit against the sign bit, cross product of 13 boundary values); \
pairs = generated batches (equal / adjacent / sign-boundary / single-bit / opposite two-bit / common-prefix / uniform pairs) with size-1 and rank-mismatch broadcasting; \
non-trivial = the evaluation contains a pair with a != b, or with a = b for an or-equal variant; distinct = distinct generated case";

const EVAL_SEED: [u8; 16] = *b"C16-fixed-seed!!";

// ---------------------------------------------------------------------------------------------
// operations

#[derive(Clone, Copy, Debug, Serialize, Deserialize, PartialEq, Eq, PartialOrd, Ord)]
pub enum Op {
    Eq,
    Ne,
    Lt,
    Le,
    Gt,
    Ge,
    Min,
    Max,
}

/// the 14 configurations: Equal/NotEqual have no signed mode
const CONFIGS: [(Op, bool); 14] = [
    (Op::Eq, false),
    (Op::Ne, false),
    (Op::Lt, false),
    (Op::Lt, true),
    (Op::Le, false),
    (Op::Le, true),
    (Op::Gt, false),
    (Op::Gt, true),
    (Op::Ge, false),
    (Op::Ge, true),
    (Op::Min, false),
    (Op::Min, true),
    (Op::Max, false),
    (Op::Max, true),
];

fn make_op(op: Op, signed: bool) -> CustomOperation {
    let signed_comparison = signed;
    match op {
        Op::Eq => CustomOperation::new(Equal {}),
        Op::Ne => CustomOperation::new(NotEqual {}),
        Op::Lt => CustomOperation::new(LessThan { signed_comparison }),
        Op::Le => CustomOperation::new(LessThanEqualTo { signed_comparison }),
        Op::Gt => CustomOperation::new(GreaterThan { signed_comparison }),
        Op::Ge => CustomOperation::new(GreaterThanEqualTo { signed_comparison }),
        Op::Min => CustomOperation::new(Min { signed_comparison }),
        Op::Max => CustomOperation::new(Max { signed_comparison }),
    }
}

fn is_minmax(op: Op) -> bool {
    matches!(op, Op::Min | Op::Max)
}

// ---------------------------------------------------------------------------------------------
// reference model (native integers)

/// two's-complement reading of the low `w` bits of x (1 <= w <= 128)
fn as_signed(x: u128, w: u32) -> i128 {
    let sh = 128 - w;
    ((x << sh) as i128) >> sh
}

fn ref_less(a: u128, b: u128, w: u32, signed: bool) -> bool {
    if signed {
        as_signed(a, w) < as_signed(b, w)
    } else {
        a < b
    }
}

/// expected result: one bit for comparisons, the chosen w-bit string for Min/Max
fn reference(op: Op, signed: bool, w: u32, a: u128, b: u128) -> u128 {
    let lt = ref_less(a, b, w, signed);
    let gt = ref_less(b, a, w, signed);
    match op {
        Op::Eq => (a == b) as u128,
        Op::Ne => (a != b) as u128,
        Op::Lt => lt as u128,
        Op::Le => !gt as u128,
        Op::Gt => gt as u128,
        Op::Ge => !lt as u128,
        Op::Min => {
            if lt {
                a
            } else {
                b
            }
        }
        Op::Max => {
            if gt {
                a
            } else {
                b
            }
        }
    }
}

/// NumPy broadcasting of two shapes (right-aligned); None when not broadcastable
fn bcast_shape(a: &[u64], b: &[u64]) -> Option<Vec<u64>> {
    let n = a.len().max(b.len());
    let mut out = vec![0u64; n];
    for i in 0..n {
        let da = if i + a.len() >= n { a[i + a.len() - n] } else { 1 };
        let db = if i + b.len() >= n { b[i + b.len() - n] } else { 1 };
        out[i] = if da == db {
            da
        } else if da == 1 {
            db
        } else if db == 1 {
            da
        } else {
            return None;
        };
    }
    Some(out)
}

/// row-major offset inside an operand of shape `s` for the result multi-index `idx` (right-aligned)
fn operand_offset(idx: &[u64], s: &[u64]) -> usize {
    let n = idx.len();
    let mut off = 0usize;
    for (j, d) in s.iter().enumerate() {
        let i = idx[n - s.len() + j];
        let i = if *d == 1 { 0 } else { i };
        off = off * (*d as usize) + i as usize;
    }
    off
}

fn next_index(idx: &mut [u64], shape: &[u64]) -> bool {
    for k in (0..idx.len()).rev() {
        idx[k] += 1;
        if idx[k] < shape[k] {
            return true;
        }
        idx[k] = 0;
    }
    false
}

fn to_bits(vals: &[u128], w: u32) -> HVal {
    let mut out = Vec::with_capacity(vals.len() * w as usize);
    for v in vals {
        for k in 0..w {
            out.push((v >> k) & 1);
        }
    }
    HVal::A(out)
}

// ---------------------------------------------------------------------------------------------
// the one interpreter + oracle shared by all sub-checks

pub struct Operands<'a> {
    pub op: Op,
    pub signed: bool,
    pub w: u32,
    /// batch shapes (without the trailing bit dimension)
    pub sa: &'a [u64],
    pub sb: &'a [u64],
    pub a: &'a [u128],
    pub b: &'a [u128],
}

enum Stage {
    Rejected(String),
    Broken(&'static str, String),
}

fn run_ciphercore(o: &Operands, ta: &Type, tb: &Type, va: Value, vb: Value) -> Result<(Type, Value), Stage> {
    let br = |stage: &'static str| move |e: ciphercore_base::errors::Error| Stage::Broken(stage, format!("{}", e));
    let c = create_context().map_err(br("build"))?;
    let g = c.create_graph().map_err(br("build"))?;
    let ia = g.input(ta.clone()).map_err(br("build"))?;
    let ib = g.input(tb.clone()).map_err(br("build"))?;
    let out = g
        .custom_op(make_op(o.op, o.signed), vec![ia, ib])
        .map_err(|e| Stage::Rejected(format!("{}", e)))?;
    let out_t = out.get_type().map_err(br("build"))?;
    g.set_output_node(out).map_err(br("build"))?;
    g.finalize().map_err(br("build"))?;
    c.set_main_graph(g).map_err(br("build"))?;
    c.finalize().map_err(br("build"))?;
    let mapped = run_instantiation_pass(c).map_err(br("instantiate"))?;
    let ic = mapped.get_context();
    let mut ev = SimpleEvaluator::new(Some(EVAL_SEED)).map_err(br("evaluate"))?;
    ev.preprocess(&ic).map_err(br("evaluate"))?;
    let mg = ic.get_main_graph().map_err(br("evaluate"))?;
    let v = ev.evaluate_graph(mg, vec![va, vb]).map_err(br("evaluate"))?;
    Ok((out_t, v))
}

fn cfg_name(op: Op, signed: bool) -> String {
    format!("{:?}/{}", op, if signed { "s" } else { "u" })
}

fn fmt_val(x: u128, w: u32, signed: bool) -> String {
    if signed {
        format!("{:#x}(={})", x, as_signed(x, w))
    } else {
        format!("{:#x}", x)
    }
}

pub fn check(o: &Operands) -> Outcome {
    let w = o.w;
    assert!((1..=128).contains(&w));
    let m = mask_bits(w);
    let na: usize = o.sa.iter().product::<u64>() as usize;
    let nb: usize = o.sb.iter().product::<u64>() as usize;
    assert_eq!(na, o.a.len(), "case: operand a length");
    assert_eq!(nb, o.b.len(), "case: operand b length");
    assert!(o.a.iter().chain(o.b.iter()).all(|x| *x & !m == 0), "case: value wider than w");
    let rs = match bcast_shape(o.sa, o.sb) {
        Some(r) => r,
        None => panic!("case: shapes are not broadcastable"),
    };
    let mut fa = o.sa.to_vec();
    fa.push(w as u64);
    let mut fb = o.sb.to_vec();
    fb.push(w as u64);
    let ta = array_type(fa, BIT);
    let tb = array_type(fb, BIT);
    let va = encode(&to_bits(o.a, w), &ta);
    let vb = encode(&to_bits(o.b, w), &tb);
    let cfg = cfg_name(o.op, o.signed);

    let res = match crate::util::catch(|| run_ciphercore(o, &ta, &tb, va, vb)) {
        Ok(r) => r,
        Err(p) => {
            return Outcome::fail(
                &format!("panic:{}", cfg),
                format!("panic for w={} shapes {:?} x {:?}: {}", w, o.sa, o.sb, p),
            )
        }
    };
    let (out_t, out_v) = match res {
        Ok(x) => x,
        Err(Stage::Rejected(msg)) => {
            if o.signed && w < 2 {
                // documented: "Signed input has less than 2 bits"
                return Outcome::skip("signed-width-1-rejected");
            }
            return Outcome::fail(
                &format!("rejected:{}", cfg),
                format!("custom_op rejected in-domain operands w={} shapes {:?} x {:?}: {}", w, o.sa, o.sb, msg),
            );
        }
        Err(Stage::Broken(stage, msg)) => {
            return Outcome::fail(
                &format!("{}-error:{}", stage, cfg),
                format!("{} failed for w={} shapes {:?} x {:?}: {}", stage, w, o.sa, o.sb, msg),
            )
        }
    };
    // expected output type
    let want_t = if is_minmax(o.op) {
        let mut s = rs.clone();
        s.push(w as u64);
        array_type(s, BIT)
    } else if rs.is_empty() {
        scalar_type(BIT)
    } else {
        array_type(rs.clone(), BIT)
    };
    if out_t != want_t {
        return Outcome::fail(
            &format!("out-type:{}", cfg),
            format!("output type {} but broadcasting {:?} x {:?} (w={}) gives {}", out_t, o.sa, o.sb, w, want_t),
        );
    }
    let got = match decode(&out_v, &want_t) {
        Ok(HVal::A(x)) => x,
        Ok(_) => unreachable!(),
        Err(e) => return Outcome::fail(&format!("out-layout:{}", cfg), format!("output value does not fit {}: {}", want_t, e)),
    };
    // element-by-element comparison with the native reference
    let per = if is_minmax(o.op) { w as usize } else { 1 };
    let n: usize = rs.iter().product::<u64>() as usize;
    assert_eq!(got.len(), n * per);
    let mut idx = vec![0u64; rs.len()];
    let mut pos = 0usize;
    let (mut n_eq, mut n_adj, mut n_sb, mut n_msb, mut n_h1, mut ones) = (0u64, 0u64, 0u64, 0u64, 0u64, 0u64);
    let mut bad: Option<String> = None;
    let mut n_bad = 0u64;
    let hb = 1u128 << (w - 1);
    loop {
        let a = o.a[operand_offset(&idx, o.sa)];
        let b = o.b[operand_offset(&idx, o.sb)];
        let want = reference(o.op, o.signed, w, a, b);
        let g = if per == 1 {
            got[pos]
        } else {
            let mut x = 0u128;
            for k in 0..per {
                x |= (got[pos * per + k] & 1) << k;
            }
            x
        };
        if g != want {
            n_bad += 1;
            if bad.is_none() {
                bad = Some(format!(
                    "a={} b={} at result index {:?}: got {:#x}, native comparison gives {:#x}",
                    fmt_val(a, w, o.signed),
                    fmt_val(b, w, o.signed),
                    idx,
                    g,
                    want
                ));
            }
        }
        if a == b {
            n_eq += 1;
        }
        if a.wrapping_sub(b) & m == 1 || b.wrapping_sub(a) & m == 1 {
            n_adj += 1;
        }
        if (a == hb && b == hb.wrapping_sub(1) & m) || (b == hb && a == hb.wrapping_sub(1) & m) {
            n_sb += 1;
        }
        if (a ^ b) & hb != 0 {
            n_msb += 1;
        }
        if (a ^ b).count_ones() == 1 {
            n_h1 += 1;
        }
        if per == 1 && want == 1 {
            ones += 1;
        }
        pos += 1;
        if !next_index(&mut idx, &rs) {
            break;
        }
    }
    if let Some(first) = bad {
        return Outcome::fail(
            &format!("wrong-result:{}", cfg),
            format!("{} w={} shapes {:?} x {:?}: {} of {} elements wrong; first: {}", cfg, w, o.sa, o.sb, n_bad, n, first),
        );
    }
    let n = n as u64;
    let or_equal = matches!(o.op, Op::Le | Op::Ge);
    let nontrivial = n_eq < n || (or_equal && n_eq > 0);
    let rank_lbl = format!("rank:{}x{}", o.sa.len(), o.sb.len());
    let stretch = |s: &[u64]| {
        let k = rs.len() - s.len();
        s.iter().enumerate().any(|(j, d)| *d == 1 && rs[k + j] > 1)
    };
    let bl = if o.sa == o.sb {
        "bcast:none"
    } else if o.sa.len() != o.sb.len() && (stretch(o.sa) || stretch(o.sb)) {
        "bcast:rank+size1"
    } else if o.sa.len() != o.sb.len() {
        "bcast:rank"
    } else {
        "bcast:size1"
    };
    let mut out = Outcome::pass(nontrivial)
        .label(format!("op:{}", cfg))
        .label(format!("w:{:03}", w))
        .label(rank_lbl)
        .label(bl);
    if stretch(o.sa) && stretch(o.sb) {
        out = out.label("bcast:both-operands-stretched");
    }
    if n_eq > 0 {
        out = out.label("has:equal-pair");
    }
    if n_adj > 0 {
        out = out.label("has:adjacent-pair");
    }
    if n_sb > 0 {
        out = out.label("has:sign-boundary-pair");
    }
    if n_msb > 0 {
        out = out.label("has:msb-differs");
    }
    if n_h1 > 0 {
        out = out.label("has:single-bit-difference");
    }
    if per == 1 {
        if ones > 0 {
            out = out.label("result:has-1");
        }
        if ones < n {
            out = out.label("result:has-0");
        }
    }
    out
}

// ---------------------------------------------------------------------------------------------
// (1) grid: ALL operand pairs of a width in one evaluation

#[derive(Clone, Debug, Serialize, Deserialize)]
pub struct GridCase {
    pub op: Op,
    pub signed: bool,
    pub w: u32,
    /// 0: a [2^w,1,w] x b [1,2^w,w]; 1: a [1,2^w,w] x b [2^w,1,w]; 2: a [2^w,w] x b [2^w,1,w];
    /// 3: both [4^w,w] (no broadcasting)
    pub layout: u8,
}

pub fn oracle_grid(c: &GridCase) -> Outcome {
    let n = 1u64 << c.w;
    let all: Vec<u128> = (0..n as u128).collect();
    let (sa, sb, a, b): (Vec<u64>, Vec<u64>, Vec<u128>, Vec<u128>) = match c.layout {
        0 => (vec![n, 1], vec![1, n], all.clone(), all),
        1 => (vec![1, n], vec![n, 1], all.clone(), all),
        2 => (vec![n], vec![n, 1], all.clone(), all),
        _ => {
            let mut a = Vec::with_capacity((n * n) as usize);
            let mut b = Vec::with_capacity((n * n) as usize);
            for x in 0..n as u128 {
                for y in 0..n as u128 {
                    a.push(x);
                    b.push(y);
                }
            }
            (vec![n * n], vec![n * n], a, b)
        }
    };
    check(&Operands {
        op: c.op,
        signed: c.signed,
        w: c.w,
        sa: &sa,
        sb: &sb,
        a: &a,
        b: &b,
    })
    .label(format!("layout:{}", c.layout))
}

fn grid_items(env: &Env) -> Vec<GridCase> {
    let all_max = env.pick(6u32, 8u32);
    let eq_lt_max = env.pick(6u32, 9u32);
    let mut items = vec![];
    for w in 1..=eq_lt_max {
        for (op, signed) in CONFIGS {
            if signed && w < 2 {
                continue;
            }
            let deep = matches!(op, Op::Eq | Op::Lt);
            if w > all_max && !deep {
                continue;
            }
            for layout in 0..4u8 {
                // the flat layout materialises 4^w * w bits per operand
                if layout == 3 && w > 8 {
                    continue;
                }
                if w > all_max && layout != 0 {
                    continue;
                }
                items.push(GridCase { op, signed, w, layout });
            }
        }
    }
    // biggest first: better load balance
    items.sort_by_key(|c| std::cmp::Reverse(c.w));
    items
}

// ---------------------------------------------------------------------------------------------
// (2) sweep: per (width, op, signedness) a fixed, systematic list of O(w) boundary pairs

#[derive(Clone, Debug, Serialize, Deserialize)]
pub struct SweepCase {
    pub op: Op,
    pub signed: bool,
    pub w: u32,
}

/// fixed boundary values of a width
fn fixed_set(w: u32) -> Vec<u128> {
    let m = mask_bits(w);
    let hb = 1u128 << (w - 1);
    let mut v: Vec<u128> = vec![
        0,
        1,
        2,
        3,
        m,
        m.wrapping_sub(1),
        m.wrapping_sub(2),
        hb,
        hb.wrapping_sub(1),
        hb.wrapping_add(1),
        hb.wrapping_sub(2),
        0x5555_5555_5555_5555_5555_5555_5555_5555u128,
        0xAAAA_AAAA_AAAA_AAAA_AAAA_AAAA_AAAA_AAAAu128,
    ];
    for x in v.iter_mut() {
        *x &= m;
    }
    v.sort();
    v.dedup();
    v
}

/// the systematic pair list: equal operands, a single differing bit at EVERY position (against 0,
/// against all-ones, against an alternating pattern), adjacent values with a carry chain up to every
/// position, neighbouring powers of two, every bit against the top (sign) bit, equal top part with
/// differing low part, and the full cross product of the fixed boundary values
pub fn sweep_pairs(w: u32) -> (Vec<u128>, Vec<u128>) {
    let m = mask_bits(w);
    let hb = 1u128 << (w - 1);
    let alt = 0x5555_5555_5555_5555_5555_5555_5555_5555u128 & m;
    let fixed = fixed_set(w);
    let mut pairs: Vec<(u128, u128)> = vec![];
    let mut both = |a: u128, b: u128| {
        pairs.push((a & m, b & m));
        pairs.push((b & m, a & m));
    };
    for x in &fixed {
        for y in &fixed {
            both(*x, *y);
        }
    }
    for k in 0..w {
        let p = 1u128 << k;
        both(p, p);
        both(p - 1, p - 1);
        both(m ^ p, m ^ p);
        both(p, 0);
        both(p, p - 1);
        both(m ^ p, m);
        both(alt ^ p, alt);
        both(p, hb);
        both(p | hb, hb);
        both(p.wrapping_mul(2).wrapping_sub(1), p);
        if k + 1 < w {
            both(p, p << 1);
            both(p | (p << 1), p << 1);
        }
    }
    pairs.sort();
    pairs.dedup();
    (pairs.iter().map(|x| x.0).collect(), pairs.iter().map(|x| x.1).collect())
}

pub fn oracle_sweep(c: &SweepCase) -> Outcome {
    let (a, b) = sweep_pairs(c.w);
    let n = a.len() as u64;
    check(&Operands {
        op: c.op,
        signed: c.signed,
        w: c.w,
        sa: &[n],
        sb: &[n],
        a: &a,
        b: &b,
    })
}

fn sweep_items(env: &Env) -> Vec<SweepCase> {
    // quick: 1 of the 14 configurations per width, rotating with stride 5 (coprime to 14, so every
    // configuration is met every 14 widths, at even and odd widths alike); thorough: all
    let per_width = env.pick(1usize, CONFIGS.len());
    let mut items = vec![];
    for w in 1..=128u32 {
        for j in 0..per_width {
            let (mut op, mut signed) = CONFIGS[(w as usize * 5 + j) % CONFIGS.len()];
            if signed && w < 2 {
                if per_width > 1 {
                    continue;
                }
                (op, signed) = (Op::Lt, false);
            }
            items.push(SweepCase { op, signed, w });
        }
    }
    items.sort_by_key(|c| std::cmp::Reverse(c.w));
    items
}

// ---------------------------------------------------------------------------------------------
// (3) pairs: generated batches with broadcasting

#[derive(Clone, Debug, Serialize, Deserialize)]
pub struct PairCase {
    pub op: Op,
    pub signed: bool,
    pub w: u32,
    /// batch shapes (the bit dimension w is appended by the interpreter)
    pub sa: Vec<u64>,
    pub sb: Vec<u64>,
    pub a: Vec<u128>,
    pub b: Vec<u128>,
}

pub fn oracle_pairs(c: &PairCase) -> Outcome {
    check(&Operands {
        op: c.op,
        signed: c.signed,
        w: c.w,
        sa: &c.sa,
        sb: &c.sb,
        a: &c.a,
        b: &c.b,
    })
}

fn arb_val(w: u32) -> BoxedStrategy<u128> {
    let m = mask_bits(w);
    let hb = 1u128 << (w - 1);
    prop_oneof![
        2 => Just(0u128),
        2 => Just(1u128 & m),
        2 => Just(m),
        2 => Just(hb),
        2 => Just(hb - 1),
        3 => (0..w).prop_map(|k| 1u128 << k),
        2 => (0..w).prop_map(|k| (1u128 << k) - 1),
        2 => (0u128..256).prop_map(move |x| x & m),
        2 => (0u128..256).prop_map(move |x| x.wrapping_neg() & m),
        12 => any::<u128>().prop_map(move |x| x & m),
    ]
    .boxed()
}

#[derive(Clone, Debug)]
struct PairParams {
    class: u8,
    x: u128,
    y: u128,
    k1: u16,
    k2: u16,
    anchor: bool,
    swap: bool,
}

fn arb_pair_params(w: u32) -> BoxedStrategy<PairParams> {
    (
        prop_oneof![
            3 => Just(0u8), // equal
            4 => Just(1u8), // adjacent
            2 => Just(2u8), // sign / wrap boundary
            4 => Just(3u8), // single-bit difference
            4 => Just(4u8), // two bits, opposite directions
            3 => Just(5u8), // common high prefix
            6 => Just(6u8), // uniform
        ],
        arb_val(w),
        arb_val(w),
        any::<u16>(),
        any::<u16>(),
        prop::bool::weighted(0.3),
        any::<bool>(),
    )
        .prop_map(|(class, x, y, k1, k2, anchor, swap)| PairParams { class, x, y, k1, k2, anchor, swap })
        .boxed()
}

fn derive_pair(p: &PairParams, anchor: u128, w: u32) -> (u128, u128) {
    let m = mask_bits(w);
    let hb = 1u128 << (w - 1);
    let x = if p.anchor { anchor } else { p.x };
    let (a, b) = match p.class {
        0 => (x, x),
        1 => {
            if p.k1 & 1 == 0 {
                (x, x.wrapping_add(1) & m)
            } else {
                (x, x.wrapping_sub(1) & m)
            }
        }
        2 => {
            let l = [hb.wrapping_sub(1) & m, hb, hb.wrapping_add(1) & m, hb.wrapping_sub(2) & m, 0, m, 1 & m];
            (l[pick(p.k1, l.len())], l[pick(p.k2, l.len())])
        }
        3 => (x, x ^ (1u128 << pick(p.k1, w as usize))),
        4 => {
            let i = 1u128 << pick(p.k1, w as usize);
            let j = 1u128 << pick(p.k2, w as usize);
            ((x | i) & !j, (x & !i) | j)
        }
        5 => {
            // the low k bits (k in 0..=w) are re-drawn, the high w-k bits are common
            let low = mask_bits(pick(p.k1, w as usize + 1) as u32) & m;
            (x, (x & !low) | (p.y & low))
        }
        _ => (x, p.y),
    };
    if p.swap {
        (b, a)
    } else {
        (a, b)
    }
}

fn arb_pair_case(max_elems: u64) -> BoxedStrategy<PairCase> {
    // rank 0 (one pair, scalar result) is the least efficient shape and gets the lowest weight
    let dims = prop_oneof![1 => Just(0usize), 3 => Just(1usize), 3 => Just(2usize), 3 => Just(3usize)]
        .prop_flat_map(|r| proptest::collection::vec(prop_oneof![2 => Just(1u64), 3 => 2u64..=3, 4 => 1u64..=6], r));
    (
        proptest::sample::select(CONFIGS.to_vec()),
        prop_oneof![1 => 1u32..=16, 7 => 1u32..=128],
        dims,
        // per result dimension: 0..=3 keep in both, 4..=6 operand a has size 1, 7..=9 operand b has size 1
        proptest::collection::vec(0u8..10, 3),
        prop_oneof![6 => Just(0u16), 4 => any::<u16>()],
        prop_oneof![6 => Just(0u16), 4 => any::<u16>()],
        prop::bool::weighted(0.25),
    )
        .prop_flat_map(move |((op, signed), w, mut rs, modes, drop_a, drop_b, same)| {
            while rs.iter().product::<u64>() > max_elems {
                let (i, _) = rs.iter().enumerate().max_by_key(|(_, d)| **d).unwrap();
                rs[i] = (rs[i] / 2).max(1);
            }
            let n = rs.iter().product::<u64>() as usize;
            (
                arb_val(w),
                proptest::collection::vec(arb_pair_params(w), n),
            )
                .prop_map(move |(anchor, params)| {
                    let rank = rs.len();
                    let (mut sa, mut sb) = (rs.clone(), rs.clone());
                    if !same {
                        for i in 0..rank {
                            match modes[i] {
                                4..=6 => sa[i] = 1,
                                7..=9 => sb[i] = 1,
                                _ => {}
                            }
                        }
                        let da = pick(drop_a, rank + 1);
                        let db = pick(drop_b, rank + 1);
                        // dropping leading dimensions = rank mismatch (the dropped dims act as size 1)
                        sa = sa[da..].to_vec();
                        sb = sb[db..].to_vec();
                    }
                    // result shape actually produced by these operands
                    let res = bcast_shape(&sa, &sb).expect("constructed shapes broadcast");
                    let na = sa.iter().product::<u64>() as usize;
                    let nb = sb.iter().product::<u64>() as usize;
                    let mut a = vec![0u128; na];
                    let mut b = vec![0u128; nb];
                    let mut seta = vec![false; na];
                    let mut setb = vec![false; nb];
                    let mut idx = vec![0u64; res.len()];
                    let mut r = 0usize;
                    loop {
                        let (pa, pb) = derive_pair(&params[r], anchor, w);
                        let oa = operand_offset(&idx, &sa);
                        let ob = operand_offset(&idx, &sb);
                        if !seta[oa] && !setb[ob] {
                            a[oa] = pa;
                            b[ob] = pb;
                            seta[oa] = true;
                            setb[ob] = true;
                        } else if !seta[oa] {
                            // b is fixed already: keep the relation of the class towards the existing b
                            // where that is possible (equal class), else take the generated a
                            a[oa] = if params[r].class == 0 { b[ob] } else { pa };
                            seta[oa] = true;
                        } else if !setb[ob] {
                            b[ob] = if params[r].class == 0 { a[oa] } else { pb };
                            setb[ob] = true;
                        }
                        r += 1;
                        if !next_index(&mut idx, &res) {
                            break;
                        }
                    }
                    PairCase { op, signed, w, sa, sb, a, b }
                })
        })
        .boxed()
}

// ---------------------------------------------------------------------------------------------

fn width_table(env: &Env, check: &str) -> BTreeMap<String, u64> {
    let stats = env.stats.lock().unwrap();
    let mut t = BTreeMap::new();
    if let Some(st) = stats.get(check) {
        for (k, v) in &st.labels {
            if let Some(w) = k.strip_prefix("w:") {
                t.insert(w.to_string(), *v);
            }
        }
    }
    t
}

pub fn run(env: &Env) {
    env.assume("operands are BIT arrays whose last dimension is the width (>= rank 1); Type::Scalar(BIT) operands are rejected by the ops ('expected Array type') and are not bit strings of a width, so they are outside the domain");
    env.assume("signed mode with width 1 is rejected by the ops with a documented error ('Signed input has less than 2 bits'); counted as skip");
    env.assume("Equal/NotEqual have no signed mode (bit-string equality does not depend on the reading)");

    // VH_ONLY=grid,sweep,pairs restricts the sub-checks (development aid; default = all)
    let only = std::env::var("VH_ONLY").unwrap_or_default();
    let want = |n: &str| only.is_empty() || only.split(',').any(|x| x == n);
    if want("grid") {
    env.enumerate(
        "grid",
        "ALL 4^w operand pairs of width w in one evaluation, 4 layouts (column x row, row x column, rank-mismatch, flat); quick w<=6, thorough w<=8 (w<=9 for Equal/LessThan, layout 0)",
        grid_items(env),
        oracle_grid,
    );
    }
    if want("sweep") {
    env.enumerate_opt(
        "sweep",
        "every width 1..128 x (quick: 1 rotating, thorough: all 14) op/signedness configurations: the fixed systematic pair list of the width (~17w+180 pairs: equal operands, single-bit difference at every position, carry chains, neighbouring powers of two, every bit vs the sign bit, cross product of 13 boundary values)",
        sweep_items(env),
        false,
        oracle_sweep,
    );
    }
    if want("pairs") {
    let cap = env.pick(48u64, 64u64);
    env.campaign(
        "pairs",
        "generated (op, signedness, width 1..128, batch shapes rank 0-3 with size-1 / rank-mismatch broadcasting, structured operand pairs)",
        env.n(60_000, 1_500_000),
        move || arb_pair_case(cap),
        oracle_pairs,
    );
    }

    // per-width coverage table (every width 1..128 must be non-zero)
    for name in ["sweep", "pairs"] {
        if !want(name) {
            continue;
        }
        let t = width_table(env, name);
        let missing: Vec<String> = (1..=128u32)
            .map(|w| format!("{:03}", w))
            .filter(|w| t.get(w).copied().unwrap_or(0) == 0)
            .collect();
        let min = t.values().copied().min().unwrap_or(0);
        env.note(
            &format!("width_coverage_{}", name),
            json!({"widths_covered": t.len(), "min_cases_per_width": min, "widths_missing": missing}),
        );
        if !missing.is_empty() && !env.failed() {
            println!("note: C16 {}: widths without a passing case: {:?}", name, missing);
        }
    }
}

pub fn replay(check: &str, case: J) -> Outcome {
    match check {
        "grid" => replay_with::<GridCase, _>(case, oracle_grid),
        "sweep" => replay_with::<SweepCase, _>(case, oracle_sweep),
        _ => replay_with::<PairCase, _>(case, oracle_pairs),
    }
}
