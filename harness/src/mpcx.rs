//! MPC helpers shared by C01/C02/C03/C05/C18/C19: compilation with a configuration, input
//! preparation for the global evaluator and for three separate parties.
use crate::graphgen::splitmix;
use crate::hv::*;
use ciphercore_base::custom_ops::MappedContext;
use ciphercore_base::data_types::Type;
use ciphercore_base::data_values::Value;
use ciphercore_base::evaluators::simple_evaluator::SimpleEvaluator;
use ciphercore_base::graphs::Context;
use ciphercore_base::inline::inline_common::DepthOptimizationLevel;
use ciphercore_base::inline::inline_ops::{InlineConfig, InlineMode};
use ciphercore_base::mpc::mpc_compiler::{compile_context, IOStatus};
use serde::{Deserialize, Serialize};

#[derive(Clone, Debug, Serialize, Deserialize, PartialEq, Eq, Hash)]
pub struct MpcCfg {
    /// owner of input i = owners[i % len]: 0,1,2 = party; 3 = public; 4 = shared
    pub owners: Vec<u8>,
    /// output parties in order (distinct ids 0..3); empty = output stays secret-shared
    pub outs: Vec<u8>,
    /// 0 simple, 1 depth-optimised default, 2 depth-optimised extreme
    pub mode: u8,
    pub compile_seed: [u8; 16],
}

pub fn owner_of(cfg: &MpcCfg, i: usize) -> u8 {
    if cfg.owners.is_empty() {
        0
    } else {
        cfg.owners[i % cfg.owners.len()] % 5
    }
}

pub fn io_status(o: u8) -> IOStatus {
    match o {
        0 | 1 | 2 => IOStatus::Party(o as u64),
        3 => IOStatus::Public,
        _ => IOStatus::Shared,
    }
}

pub fn inline_cfg(mode: u8) -> InlineConfig {
    InlineConfig {
        default_mode: match mode % 3 {
            0 => InlineMode::Simple,
            1 => InlineMode::DepthOptimized(DepthOptimizationLevel::Default),
            _ => InlineMode::DepthOptimized(DepthOptimizationLevel::Extreme),
        },
        ..Default::default()
    }
}

pub fn mode_name(mode: u8) -> &'static str {
    match mode % 3 {
        0 => "simple",
        1 => "do-default",
        _ => "do-extreme",
    }
}

pub enum Compiled {
    Ok(MappedContext),
    Rejected(String),
    Panicked(String),
}

pub fn compile(ctx: &Context, n_inputs: usize, cfg: &MpcCfg) -> Compiled {
    let owners: Vec<IOStatus> = (0..n_inputs).map(|i| io_status(owner_of(cfg, i))).collect();
    let outs: Vec<IOStatus> = cfg.outs.iter().map(|p| IOStatus::Party((*p % 3) as u64)).collect();
    let seed = cfg.compile_seed;
    let r = crate::util::catch(|| {
        compile_context(ctx.clone(), owners, outs, inline_cfg(cfg.mode), || SimpleEvaluator::new(Some(seed)))
    });
    match r {
        Ok(Ok(m)) => Compiled::Ok(m),
        Ok(Err(e)) => Compiled::Rejected(e.to_string()),
        Err(p) => Compiled::Panicked(p),
    }
}

/// uniform junk of type t from a seed
pub fn junk(t: &Type, seed: &mut u64) -> HVal {
    if is_leaf(t) {
        let st = leaf_st(t);
        HVal::A(
            (0..type_elems(t))
                .map(|_| (((splitmix(seed) as u128) << 64) | splitmix(seed) as u128) & mask(st))
                .collect(),
        )
    } else {
        HVal::V(children_types(t).iter().map(|ct| junk(ct, seed)).collect())
    }
}

/// additive shares s0, s1 uniform from the seed, s2 = v - s0 - s1
pub fn shares(v: &HVal, t: &Type, seed: &mut u64) -> [HVal; 3] {
    let s0 = junk(t, seed);
    let s1 = junk(t, seed);
    let s2 = sub(&sub(v, &s0, t), &s1, t);
    [s0, s1, s2]
}

/// inputs of the compiled graph for the single global evaluator
pub fn global_inputs(types: &[Type], vals: &[HVal], cfg: &MpcCfg, share_seed: u64) -> Vec<Value> {
    let mut seed = share_seed;
    types
        .iter()
        .zip(vals.iter())
        .enumerate()
        .map(|(i, (t, v))| {
            if owner_of(cfg, i) == 4 {
                let sh = shares(v, t, &mut seed);
                Value::from_vector(sh.iter().map(|s| encode(s, t)).collect())
            } else {
                encode(v, t)
            }
        })
        .collect()
}

/// inputs of the compiled graph as seen by each of the three parties: the true value for inputs
/// the party owns and for public inputs, junk otherwise; for a shared input party i holds true
/// shares in slots i and i+1 and junk in slot i+2 (the layout of get_local_shares_for_each_party)
pub fn party_inputs(types: &[Type], vals: &[HVal], cfg: &MpcCfg, share_seed: u64, junk_seed: u64) -> [Vec<Value>; 3] {
    let mut out: [Vec<Value>; 3] = [vec![], vec![], vec![]];
    let mut sseed = share_seed;
    let mut jseed = junk_seed;
    for (i, (t, v)) in types.iter().zip(vals.iter()).enumerate() {
        let o = owner_of(cfg, i);
        match o {
            0 | 1 | 2 => {
                for p in 0..3u8 {
                    if p == o {
                        out[p as usize].push(encode(v, t));
                    } else {
                        out[p as usize].push(encode(&junk(t, &mut jseed), t));
                    }
                }
            }
            3 => {
                for p in 0..3 {
                    out[p].push(encode(v, t));
                }
            }
            _ => {
                let sh = shares(v, t, &mut sseed);
                for p in 0..3usize {
                    let slots: Vec<Value> = (0..3usize)
                        .map(|s| {
                            if s == p || s == (p + 1) % 3 {
                                encode(&sh[s], t)
                            } else {
                                encode(&junk(t, &mut jseed), t)
                            }
                        })
                        .collect();
                    out[p].push(Value::from_vector(slots));
                }
            }
        }
    }
    out
}
