//! C13 — values encode integers faithfully, in bytes and in JSON.
use crate::core::*;
use crate::gen::*;
use crate::hv::*;
use ciphercore_base::data_types::{array_type, scalar_type, ScalarType, Type};
use ciphercore_base::data_values::Value;
use ciphercore_base::typed_value::TypedValue;
use ciphercore_base::typed_value_operations::TypedValueOperations;
use proptest::prelude::*;
use serde::{Deserialize, Serialize};
use serde_json::Value as J;

pub const RULE: &str = "generated (scalar type, source integer type, integers with boundary emphasis, ragged bit arrays, nested container types); \
non-trivial = the value contains a boundary integer (min/max/-1/2^(w-1)/>=2^64) or a bit array whose length is not a multiple of 8 (ints/bytes), \
a near-miss or matching non-leaf layout (check_type), a nested container or a number >= 2^64 in magnitude (JSON); distinct = distinct generated case";

// ---------------------------------------------------------------------------------------------
// (1)+(2) integers -> Value -> integers, and byte layout

#[derive(Clone, Copy, Debug, Serialize, Deserialize, PartialEq, Eq)]
pub enum Src {
    U8,
    I8,
    U16,
    I16,
    U32,
    I32,
    U64,
    I64,
    U128,
    I128,
}
const SRCS: [Src; 10] = [
    Src::U8,
    Src::I8,
    Src::U16,
    Src::I16,
    Src::U32,
    Src::I32,
    Src::U64,
    Src::I64,
    Src::U128,
    Src::I128,
];
fn src_bits(s: Src) -> u32 {
    match s {
        Src::U8 | Src::I8 => 8,
        Src::U16 | Src::I16 => 16,
        Src::U32 | Src::I32 => 32,
        Src::U64 | Src::I64 => 64,
        Src::U128 | Src::I128 => 128,
    }
}
fn src_signed(s: Src) -> bool {
    matches!(s, Src::I8 | Src::I16 | Src::I32 | Src::I64 | Src::I128)
}

#[derive(Clone, Debug, Serialize, Deserialize)]
pub struct IntCase {
    pub st: ScalarType,
    pub src: Src,
    /// raw bits of the source integers (low src_bits are meaningful)
    pub raw: Vec<u128>,
    pub scalar_api: bool,
}

fn arb_raw(bits_: u32) -> BoxedStrategy<u128> {
    let m = mask_bits(bits_);
    prop_oneof![
        2 => Just(0u128),
        2 => Just(1u128),
        2 => Just(m),
        2 => Just(1u128 << (bits_ - 1)),
        2 => Just((1u128 << (bits_ - 1)) - 1),
        3 => (0..bits_).prop_map(|k| 1u128 << k),
        2 => (0..bits_).prop_map(move |k| ((1u128 << k).wrapping_add(1)) & m),
        2 => (0..bits_).prop_map(move |k| ((1u128 << k).wrapping_sub(1)) & m),
        2 => (0u128..300).prop_map(move |x| x & m),
        2 => (0u128..300).prop_map(move |x| x.wrapping_neg() & m),
        6 => any::<u128>().prop_map(move |x| x & m),
    ]
    .boxed()
}

fn arb_int_case() -> BoxedStrategy<IntCase> {
    (arb_st(), proptest::sample::select(SRCS.to_vec()), any::<bool>())
        .prop_flat_map(|(st, src, scalar_api)| {
            let elem = if st == ScalarType::Bit {
                // bits: mostly 0/1, sometimes a non-bit (must be rejected cleanly)
                prop_oneof![12 => (0u128..2), 1 => arb_raw(src_bits(src))].boxed()
            } else {
                arb_raw(src_bits(src))
            };
            let len = if scalar_api { 1..2usize } else { 1..40usize };
            proptest::collection::vec(elem, len).prop_map(move |raw| IntCase {
                st,
                src,
                raw,
                scalar_api,
            })
        })
        .boxed()
}

/// the mathematical integer denoted by the raw source bits, as a 128-bit two's-complement pattern
fn src_value_bits(raw: u128, src: Src) -> u128 {
    let b = src_bits(src);
    let r = raw & mask_bits(b);
    if src_signed(src) && b < 128 && (r >> (b - 1)) & 1 == 1 {
        r | !mask_bits(b)
    } else {
        r
    }
}

macro_rules! mk_value {
    ($case:expr, $ty:ty) => {{
        let xs: Vec<$ty> = $case.raw.iter().map(|r| src_value_bits(*r, $case.src) as $ty).collect();
        if $case.scalar_api {
            Value::from_scalar(xs[0], $case.st)
        } else {
            Value::from_flattened_array(&xs, $case.st)
        }
    }};
}

fn sext(e: u128, st: ScalarType) -> u128 {
    let b = bits(st);
    if is_signed(st) && b < 128 && (e >> (b - 1)) & 1 == 1 {
        e | !mask_bits(b)
    } else {
        e
    }
}

pub fn oracle_ints(c: &IntCase) -> Outcome {
    let st = c.st;
    let n = c.raw.len();
    let built = match c.src {
        Src::U8 => mk_value!(c, u8),
        Src::I8 => mk_value!(c, i8),
        Src::U16 => mk_value!(c, u16),
        Src::I16 => mk_value!(c, i16),
        Src::U32 => mk_value!(c, u32),
        Src::I32 => mk_value!(c, i32),
        Src::U64 => mk_value!(c, u64),
        Src::I64 => mk_value!(c, i64),
        Src::U128 => mk_value!(c, u128),
        Src::I128 => mk_value!(c, i128),
    };
    let ints: Vec<u128> = c.raw.iter().map(|r| src_value_bits(*r, c.src)).collect();
    if st == ScalarType::Bit && ints.iter().any(|x| *x > 1) {
        // documented rejection "Input is not a bit"
        return match built {
            Err(_) => Outcome::pass(false).label("bit:non-bit-rejected"),
            Ok(_) => Outcome::fail(
                "bit-nonbit-accepted",
                format!("non-bit integers {:?} accepted for BIT", ints),
            ),
        };
    }
    let v = match built {
        Ok(v) => v,
        Err(e) => return Outcome::fail("from-ints-err", format!("constructor failed: {}", e)),
    };
    let expect: Vec<u128> = ints.iter().map(|x| x & mask(st)).collect();
    // (2) byte layout
    let ref_bytes = encode_leaf(&expect, st);
    let got_bytes = v.access_bytes(|b| Ok(b.to_vec()));
    match got_bytes {
        Ok(b) => {
            if b != ref_bytes {
                return Outcome::fail(
                    "byte-layout",
                    format!("bytes {:?} != reference {:?} for {:?} {:?}", b, ref_bytes, st, expect),
                );
            }
        }
        Err(e) => return Outcome::fail("byte-layout", format!("not a byte value: {}", e)),
    }
    // (1) read back
    let t = if c.scalar_api {
        scalar_type(st)
    } else {
        array_type(vec![n as u64], st)
    };
    match v.check_type(t.clone()) {
        Ok(true) => {}
        other => return Outcome::fail("check-type-own", format!("check_type -> {:?}", other.map_err(|e| e.to_string()))),
    }
    let ext: Vec<u128> = expect.iter().map(|e| sext(*e, st)).collect();
    macro_rules! cmp_arr {
        ($f:ident, $ty:ty) => {{
            match v.$f(t.clone()) {
                Ok(got) => {
                    let want: Vec<$ty> = ext.iter().map(|x| *x as $ty).collect();
                    if got != want {
                        return Outcome::fail(
                            concat!("readback-", stringify!($f)),
                            format!("{} {:?}: got {:?} want {:?}", stringify!($f), st, got, want),
                        );
                    }
                }
                Err(e) => return Outcome::fail(concat!("readback-", stringify!($f)), format!("{}", e)),
            }
        }};
    }
    macro_rules! cmp_sc {
        ($f:ident, $ty:ty) => {{
            match v.$f(st) {
                Ok(got) => {
                    let want = ext[0] as $ty;
                    if got != want {
                        return Outcome::fail(
                            concat!("readback-", stringify!($f)),
                            format!("{} {:?}: got {:?} want {:?}", stringify!($f), st, got, want),
                        );
                    }
                }
                Err(e) => return Outcome::fail(concat!("readback-", stringify!($f)), format!("{}", e)),
            }
        }};
    }
    if c.scalar_api {
        cmp_sc!(to_u8, u8);
        cmp_sc!(to_i8, i8);
        cmp_sc!(to_u16, u16);
        cmp_sc!(to_i16, i16);
        cmp_sc!(to_u32, u32);
        cmp_sc!(to_i32, i32);
        cmp_sc!(to_u64, u64);
        cmp_sc!(to_i64, i64);
        cmp_sc!(to_u128, u128);
        cmp_sc!(to_i128, i128);
        if st == ScalarType::Bit {
            match v.to_bit() {
                Ok(b) => {
                    if (b as u128) != expect[0] {
                        return Outcome::fail("readback-to_bit", format!("to_bit {} vs {}", b, expect[0]));
                    }
                }
                Err(e) => return Outcome::fail("readback-to_bit", format!("{}", e)),
            }
        }
    } else {
        cmp_arr!(to_flattened_array_u8, u8);
        cmp_arr!(to_flattened_array_i8, i8);
        cmp_arr!(to_flattened_array_u16, u16);
        cmp_arr!(to_flattened_array_i16, i16);
        cmp_arr!(to_flattened_array_u32, u32);
        cmp_arr!(to_flattened_array_i32, i32);
        cmp_arr!(to_flattened_array_u64, u64);
        cmp_arr!(to_flattened_array_i64, i64);
        cmp_arr!(to_flattened_array_u128, u128);
        cmp_arr!(to_flattened_array_i128, i128);
    }
    let boundary = expect.iter().any(|x| is_extreme(*x, st)) || (st == ScalarType::Bit && n % 8 != 0);
    Outcome::pass(boundary)
        .label(format!("st:{}", st))
        .label(format!("src:{:?}", c.src))
        .label(if c.scalar_api { "api:scalar" } else { "api:array" })
}

// ---------------------------------------------------------------------------------------------
// (3) check_type <=> structural layout predicate

#[derive(Clone, Debug, Serialize, Deserialize)]
pub enum Raw {
    B(usize),
    V(Vec<Raw>),
}

#[derive(Clone, Debug, Serialize, Deserialize)]
pub struct LayoutCase {
    pub t: Type,
    /// mutations applied to the matching layout: (path selector, kind)
    pub muts: Vec<(u16, u8)>,
}

fn matching_raw(t: &Type) -> Raw {
    if is_leaf(t) {
        let nbits = type_elems(t) as u64 * bits(leaf_st(t)) as u64;
        Raw::B(((nbits + 7) / 8) as usize)
    } else {
        Raw::V(children_types(t).iter().map(matching_raw).collect())
    }
}

fn count_raw(r: &Raw) -> usize {
    match r {
        Raw::B(_) => 1,
        Raw::V(c) => 1 + c.iter().map(count_raw).sum::<usize>(),
    }
}

fn mutate_at(r: &mut Raw, idx: &mut usize, kind: u8) -> bool {
    if *idx == 0 {
        match r {
            Raw::B(n) => match kind % 4 {
                0 => *n += 1,
                1 => {
                    if *n > 0 {
                        *n -= 1
                    } else {
                        *n += 1
                    }
                }
                2 => *r = Raw::V(vec![Raw::B(*n)]),
                _ => *n += 8,
            },
            Raw::V(c) => match kind % 4 {
                0 => c.push(Raw::B(1)),
                1 => {
                    if c.pop().is_none() {
                        c.push(Raw::V(vec![]))
                    }
                }
                2 => *r = Raw::B(c.len()),
                _ => c.insert(0, Raw::V(vec![])),
            },
        }
        return true;
    }
    *idx -= 1;
    if let Raw::V(c) = r {
        for ch in c.iter_mut() {
            if mutate_at(ch, idx, kind) {
                return true;
            }
        }
    }
    false
}

fn raw_to_value(r: &Raw) -> Value {
    match r {
        Raw::B(n) => Value::from_bytes(vec![0xA5u8; *n]),
        Raw::V(c) => Value::from_vector(c.iter().map(raw_to_value).collect()),
    }
}

/// the harness's own structural predicate
fn layout_ok(r: &Raw, t: &Type) -> bool {
    match t {
        Type::Scalar(st) => matches!(r, Raw::B(n) if *n as u64 == (bits(*st) as u64 + 7) / 8),
        Type::Array(shape, st) => {
            let nbits = shape.iter().product::<u64>() * bits(*st) as u64;
            matches!(r, Raw::B(n) if *n as u64 == (nbits + 7) / 8)
        }
        _ => {
            let ts = children_types(t);
            match r {
                Raw::V(c) => c.len() == ts.len() && c.iter().zip(ts.iter()).all(|(x, ct)| layout_ok(x, ct)),
                _ => false,
            }
        }
    }
}

pub fn oracle_layout(c: &LayoutCase) -> Outcome {
    let mut raw = matching_raw(&c.t);
    for (sel, kind) in &c.muts {
        let n = count_raw(&raw);
        let mut idx = pick(*sel, n);
        mutate_at(&mut raw, &mut idx, *kind);
    }
    let v = raw_to_value(&raw);
    let want = layout_ok(&raw, &c.t);
    match v.check_type(c.t.clone()) {
        Ok(got) => {
            if got != want {
                return Outcome::fail(
                    "check-type-iff",
                    format!("check_type={} but layout predicate={} for type {} raw {:?}", got, want, c.t, raw),
                );
            }
            let mut o = Outcome::pass(!c.muts.is_empty() || !is_leaf(&c.t));
            o = o.label(if want { "layout:match" } else { "layout:mismatch" });
            o.label(format!("muts:{}", c.muts.len()))
        }
        Err(e) => Outcome::fail("check-type-err", format!("check_type returned Err on a valid type: {}", e)),
    }
}

fn arb_layout_case() -> BoxedStrategy<LayoutCase> {
    (
        arb_type(3),
        proptest::collection::vec((any::<u16>(), any::<u8>()), 0..3),
    )
        .prop_map(|(t, muts)| LayoutCase { t, muts })
        .boxed()
}

// ---------------------------------------------------------------------------------------------
// (4) JSON round trip

#[derive(Clone, Debug, Serialize, Deserialize)]
pub struct JsonCase {
    pub t: Type,
    pub v: HVal,
}

fn has_empty_vector_nonvoid(t: &Type) -> bool {
    match t {
        Type::Vector(0, et) => **et != Type::Tuple(vec![]),
        Type::Vector(_, et) => has_empty_vector_nonvoid(et),
        Type::Tuple(ts) => ts.iter().any(|x| has_empty_vector_nonvoid(x)),
        Type::NamedTuple(ts) => ts.iter().any(|(_, x)| has_empty_vector_nonvoid(x)),
        _ => false,
    }
}
fn erase_empty_vec(t: &Type) -> Type {
    use ciphercore_base::data_types::{named_tuple_type, tuple_type, vector_type};
    match t {
        Type::Vector(0, _) => vector_type(0, tuple_type(vec![])),
        Type::Vector(n, et) => vector_type(*n, erase_empty_vec(et)),
        Type::Tuple(ts) => tuple_type(ts.iter().map(|x| erase_empty_vec(x)).collect()),
        Type::NamedTuple(ts) => {
            named_tuple_type(ts.iter().map(|(n, x)| (n.clone(), erase_empty_vec(x))).collect())
        }
        other => other.clone(),
    }
}
fn has_empty_named_tuple(t: &Type) -> bool {
    match t {
        Type::NamedTuple(ts) => ts.is_empty() || ts.iter().any(|(_, x)| has_empty_named_tuple(x)),
        Type::Vector(_, et) => has_empty_named_tuple(et),
        Type::Tuple(ts) => ts.iter().any(|x| has_empty_named_tuple(x)),
        _ => false,
    }
}
fn depth(t: &Type) -> u32 {
    if is_leaf(t) {
        0
    } else {
        1 + children_types(t).iter().map(depth).max().unwrap_or(0)
    }
}

pub fn oracle_json(c: &JsonCase) -> Outcome {
    let value = encode(&c.v, &c.t);
    let tv = match TypedValue::new(c.t.clone(), value) {
        Ok(tv) => tv,
        Err(e) => return Outcome::fail("tv-new", format!("TypedValue::new rejected a reference-encoded value: {}", e)),
    };
    let sig_suffix = "";
    let text = match serde_json::to_string(&tv) {
        Ok(s) => s,
        Err(e) => return Outcome::fail(&format!("json-ser{}", sig_suffix), format!("to_string failed: {}", e)),
    };
    let back: TypedValue = match serde_json::from_str(&text) {
        Ok(b) => b,
        Err(e) => {
            // known root cause F-C13-1: an empty named tuple is written as "value":[] which the
            // reader takes for an (untyped) empty vector
            let sig_suffix = if has_empty_named_tuple(&c.t)
                && e.to_string().contains("The value doesn't match to kind \"named tuple\"")
            {
                "-empty-named-tuple"
            } else {
                ""
            };
            return Outcome::fail(
                &format!("json-parse{}", sig_suffix),
                format!("from_str failed: {} on {}", e, text.chars().take(300).collect::<String>()),
            )
        }
    };
    if back.t != c.t {
        // known root cause F-C13-2: the type differs exactly by the element types of empty vectors
        let sig_suffix = if has_empty_vector_nonvoid(&c.t) && back.t == erase_empty_vec(&c.t) {
            "-empty-vector"
        } else {
            ""
        };
        return Outcome::fail(
            &format!("json-type{}", sig_suffix),
            format!("type changed: {} -> {} text {}", c.t, back.t, text.chars().take(300).collect::<String>()),
        );
    }
    match tv.is_equal(&back) {
        Ok(true) => {}
        other => {
            return Outcome::fail(
                &format!("json-value{}", sig_suffix),
                format!("is_equal -> {:?}", other.map_err(|e| e.to_string())),
            )
        }
    }
    // independent comparison through the harness decoder
    match decode(&back.value, &c.t) {
        Ok(hv) => {
            if hv != c.v {
                return Outcome::fail(&format!("json-value{}", sig_suffix), format!("decoded {:?} != {:?}", hv, c.v));
            }
        }
        Err(e) => return Outcome::fail(&format!("json-value{}", sig_suffix), e),
    }
    // pretty form too
    if let Ok(p) = serde_json::to_string_pretty(&tv) {
        match serde_json::from_str::<TypedValue>(&p) {
            Ok(b2) => {
                if b2.t != c.t || !tv.is_equal(&b2).unwrap_or(false) {
                    return Outcome::fail(&format!("json-pretty{}", sig_suffix), "pretty form does not round-trip".into());
                }
            }
            Err(e) => return Outcome::fail(&format!("json-pretty{}", sig_suffix), format!("{}", e)),
        }
    }
    let big = flat_elems(&c.v).iter().any(|x| *x >> 64 != 0);
    let nt = depth(&c.t) >= 2 || big;
    Outcome::pass(nt)
        .label(format!("depth:{}", depth(&c.t)))
        .label(if big { "has>=2^64" } else { "small" })
}

/// types for JSON: like arb_type but named tuples may be empty
fn arb_json_type(d: u32) -> BoxedStrategy<Type> {
    use ciphercore_base::data_types::{named_tuple_type, tuple_type, vector_type};
    let leaf = arb_leaf_type(3, 4, 24);
    if d == 0 {
        return leaf;
    }
    let sub = arb_json_type(d - 1);
    prop_oneof![
        4 => leaf,
        2 => proptest::collection::vec(sub.clone(), 0..4).prop_map(tuple_type),
        // empty named tuples / empty vectors hit the known findings F-C13-1/2: kept at low weight so
        // that the search continues behind them
        2 => prop_oneof![1 => Just(0usize), 30 => 1usize..4]
            .prop_flat_map({ let sub = sub.clone(); move |n| proptest::collection::vec(sub.clone(), n) })
            .prop_map(|ts| {
                let names = ["a", "b", "c", "d"];
                named_tuple_type(ts.into_iter().enumerate().map(|(i, t)| (names[i].to_string(), t)).collect())
            }),
        2 => (prop_oneof![1 => Just(0u64), 20 => 1u64..5], sub).prop_map(|(n, t)| vector_type(n, t)),
    ]
    .boxed()
}

fn arb_json_case() -> BoxedStrategy<JsonCase> {
    arb_json_type(3)
        .prop_flat_map(|t| {
            let tt = t.clone();
            arb_hval(&t).prop_map(move |v| JsonCase { t: tt.clone(), v })
        })
        .boxed()
}

pub fn run(env: &Env) {
    env.assume("Values built from raw bytes with stray bits are outside (1)-(2): the property speaks about values made from integers");
    env.campaign(
        "ints",
        "integers of every source integer type -> Value (from_scalar / from_flattened_array) -> every reader; bytes vs reference encoder",
        env.n(400_000, 6_000_000),
        arb_int_case,
        oracle_ints,
    );
    env.campaign(
        "layout",
        "check_type(value,type) iff harness layout predicate, on matching layouts and 1-2 structural mutations (byte length +-1/+8, arity +-1, bytes<->vector)",
        env.n(200_000, 3_000_000),
        arb_layout_case,
        oracle_layout,
    );
    env.campaign(
        "json",
        "serde_json::to_string(TypedValue) -> from_str: same type, is_equal, harness-decoded elements equal; compact and pretty text",
        env.n(200_000, 3_000_000),
        arb_json_case,
        oracle_json,
    );
    // pinned: known format limitations
    use ciphercore_base::data_types::{named_tuple_type, vector_type, INT32};
    env.pinned(
        "json-empty-vector",
        &JsonCase {
            t: vector_type(0, scalar_type(INT32)),
            v: HVal::V(vec![]),
        },
        oracle_json,
    );
    env.pinned(
        "json-empty-named-tuple",
        &JsonCase {
            t: named_tuple_type(vec![]),
            v: HVal::V(vec![]),
        },
        oracle_json,
    );
}

pub fn replay(check: &str, case: J) -> Outcome {
    match check {
        "ints" => replay_with::<IntCase, _>(case, oracle_ints),
        "layout" => replay_with::<LayoutCase, _>(case, oracle_layout),
        _ => replay_with::<JsonCase, _>(case, oracle_json),
    }
}
