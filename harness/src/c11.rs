//! C11 — graph-building API keeps contexts well-formed; failed calls have no effect.
//!
//! Model-based / stateful check. A case is a history (`Vec<Op>`, plain data); the interpreter turns
//! every op into one or more public API calls on one or two live contexts. The harness keeps its
//! own model of each context and, from the guards the code documents, predicts for every call
//! whether it must succeed / must fail. After EVERY call:
//!  (1) `wf::check_context` (ids dense, dependencies precede, called graphs finalized and older,
//!      names a bijection, every node has a valid type, flags consistent, no dangling table entry);
//!  (2) observable state (getter dump incl. every name lookup, and the decoded serialized context)
//!      equals the rendering of the model; handles returned earlier are still the stored objects;
//!  (3) a call that returned Err left the serialized text byte-identical and the getter dump equal;
//!  (4) no panic.
//! Layer E ("failed calls have no effect" for state that no getter shows, e.g. the size counter and
//! the type cache): the same history with failed calls REMOVED (all of them; the first rollback of
//! each class; one picked by the case) must give the same outcome for every remaining call and the
//! same final state.
use crate::c11_util::*;
use crate::core::*;
use crate::gen::pick;
use crate::util::catch;
use crate::wf;
use ciphercore_base::data_types::{array_type, scalar_type, tuple_type, Type, BIT, INT32, INT64};
use ciphercore_base::graphs::{create_context, Context, Graph, GraphAnnotation, Node, NodeAnnotation, Operation};
use serde_json::{json, Value as J};
use std::collections::{BTreeMap, BTreeSet};

pub const RULE: &str = "generated histories of 10-80 ops (each op = 1..n public API calls: create_graph, add_node of 46 operation kinds with fitting or twisted \
arguments / foreign nodes / unfinalized, younger or foreign graph dependencies / invalid, huge or over-limit types, names, annotations, set_output_node, finalize, \
set_main_graph, Context::finalize, read-only queries) over 1-2 contexts; model-based oracle after every call + removal of failed calls; \
non-trivial = the history has >= 2 graphs and >= 1 add_node that was rolled back (type error, wrong arity or size limit) followed by >= 1 successful call on the same graph; \
distinct = distinct generated history";

// ---------------------------------------------------------------------------------------------
// live objects + model

struct LCtx {
    ctx: Context,
    graphs: Vec<Graph>,
    nodes: Vec<Vec<Node>>,
}

type NId = (usize, usize, usize);
type GId = (usize, usize);

#[derive(Clone, Debug)]
enum Action {
    CreateGraph { c: usize },
    AddNode { g: GId, op: Operation, deps: Vec<NId>, gdeps: Vec<GId>, wrapper: bool },
    NameNode { via: Option<usize>, node: NId, name: String },
    NameGraph { via: Option<usize>, graph: GId, name: String },
    AnnotNode { node: NId, a: NodeAnnotation },
    AnnotGraph { graph: GId, a: GraphAnnotation },
    SetOutput { graph: GId, node: NId, via_node: bool },
    Finalize { graph: GId },
    SetMain { via: usize, graph: GId, via_graph: bool },
    FinalizeCtx { c: usize },
    Query { c: usize, g: Option<GId>, i: u16 },
}

impl Action {
    fn kind(&self) -> &'static str {
        match self {
            Action::CreateGraph { .. } => "create_graph",
            Action::AddNode { .. } => "add_node",
            Action::NameNode { .. } => "set_node_name",
            Action::NameGraph { .. } => "set_graph_name",
            Action::AnnotNode { .. } => "add_node_annotation",
            Action::AnnotGraph { .. } => "add_graph_annotation",
            Action::SetOutput { .. } => "set_output_node",
            Action::Finalize { .. } => "graph_finalize",
            Action::SetMain { .. } => "set_main_graph",
            Action::FinalizeCtx { .. } => "context_finalize",
            Action::Query { .. } => "query",
        }
    }
    fn target_graph(&self) -> Option<GId> {
        match self {
            Action::AddNode { g, .. } => Some(*g),
            Action::NameNode { node, .. } | Action::AnnotNode { node, .. } => Some((node.0, node.1)),
            Action::NameGraph { graph, .. }
            | Action::AnnotGraph { graph, .. }
            | Action::SetOutput { graph, .. }
            | Action::Finalize { graph }
            | Action::SetMain { graph, .. } => Some(*graph),
            _ => None,
        }
    }
}

enum Ret {
    Unit,
    Graph(Graph),
    Node(Node),
}

#[derive(Clone, Debug, PartialEq)]
struct CallRec {
    skipped: bool,
    ok: bool,
    msg: String,
    class: String,
    kind: &'static str,
}

#[derive(Clone)]
struct Snap {
    text: String,
    data: J,
    dump: J,
}

struct Trace {
    calls: Vec<CallRec>,
    finals: Vec<Snap>,
    labels: BTreeSet<String>,
    nontrivial: bool,
    n_graphs: usize,
}

struct Runner<'a> {
    skip: &'a BTreeSet<usize>,
    full: bool,
    live: Vec<LCtx>,
    model: Vec<MCtx>,
    snaps: Vec<Snap>,
    calls: Vec<CallRec>,
    labels: BTreeSet<String>,
    rolled_back: BTreeSet<GId>,
    nontrivial: bool,
}

fn fail(sig: String, msg: String) -> Outcome {
    Outcome::fail(&sig, msg)
}

fn jdiff(a: &J, b: &J, path: &str) -> Option<String> {
    if a == b {
        return None;
    }
    match (a, b) {
        (J::Object(x), J::Object(y)) => {
            for (k, v) in x {
                match y.get(k) {
                    Some(w) => {
                        if let Some(d) = jdiff(v, w, &format!("{}.{}", path, k)) {
                            return Some(d);
                        }
                    }
                    None => return Some(format!("{}.{}: only left = {}", path, k, v)),
                }
            }
            for (k, w) in y {
                if !x.contains_key(k) {
                    return Some(format!("{}.{}: only right = {}", path, k, w));
                }
            }
            None
        }
        (J::Array(x), J::Array(y)) => {
            if x.len() != y.len() {
                return Some(format!("{}: lengths {} vs {}", path, x.len(), y.len()));
            }
            for (i, (v, w)) in x.iter().zip(y.iter()).enumerate() {
                if let Some(d) = jdiff(v, w, &format!("{}[{}]", path, i)) {
                    return Some(d);
                }
            }
            None
        }
        _ => Some(format!("{}: {} vs {}", path, a, b)),
    }
}

fn short(s: &str) -> String {
    s.chars().take(400).collect()
}

/// getter-based dump of everything observable about one context
fn dump_context(c: &Context, data: &J) -> Result<J, String> {
    let (_, gfinal) = wf::finalized_flags(data)?;
    let mut graphs = vec![];
    for (gi, g) in c.get_graphs().iter().enumerate() {
        let mut nodes = vec![];
        for n in g.get_nodes() {
            let ty = match n.get_type() {
                Ok(t) => serde_json::to_value(&t).map_err(|e| e.to_string())?,
                Err(e) => json!({"type-error": e.to_string()}),
            };
            nodes.push(json!({
                "op": serde_json::to_value(n.get_operation()).map_err(|e| e.to_string())?,
                "deps": n.get_node_dependencies().iter().map(|d| d.get_id()).collect::<Vec<_>>(),
                "gdeps": n.get_graph_dependencies().iter().map(|d| d.get_id()).collect::<Vec<_>>(),
                "type": ty,
                "name": n.get_name().map_err(|e| e.to_string())?,
                "annots": serde_json::to_value(n.get_annotations().map_err(|e| e.to_string())?).map_err(|e| e.to_string())?,
            }));
        }
        let mut lookup = serde_json::Map::new();
        for name in NAMES {
            lookup.insert(
                name.to_string(),
                match c.retrieve_node(g.clone(), name) {
                    Ok(n) => json!(n.get_id()),
                    Err(_) => J::Null,
                },
            );
        }
        graphs.push(json!({
            "name": g.get_name().ok(),
            "annots": serde_json::to_value(g.get_annotations().map_err(|e| e.to_string())?).map_err(|e| e.to_string())?,
            "output": g.get_output_node().ok().map(|o| o.get_id()),
            "finalized": gfinal.get(gi).copied(),
            "num_nodes": g.get_num_nodes(),
            "nodes": nodes,
            "lookup": J::Object(lookup),
        }));
    }
    let mut glookup = serde_json::Map::new();
    for name in NAMES {
        glookup.insert(
            name.to_string(),
            match c.retrieve_graph(name) {
                Ok(g) => json!(g.get_id()),
                Err(_) => J::Null,
            },
        );
    }
    Ok(json!({
        "finalized": c.check_finalized().is_ok(),
        "main": c.get_main_graph().ok().map(|g| g.get_id()),
        "num_graphs": c.get_num_graphs(),
        "graphs": graphs,
        "glookup": J::Object(glookup),
    }))
}

fn render_dump(m: &MCtx) -> J {
    let mut graphs = vec![];
    for g in &m.graphs {
        let nodes: Vec<J> = g
            .nodes
            .iter()
            .map(|n| {
                json!({
                    "op": serde_json::to_value(&n.op).unwrap(),
                    "deps": n.deps,
                    "gdeps": n.gdeps,
                    "type": serde_json::to_value(&n.ty).unwrap(),
                    "name": n.name,
                    "annots": serde_json::to_value(&n.annots).unwrap(),
                })
            })
            .collect();
        let mut lookup = serde_json::Map::new();
        for name in NAMES {
            let hit = g.nodes.iter().position(|n| n.name.as_deref() == Some(name));
            lookup.insert(name.to_string(), json!(hit));
        }
        graphs.push(json!({
            "name": g.name,
            "annots": serde_json::to_value(&g.annots).unwrap(),
            "output": g.output,
            "finalized": g.finalized,
            "num_nodes": g.nodes.len(),
            "nodes": nodes,
            "lookup": J::Object(lookup),
        }));
    }
    let mut glookup = serde_json::Map::new();
    for name in NAMES {
        let hit = m.graphs.iter().position(|g| g.name.as_deref() == Some(name));
        glookup.insert(name.to_string(), json!(hit));
    }
    json!({
        "finalized": m.finalized,
        "main": m.main,
        "num_graphs": m.graphs.len(),
        "graphs": graphs,
        "glookup": J::Object(glookup),
    })
}

/// the model in the layout of the serialized context (inner payload)
fn render_serialized(m: &MCtx) -> J {
    let graphs: Vec<J> = m
        .graphs
        .iter()
        .map(|g| {
            json!({
                "finalized": g.finalized,
                "nodes": g.nodes.iter().map(|n| json!({
                    "node_dependencies": n.deps,
                    "graph_dependencies": n.gdeps,
                    "operation": serde_json::to_value(&n.op).unwrap(),
                })).collect::<Vec<_>>(),
                "output_node": g.output,
            })
        })
        .collect();
    let mut graphs_names = vec![];
    let mut nodes_names = vec![];
    let mut graphs_annotations = vec![];
    let mut nodes_annotations = vec![];
    for (gi, g) in m.graphs.iter().enumerate() {
        if let Some(n) = &g.name {
            graphs_names.push(json!([gi, n]));
        }
        if !g.annots.is_empty() {
            graphs_annotations.push(json!([gi, serde_json::to_value(&g.annots).unwrap()]));
        }
        for (ni, n) in g.nodes.iter().enumerate() {
            if let Some(name) = &n.name {
                nodes_names.push(json!([[gi, ni], name]));
            }
            if !n.annots.is_empty() {
                nodes_annotations.push(json!([[gi, ni], serde_json::to_value(&n.annots).unwrap()]));
            }
        }
    }
    json!({
        "finalized": m.finalized,
        "graphs": graphs,
        "main_graph": m.main,
        "graphs_names": graphs_names,
        "nodes_names": nodes_names,
        "graphs_annotations": graphs_annotations,
        "nodes_annotations": nodes_annotations,
    })
}

fn take_snap(l: &LCtx) -> Result<Snap, String> {
    let text = serde_json::to_string(&l.ctx).map_err(|e| format!("to_string failed: {}", e))?;
    let data = wf::inner_json(&text)?;
    let dump = dump_context(&l.ctx, &data)?;
    Ok(Snap { text, data, dump })
}

/// handles handed out earlier are still the objects stored at their positions
fn check_handles(l: &LCtx) -> Result<(), String> {
    let gs = l.ctx.get_graphs();
    if gs.len() != l.graphs.len() {
        return Err(format!("context has {} graphs, {} were created successfully", gs.len(), l.graphs.len()));
    }
    for (i, g) in gs.iter().enumerate() {
        if *g != l.graphs[i] {
            return Err(format!("graph at position {} is not the graph create_graph returned", i));
        }
        let ns = g.get_nodes();
        if ns.len() != l.nodes[i].len() {
            return Err(format!("graph {} has {} nodes, {} were added successfully", i, ns.len(), l.nodes[i].len()));
        }
        for (j, n) in ns.iter().enumerate() {
            if *n != l.nodes[i][j] {
                return Err(format!("node ({},{}) is not the node add_node returned", i, j));
            }
        }
    }
    Ok(())
}

fn size_class(msg: &str) -> Option<&'static str> {
    if msg.contains("MAX_INDIVIDUAL_NODE_SIZE") {
        Some("rollback:size-individual")
    } else if msg.contains("MAX_TOTAL_SIZE_NODES") {
        Some("rollback:size-total")
    } else if msg.contains("invalid size") {
        Some("rollback:size-invalid")
    } else if msg.contains("overflow") || msg.contains("Overflow") {
        Some("rollback:size-total-overflow")
    } else {
        None
    }
}

impl<'a> Runner<'a> {
    fn new(two: bool, skip: &'a BTreeSet<usize>, full: bool) -> Result<Runner<'a>, Outcome> {
        let mut live = vec![];
        let mut model = vec![];
        for _ in 0..(if two { 2 } else { 1 }) {
            let ctx = create_context().map_err(|e| fail("create-context".into(), e.to_string()))?;
            live.push(LCtx { ctx, graphs: vec![], nodes: vec![] });
            model.push(MCtx::default());
        }
        let mut snaps = vec![];
        for l in &live {
            snaps.push(take_snap(l).map_err(|e| fail("snapshot".into(), e))?);
        }
        Ok(Runner {
            skip,
            full,
            live,
            model,
            snaps,
            calls: vec![],
            labels: BTreeSet::new(),
            rolled_back: BTreeSet::new(),
            nontrivial: false,
        })
    }

    fn cidx(&self, c: u8) -> usize {
        (c as usize) % self.live.len()
    }
    fn other(&self, c: usize) -> Option<usize> {
        if self.live.len() > 1 {
            Some(1 - c)
        } else {
            None
        }
    }

    fn sel_graph(&self, c: usize, g: GSel) -> Option<usize> {
        let gs = &self.model[c].graphs;
        if gs.is_empty() {
            return None;
        }
        let want_final = match g.m {
            0..=5 => Some(false),
            6 => Some(true),
            _ => None,
        };
        let cands: Vec<usize> = (0..gs.len())
            .filter(|i| want_final.map(|w| gs[*i].finalized == w).unwrap_or(true))
            .collect();
        if cands.is_empty() {
            Some(pick(g.i, gs.len()))
        } else {
            Some(cands[pick(g.i, cands.len())])
        }
    }

    fn res_node(&self, c: usize, g: usize, r: NRef, pred: Option<&dyn Fn(&Type) -> bool>) -> Option<NId> {
        let same = |pred: Option<&dyn Fn(&Type) -> bool>| -> Option<NId> {
            let ns = &self.model[c].graphs[g].nodes;
            if ns.is_empty() {
                return None;
            }
            if let Some(p) = pred {
                let cands: Vec<usize> = (0..ns.len()).filter(|i| p(&ns[*i].ty)).collect();
                if !cands.is_empty() {
                    return Some((c, g, cands[pick(r.i, cands.len())]));
                }
            }
            Some((c, g, pick(r.i, ns.len())))
        };
        let in_ctx = |cc: usize, excl: Option<usize>| -> Option<NId> {
            let cands: Vec<usize> = (0..self.model[cc].graphs.len())
                .filter(|i| Some(*i) != excl && !self.model[cc].graphs[*i].nodes.is_empty())
                .collect();
            if cands.is_empty() {
                return None;
            }
            let gg = cands[pick(r.i, cands.len())];
            let n = self.model[cc].graphs[gg].nodes.len();
            Some((cc, gg, pick(r.i.rotate_left(7), n)))
        };
        match r.s {
            NS::Same => same(pred),
            NS::OtherGraph => in_ctx(c, Some(g)).or_else(|| same(pred)),
            NS::OtherCtx => self.other(c).and_then(|o| in_ctx(o, None)).or_else(|| same(pred)),
        }
    }

    fn res_graph(&self, c: usize, target: Option<usize>, r: GRef) -> Option<GId> {
        let local = |cc: usize| -> Option<GId> {
            let n = self.model[cc].graphs.len();
            if n == 0 {
                None
            } else {
                Some((cc, pick(r.i, n)))
            }
        };
        match r.s {
            GS::Callable => {
                let gs = &self.model[c].graphs;
                let cands: Vec<usize> = (0..gs.len())
                    .filter(|i| gs[*i].finalized && target.map(|t| *i < t).unwrap_or(true))
                    .collect();
                if cands.is_empty() {
                    local(c)
                } else {
                    Some((c, cands[pick(r.i, cands.len())]))
                }
            }
            GS::Local => local(c),
            GS::OtherCtx => match self.other(c) {
                Some(o) => {
                    let gs = &self.model[o].graphs;
                    let cands: Vec<usize> = (0..gs.len())
                        .filter(|i| gs[*i].finalized && target.map(|t| *i < t).unwrap_or(true))
                        .collect();
                    if cands.is_empty() || r.i % 4 == 0 {
                        local(o).or_else(|| local(c))
                    } else {
                        Some((o, cands[pick(r.i, cands.len())]))
                    }
                }
                None => local(c),
            },
        }
    }

    fn mnode(&self, n: NId) -> &MNode {
        &self.model[n.0].graphs[n.1].nodes[n.2]
    }

    // -----------------------------------------------------------------------------------------
    // predictions from the documented guards

    fn expect(&self, act: &Action) -> (Expect, Option<Type>) {
        let e = |s: &'static str| (Expect::Err(s), None);
        let ok = (Expect::Ok, None);
        match act {
            Action::CreateGraph { c } => {
                if self.model[*c].finalized {
                    e("ctx-finalized:create_graph")
                } else {
                    ok
                }
            }
            Action::AddNode { g, op, deps, gdeps, .. } => {
                let mg = &self.model[g.0].graphs[g.1];
                if mg.finalized {
                    return e("finalized-graph:add_node");
                }
                for d in deps {
                    if d.0 != g.0 {
                        return e("node-dep-foreign-context");
                    }
                    if d.1 != g.1 {
                        return e("node-dep-other-graph");
                    }
                }
                for gd in gdeps {
                    let dg = &self.model[gd.0].graphs[gd.1];
                    if !dg.finalized {
                        return e("gdep-unfinalized");
                    }
                    if gd.1 >= g.1 {
                        return e("gdep-not-older");
                    }
                    if gd.0 != g.0 {
                        return e("gdep-foreign-context");
                    }
                }
                if let Some(a) = op_arity(op) {
                    if deps.len() != a {
                        return e("rollback:arity");
                    }
                }
                let want_g = if matches!(op, Operation::Call | Operation::Iterate) { 1 } else { 0 };
                if gdeps.len() != want_g {
                    return e("rollback:graph-arity");
                }
                let dts: Vec<Type> = deps.iter().map(|d| self.mnode(*d).ty.clone()).collect();
                let callee = gdeps.first().map(|gd| &self.model[gd.0].graphs[gd.1]);
                predict_type(op, &dts, callee)
            }
            Action::NameNode { via, node, name } => {
                let v = via.unwrap_or(node.0);
                if v != node.0 {
                    return e("name-node-foreign-context");
                }
                if self.model[v].finalized {
                    return e("ctx-finalized:set_node_name");
                }
                if self.mnode(*node).name.is_some() {
                    return e("name-node-twice");
                }
                if self.model[node.0].graphs[node.1].nodes.iter().any(|n| n.name.as_deref() == Some(name)) {
                    return e("name-node-duplicate");
                }
                ok
            }
            Action::NameGraph { via, graph, name } => {
                let v = via.unwrap_or(graph.0);
                if v != graph.0 {
                    return e("name-graph-foreign-context");
                }
                if self.model[v].finalized {
                    return e("ctx-finalized:set_graph_name");
                }
                if self.model[graph.0].graphs[graph.1].name.is_some() {
                    return e("name-graph-twice");
                }
                if self.model[graph.0].graphs.iter().any(|g| g.name.as_deref() == Some(name)) {
                    return e("name-graph-duplicate");
                }
                ok
            }
            Action::AnnotNode { node, .. } => {
                if self.model[node.0].finalized {
                    e("ctx-finalized:add_node_annotation")
                } else {
                    ok
                }
            }
            Action::AnnotGraph { graph, .. } => {
                if self.model[graph.0].finalized {
                    e("ctx-finalized:add_graph_annotation")
                } else {
                    ok
                }
            }
            Action::SetOutput { graph, node, .. } => {
                let mg = &self.model[graph.0].graphs[graph.1];
                if mg.finalized {
                    return e("finalized-graph:set_output_node");
                }
                if mg.output.is_some() {
                    return e("output-twice");
                }
                if (node.0, node.1) != *graph {
                    return e("output-foreign-node");
                }
                ok
            }
            Action::Finalize { graph } => {
                let mg = &self.model[graph.0].graphs[graph.1];
                if mg.finalized {
                    // idempotent in the code; the property only demands that nothing changes
                    (Expect::Either, None)
                } else if mg.output.is_none() {
                    e("finalize-without-output")
                } else {
                    ok
                }
            }
            Action::SetMain { via, graph, .. } => {
                if self.model[*via].finalized {
                    return e("ctx-finalized:set_main_graph");
                }
                if self.model[*via].main.is_some() {
                    return e("main-twice");
                }
                if graph.0 != *via {
                    return e("main-foreign-context");
                }
                if !self.model[graph.0].graphs[graph.1].finalized {
                    return e("main-unfinalized");
                }
                ok
            }
            Action::FinalizeCtx { c } => {
                let m = &self.model[*c];
                if m.finalized {
                    (Expect::Either, None)
                } else if m.graphs.iter().any(|g| !g.finalized) {
                    e("ctx-finalize-unfinalized-graph")
                } else if m.main.is_none() {
                    e("ctx-finalize-without-main")
                } else {
                    ok
                }
            }
            Action::Query { .. } => ok,
        }
    }

    // -----------------------------------------------------------------------------------------
    // performing a call on the live objects

    fn node_h(&self, n: NId) -> Node {
        self.live[n.0].nodes[n.1][n.2].clone()
    }
    fn graph_h(&self, g: GId) -> Graph {
        self.live[g.0].graphs[g.1].clone()
    }

    fn perform(&self, act: &Action) -> Result<Ret, String> {
        let es = |e: ciphercore_base::errors::Error| e.to_string();
        match act {
            Action::CreateGraph { c } => self.live[*c].ctx.create_graph().map(Ret::Graph).map_err(es),
            Action::AddNode { g, op, deps, gdeps, wrapper } => {
                let gh = self.graph_h(*g);
                let dn: Vec<Node> = deps.iter().map(|d| self.node_h(*d)).collect();
                let dg: Vec<Graph> = gdeps.iter().map(|d| self.graph_h(*d)).collect();
                let r = if *wrapper {
                    match (op, dn.len(), dg.len()) {
                        (Operation::Input(t), 0, 0) => gh.input(t.clone()),
                        (Operation::Add, 2, 0) => gh.add(dn[0].clone(), dn[1].clone()),
                        (Operation::CreateTuple, _, 0) => gh.create_tuple(dn),
                        (Operation::Call, _, 1) => gh.call(dg[0].clone(), dn),
                        (Operation::Iterate, 2, 1) => gh.iterate(dg[0].clone(), dn[0].clone(), dn[1].clone()),
                        (Operation::NOP, 1, 0) => gh.add_node(dn, dg, op.clone()),
                        _ => gh.add_node(dn, dg, op.clone()),
                    }
                } else {
                    gh.add_node(dn, dg, op.clone())
                };
                r.map(Ret::Node).map_err(es)
            }
            Action::NameNode { via, node, name } => {
                let n = self.node_h(*node);
                match via {
                    None => n.set_name(name).map(|_| Ret::Unit).map_err(es),
                    Some(v) => self.live[*v].ctx.set_node_name(n, name).map(|_| Ret::Unit).map_err(es),
                }
            }
            Action::NameGraph { via, graph, name } => {
                let g = self.graph_h(*graph);
                match via {
                    None => g.set_name(name).map(|_| Ret::Unit).map_err(es),
                    Some(v) => self.live[*v].ctx.set_graph_name(g, name).map(|_| Ret::Unit).map_err(es),
                }
            }
            Action::AnnotNode { node, a } => self.node_h(*node).add_annotation(a.clone()).map(|_| Ret::Unit).map_err(es),
            Action::AnnotGraph { graph, a } => self.graph_h(*graph).add_annotation(a.clone()).map(|_| Ret::Unit).map_err(es),
            Action::SetOutput { graph, node, via_node } => {
                let n = self.node_h(*node);
                if *via_node {
                    n.set_as_output().map(|_| Ret::Unit).map_err(es)
                } else {
                    self.graph_h(*graph).set_output_node(n).map(|_| Ret::Unit).map_err(es)
                }
            }
            Action::Finalize { graph } => self.graph_h(*graph).finalize().map(|_| Ret::Unit).map_err(es),
            Action::SetMain { via, graph, via_graph } => {
                let g = self.graph_h(*graph);
                if *via_graph {
                    g.set_as_main().map(|_| Ret::Unit).map_err(es)
                } else {
                    self.live[*via].ctx.set_main_graph(g).map(|_| Ret::Unit).map_err(es)
                }
            }
            Action::FinalizeCtx { c } => self.live[*c].ctx.finalize().map(|_| Ret::Unit).map_err(es),
            Action::Query { c, g, i } => self.query(*c, *g, *i).map(|_| Ret::Unit),
        }
    }

    /// read-only calls whose result the model knows; Err(text) = a getter misbehaved
    fn query(&self, c: usize, g: Option<GId>, i: u16) -> Result<(), String> {
        let ctx = &self.live[c].ctx;
        let ng = self.model[c].graphs.len() as u64;
        if ctx.get_graph_by_id(ng).is_ok() || ctx.get_graph_by_id(ng + i as u64).is_ok() {
            return Err("QUERY get_graph_by_id accepted an id out of range".into());
        }
        if ctx.get_node_by_global_id((ng, 0)).is_ok() {
            return Err("QUERY get_node_by_global_id accepted a graph id out of range".into());
        }
        if ctx.retrieve_graph("no such graph").is_ok() {
            return Err("QUERY retrieve_graph found an unknown name".into());
        }
        if self.model[c].main.is_none() && ctx.get_main_graph().is_ok() {
            return Err("QUERY get_main_graph returned a graph although none was set".into());
        }
        if let Some(g) = g {
            let gh = self.graph_h(g);
            let nn = self.model[g.0].graphs[g.1].nodes.len() as u64;
            if gh.get_node_by_id(nn).is_ok() || gh.get_node_by_id(nn + i as u64).is_ok() {
                return Err("QUERY get_node_by_id accepted an id out of range".into());
            }
            if gh.retrieve_node("no such node").is_ok() {
                return Err("QUERY retrieve_node found an unknown name".into());
            }
            if self.model[g.0].graphs[g.1].output.is_none() && gh.get_output_node().is_ok() {
                return Err("QUERY get_output_node returned a node although none was set".into());
            }
            if let Some(o) = self.other(g.0) {
                let octx = &self.live[o].ctx;
                if octx.get_graph_name(gh.clone()).is_ok() {
                    return Err("QUERY get_graph_name accepted a graph of another context".into());
                }
                if octx.retrieve_node(gh.clone(), "a").is_ok() {
                    return Err("QUERY retrieve_node accepted a graph of another context".into());
                }
                if nn > 0 {
                    let nh = self.node_h((g.0, g.1, pick(i, nn as usize)));
                    if octx.get_node_name(nh).is_ok() {
                        return Err("QUERY get_node_name accepted a node of another context".into());
                    }
                }
            }
        }
        Ok(())
    }

    // -----------------------------------------------------------------------------------------
    // one checked call

    fn step(&mut self, act: Action) -> Result<(), Outcome> {
        let idx = self.calls.len();
        let kind = act.kind();
        if self.skip.contains(&idx) {
            self.calls.push(CallRec { skipped: true, ok: false, msg: String::new(), class: String::new(), kind });
            return Ok(());
        }
        let (exp, pred_ty) = self.expect(&act);
        let opname = match &act {
            Action::AddNode { op, .. } => op_name(op),
            _ => String::new(),
        };
        let describe = |r: &Runner| format!("call #{} {:?} [build:{}] model: {} graphs", idx, act, if SMALL { "small" } else { "normal" }, r.model.iter().map(|m| m.graphs.len().to_string()).collect::<Vec<_>>().join("+"));
        // cost guard bookkeeping: astronomically large types make size errors possible anywhere
        if let Action::AddNode { g, op, deps, .. } = &act {
            let huge_t = match op {
                Operation::Input(t) | Operation::Zeros(t) | Operation::Ones(t) | Operation::Random(t)
                | Operation::Constant(t, _) | Operation::Reshape(t) | Operation::CreateVector(t)
                | Operation::PRF(_, t) => is_huge(t),
                Operation::Repeat(n) => *n > 1000,
                _ => false,
            };
            if huge_t || deps.iter().any(|d| is_huge(&self.mnode(*d).ty)) {
                self.model[g.0].huge_seen = true;
            }
        }
        let res = match catch(|| self.perform(&act)) {
            Ok(r) => r,
            Err(p) => {
                return Err(fail(
                    format!("panic:{}:{}", kind, opname),
                    format!("panic in {}: {} — {}", kind, p, short(&describe(self))),
                ))
            }
        };
        let mut rec = CallRec { skipped: false, ok: res.is_ok(), msg: String::new(), class: String::new(), kind };
        let mut err_info: Option<(String, String)> = None;
        match res {
            Err(msg) => {
                if msg.starts_with("QUERY") {
                    return Err(fail("query-misbehaves".into(), format!("{} — {}", msg, short(&describe(self)))));
                }
                let is_add = matches!(act, Action::AddNode { .. });
                let class: String = match &exp {
                    Expect::Err(why) => {
                        if why.starts_with("rollback:") {
                            why.to_string()
                        } else {
                            format!("guard:{}", why)
                        }
                    }
                    _ => {
                        if is_add {
                            size_class(&msg).unwrap_or("rollback:type").to_string()
                        } else {
                            format!("rejected:{}", kind)
                        }
                    }
                };
                // an invalid type is rejected by inference after the node was pushed: also a rollback
                let class = if class == "guard:invalid-type" { "rollback:invalid-type".to_string() } else { class };
                let class = if is_add && class.starts_with("guard:") && !matches!(&exp, Expect::Err(w) if w.starts_with("finalized-graph") || w.starts_with("node-dep") || w.starts_with("gdep")) {
                    // type-level rejections predicted by the model happen after the push as well
                    class.replacen("guard:", "rollback:type:", 1)
                } else {
                    class
                };
                if exp == Expect::Ok {
                    let tolerated = is_add
                        && size_class(&msg).is_some()
                        && (SMALL || act.target_graph().map(|g| self.model[g.0].huge_seen).unwrap_or(false));
                    if !tolerated {
                        return Err(fail(
                            format!("unexpected-err:{}:{}", kind, opname),
                            format!("documented-valid call failed: {} — {}", msg, short(&describe(self))),
                        ));
                    }
                }
                if is_add && class.starts_with("rollback:") {
                    if let Some(g) = act.target_graph() {
                        self.rolled_back.insert(g);
                    }
                }
                self.labels.insert(format!("fail:{}", class));
                rec.msg = msg;
                rec.class = class.clone();
                err_info = Some((class.clone(), rec.msg.clone()));
            }
            Ok(ret) => {
                if let Expect::Err(why) = exp {
                    return Err(fail(
                        format!("guard-missing:{}", why),
                        format!("call that must be rejected ({}) returned Ok — {}", why, short(&describe(self))),
                    ));
                }
                if let Some(g) = act.target_graph() {
                    if self.rolled_back.contains(&g) {
                        self.nontrivial = true;
                    }
                }
                self.labels.insert(format!("ok:{}", kind));
                self.apply(&act, ret, pred_ty, &opname)?;
            }
        }
        self.calls.push(rec);
        if self.full {
            self.check_all(kind, &opname, &act, err_info)?;
        }
        Ok(())
    }

    fn apply(&mut self, act: &Action, ret: Ret, pred_ty: Option<Type>, opname: &str) -> Result<(), Outcome> {
        match act {
            Action::CreateGraph { c } => {
                if let Ret::Graph(g) = ret {
                    self.live[*c].graphs.push(g);
                    self.live[*c].nodes.push(vec![]);
                    self.model[*c].graphs.push(MGraph::default());
                }
            }
            Action::AddNode { g, op, deps, gdeps, .. } => {
                if let Ret::Node(n) = ret {
                    let got = match catch(|| n.get_type()) {
                        Ok(Ok(t)) => t,
                        Ok(Err(e)) => {
                            return Err(fail(
                                format!("node-without-type:{}", opname),
                                format!("add_node returned Ok but get_type fails: {} ({:?})", e, act),
                            ))
                        }
                        Err(p) => return Err(fail(format!("panic:get_type:{}", opname), p)),
                    };
                    if let Some(p) = &pred_ty {
                        if *p != got {
                            return Err(fail(
                                format!("type-mismatch:{}", opname),
                                format!("new node has type {} but the documented result type is {} ({:?})", got, p, short(&format!("{:?}", act))),
                            ));
                        }
                    }
                    if is_huge(&got) {
                        self.model[g.0].huge_seen = true;
                    }
                    self.labels.insert(format!("node:{}", opname));
                    self.live[g.0].nodes[g.1].push(n);
                    self.model[g.0].graphs[g.1].nodes.push(MNode {
                        op: op.clone(),
                        deps: deps.iter().map(|d| d.2).collect(),
                        gdeps: gdeps.iter().map(|d| d.1).collect(),
                        ty: got,
                        name: None,
                        annots: vec![],
                    });
                }
            }
            Action::NameNode { node, name, .. } => {
                self.model[node.0].graphs[node.1].nodes[node.2].name = Some(name.clone());
            }
            Action::NameGraph { graph, name, .. } => {
                self.model[graph.0].graphs[graph.1].name = Some(name.clone());
            }
            Action::AnnotNode { node, a } => self.model[node.0].graphs[node.1].nodes[node.2].annots.push(a.clone()),
            Action::AnnotGraph { graph, a } => self.model[graph.0].graphs[graph.1].annots.push(a.clone()),
            Action::SetOutput { graph, node, .. } => self.model[graph.0].graphs[graph.1].output = Some(node.2),
            Action::Finalize { graph } => self.model[graph.0].graphs[graph.1].finalized = true,
            Action::SetMain { via, graph, .. } => self.model[*via].main = Some(graph.1),
            Action::FinalizeCtx { c } => self.model[*c].finalized = true,
            Action::Query { .. } => {}
        }
        Ok(())
    }

    fn check_all(&mut self, kind: &str, opname: &str, act: &Action, err_info: Option<(String, String)>) -> Result<(), Outcome> {
        for ci in 0..self.live.len() {
            let snap = match catch(|| take_snap(&self.live[ci])) {
                Ok(Ok(s)) => s,
                Ok(Err(e)) => return Err(fail(format!("snapshot:{}", kind), format!("{} after {:?}", e, act))),
                Err(p) => return Err(fail(format!("panic:snapshot:{}:{}", kind, opname), format!("{} after {:?}", p, act))),
            };
            if let Some((class, msg)) = &err_info {
                // (3) a call that returned Err leaves the context observably unchanged
                if snap.text != self.snaps[ci].text {
                    let d = jdiff(&self.snaps[ci].data, &snap.data, "ctx").unwrap_or_default();
                    return Err(fail(
                        format!("err-mutates-serialized:{}:{}", kind, class),
                        format!("call returned Err({}) but the serialized context {} changed (before vs after): {} — {}", short(msg), ci, d, short(&format!("{:?}", act))),
                    ));
                }
                if snap.dump != self.snaps[ci].dump {
                    let d = jdiff(&self.snaps[ci].dump, &snap.dump, "ctx").unwrap_or_default();
                    return Err(fail(
                        format!("err-mutates-getters:{}:{}", kind, class),
                        format!("call returned Err({}) but getters of context {} changed (before vs after): {} — {}", short(msg), ci, d, short(&format!("{:?}", act))),
                    ));
                }
            }
            match catch(|| wf::check_context_with(&self.live[ci].ctx, &snap.data)) {
                Ok(Ok(())) => {}
                Ok(Err(e)) => {
                    let what: String = e.split(':').next().unwrap_or("").chars().filter(|ch| !ch.is_ascii_digit()).take(40).collect();
                    return Err(fail(
                        format!("wf:{}:{}", kind, what.trim()),
                        format!("context {} ill-formed after {}: {} — {:?}", ci, kind, e, short(&format!("{:?}", act))),
                    ));
                }
                Err(p) => return Err(fail(format!("panic:wf:{}", kind), p)),
            }
            if let Err(e) = check_handles(&self.live[ci]) {
                return Err(fail(format!("handles:{}", kind), format!("{} after {:?}", e, short(&format!("{:?}", act)))));
            }
            let want = render_dump(&self.model[ci]);
            if let Some(d) = jdiff(&want, &snap.dump, "ctx") {
                return Err(fail(
                    format!("model-mismatch:{}:{}", kind, opname),
                    format!("getters of context {} differ from the model (model vs code) at {} after {:?}", ci, d, short(&format!("{:?}", act))),
                ));
            }
            let want = render_serialized(&self.model[ci]);
            if let Some(d) = jdiff(&want, &snap.data, "ctx") {
                return Err(fail(
                    format!("serialized-mismatch:{}:{}", kind, opname),
                    format!("serialized context {} differs from the model (model vs code) at {} after {:?}", ci, d, short(&format!("{:?}", act))),
                ));
            }
            self.snaps[ci] = snap;
        }
        Ok(())
    }

    // -----------------------------------------------------------------------------------------
    // ops -> calls

    fn run_op(&mut self, op: &Op) -> Result<(), Outcome> {
        match op {
            Op::CreateGraph { c } => {
                let c = self.cidx(*c);
                if self.model[c].graphs.len() >= 5 && !self.model[c].finalized {
                    return Ok(()); // bound: up to 5 graphs per context
                }
                self.step(Action::CreateGraph { c })
            }
            Op::AddNode { c, g, k, deps, gd, p, t } => {
                let c = self.cidx(*c);
                let gi = match self.sel_graph(c, *g) {
                    Some(x) => x,
                    None => return Ok(()),
                };
                if self.model[c].graphs[gi].nodes.len() >= 60 {
                    return Ok(());
                }
                if matches!(k, NK::Call | NK::Iterate) && p[3] % 4 == 3 && !self.model[c].graphs[gi].finalized {
                    // construction over rejection: create fitting arguments first (checked calls)
                    let r = gd.first().copied().unwrap_or(GRef { s: GS::Callable, i: p[1] });
                    if let Some(cg) = self.res_graph(c, Some(gi), GRef { s: GS::Callable, i: r.i }) {
                        let callee = &self.model[cg.0].graphs[cg.1];
                        let ins = callee.input_types();
                        let usable = callee.finalized && cg.0 == c && cg.1 < gi && ins.iter().all(|t| !is_huge(t)) && ins.len() <= 4;
                        if usable && (*k == NK::Call || ins.len() == 2) {
                            let g = (c, gi);
                            let mut args: Vec<NId> = vec![];
                            let input = |t: &Type| Action::AddNode { g, op: Operation::Input(t.clone()), deps: vec![], gdeps: vec![], wrapper: false };
                            if *k == NK::Call {
                                for t in &ins {
                                    let n0 = self.model[c].graphs[gi].nodes.len();
                                    self.step(input(t))?;
                                    if self.model[c].graphs[gi].nodes.len() == n0 + 1 {
                                        args.push((c, gi, n0));
                                    }
                                }
                            } else {
                                let n0 = self.model[c].graphs[gi].nodes.len();
                                self.step(input(&ins[0]))?;
                                if self.model[c].graphs[gi].nodes.len() == n0 + 1 {
                                    args.push((c, gi, n0));
                                }
                                let mut elems = vec![];
                                for _ in 0..(p[0] % 3) {
                                    let n1 = self.model[c].graphs[gi].nodes.len();
                                    self.step(input(&ins[1]))?;
                                    if self.model[c].graphs[gi].nodes.len() == n1 + 1 {
                                        elems.push((c, gi, n1));
                                    }
                                }
                                let n2 = self.model[c].graphs[gi].nodes.len();
                                self.step(Action::AddNode { g, op: Operation::CreateVector(ins[1].clone()), deps: elems, gdeps: vec![], wrapper: false })?;
                                if self.model[c].graphs[gi].nodes.len() == n2 + 1 {
                                    args.push((c, gi, n2));
                                }
                            }
                            let op = if *k == NK::Call { Operation::Call } else { Operation::Iterate };
                            return self.step(Action::AddNode { g, op, deps: args, gdeps: vec![cg], wrapper: p[2] % 2 == 0 });
                        }
                    }
                }
                let act = self.resolve_add(c, gi, *k, deps, gd, p, t);
                self.step(act)
            }
            Op::Inputs { c, g, t, n } => {
                let c = self.cidx(*c);
                let gi = match self.sel_graph(c, *g) {
                    Some(x) => x,
                    None => return Ok(()),
                };
                for j in 0..*n {
                    if self.model[c].graphs[gi].nodes.len() >= 60 {
                        break;
                    }
                    self.step(Action::AddNode {
                        g: (c, gi),
                        op: Operation::Input(t.clone()),
                        deps: vec![],
                        gdeps: vec![],
                        wrapper: j % 2 == 0,
                    })?;
                }
                Ok(())
            }
            Op::NameNode { c, g, n, name, via } => {
                let c = self.cidx(*c);
                let gi = match self.sel_graph(c, GSel { m: 7, i: g.i }) {
                    Some(x) => x,
                    None => return Ok(()),
                };
                let node = match self.res_node(c, gi, *n, None) {
                    Some(x) => x,
                    None => return Ok(()),
                };
                let via = match via % 8 {
                    0..=3 => None,
                    4..=6 => Some(node.0),
                    _ => Some(self.other(node.0).unwrap_or(node.0)),
                };
                self.step(Action::NameNode { via, node, name: NAMES[*name as usize % NAMES.len()].to_string() })
            }
            Op::NameGraph { c, g, name, via } => {
                let c = self.cidx(*c);
                let gi = match self.sel_graph(c, GSel { m: 7, i: g.i }) {
                    Some(x) => x,
                    None => return Ok(()),
                };
                let via = match via % 8 {
                    0..=3 => None,
                    4..=6 => Some(c),
                    _ => Some(self.other(c).unwrap_or(c)),
                };
                self.step(Action::NameGraph { via, graph: (c, gi), name: NAMES[*name as usize % NAMES.len()].to_string() })
            }
            Op::AnnotNode { c, g, n, a } => {
                let c = self.cidx(*c);
                let gi = match self.sel_graph(c, GSel { m: 7, i: g.i }) {
                    Some(x) => x,
                    None => return Ok(()),
                };
                match self.res_node(c, gi, *n, None) {
                    Some(node) => self.step(Action::AnnotNode { node, a: annot_from(*a) }),
                    None => Ok(()),
                }
            }
            Op::AnnotGraph { c, g, a } => {
                let c = self.cidx(*c);
                match self.sel_graph(c, GSel { m: 7, i: g.i }) {
                    Some(gi) => self.step(Action::AnnotGraph { graph: (c, gi), a: gannot_from(*a) }),
                    None => Ok(()),
                }
            }
            Op::SetOutput { c, g, n, via_node } => {
                let c = self.cidx(*c);
                let gi = match self.sel_graph(c, *g) {
                    Some(x) => x,
                    None => return Ok(()),
                };
                let node = match self.res_node(c, gi, *n, None) {
                    Some(x) => x,
                    None => return Ok(()),
                };
                // via the node wrapper the graph is the node's own graph
                let graph = if *via_node { (node.0, node.1) } else { (c, gi) };
                self.step(Action::SetOutput { graph, node, via_node: *via_node })
            }
            Op::Finalize { c, g } => {
                let c = self.cidx(*c);
                match self.sel_graph(c, *g) {
                    Some(gi) => {
                        let (out, n, fin) = {
                            let mg = &self.model[c].graphs[gi];
                            (mg.output, mg.nodes.len(), mg.finalized)
                        };
                        if out.is_none() && n > 0 && !fin && g.i % 3 != 0 {
                            let node = (c, gi, pick(g.i.rotate_left(5), n));
                            self.step(Action::SetOutput { graph: (c, gi), node, via_node: g.i % 2 == 0 })?;
                        }
                        self.step(Action::Finalize { graph: (c, gi) })
                    }
                    None => Ok(()),
                }
            }
            Op::SetMain { c, g, via_graph } => {
                let c = self.cidx(*c);
                let graph = match self.res_graph(c, None, *g) {
                    Some(x) => x,
                    None => return Ok(()),
                };
                let via = if *via_graph { graph.0 } else { c };
                self.step(Action::SetMain { via, graph, via_graph: *via_graph })
            }
            Op::FinalizeCtx { c } => {
                let c = self.cidx(*c);
                self.step(Action::FinalizeCtx { c })
            }
            Op::Body { c, t1, t2 } => {
                let c = self.cidx(*c);
                if self.model[c].graphs.len() >= 5 || self.model[c].finalized {
                    return Ok(());
                }
                let before = self.model[c].graphs.len();
                self.step(Action::CreateGraph { c })?;
                if self.model[c].graphs.len() != before + 1 {
                    return Ok(());
                }
                let gi = before;
                for t in [t1, t2] {
                    self.step(Action::AddNode { g: (c, gi), op: Operation::Input(t.clone()), deps: vec![], gdeps: vec![], wrapper: true })?;
                }
                if self.model[c].graphs[gi].nodes.len() != 2 {
                    return Ok(());
                }
                self.step(Action::AddNode { g: (c, gi), op: Operation::CreateTuple, deps: vec![(c, gi, 0), (c, gi, 1)], gdeps: vec![], wrapper: true })?;
                if self.model[c].graphs[gi].nodes.len() != 3 {
                    return Ok(());
                }
                self.step(Action::SetOutput { graph: (c, gi), node: (c, gi, 2), via_node: true })?;
                self.step(Action::Finalize { graph: (c, gi) })
            }
            Op::Seal { c } => {
                let c = self.cidx(*c);
                for gi in 0..self.model[c].graphs.len() {
                    let (fin, out, n) = {
                        let g = &self.model[c].graphs[gi];
                        (g.finalized, g.output, g.nodes.len())
                    };
                    if fin {
                        continue;
                    }
                    if out.is_none() && n > 0 {
                        self.step(Action::SetOutput { graph: (c, gi), node: (c, gi, n - 1), via_node: gi % 2 == 0 })?;
                    }
                    self.step(Action::Finalize { graph: (c, gi) })?;
                }
                let ng = self.model[c].graphs.len();
                if ng > 0 {
                    self.step(Action::SetMain { via: c, graph: (c, ng - 1), via_graph: true })?;
                }
                self.step(Action::FinalizeCtx { c })
            }
            Op::Query { c, g, i } => {
                let c = self.cidx(*c);
                let g = self.sel_graph(c, GSel { m: 7, i: g.i }).map(|gi| (c, gi));
                self.step(Action::Query { c, g, i: *i })
            }
        }
    }

    fn resolve_add(&self, c: usize, gi: usize, k: NK, deps: &[NRef], gd: &[GRef], p: &[u16; 4], t: &Type) -> Action {
        let mut k = k;
        let fit = p[3] % 4 != 0;
        let twist_arity = p[3] % 16 == 1;
        let twist_g = p[3] % 32 == 2;
        let is_call = matches!(k, NK::Call | NK::Iterate);
        // graph dependencies
        let mut grefs: Vec<GRef> = gd.to_vec();
        if is_call && !twist_g {
            if grefs.is_empty() {
                grefs.push(GRef { s: GS::Callable, i: p[1] });
            }
            grefs.truncate(1);
        } else if !is_call && !twist_g {
            grefs.clear();
        }
        let gdeps: Vec<GId> = grefs.iter().filter_map(|r| self.res_graph(c, Some(gi), *r)).collect();
        let callee_ins: Option<Vec<Type>> = if is_call {
            gdeps.first().map(|g| self.model[g.0].graphs[g.1].input_types())
        } else {
            None
        };
        // number of node dependencies
        let want: usize = if twist_arity {
            deps.len()
        } else if k == NK::Call {
            match (&callee_ins, fit) {
                (Some(ins), true) => ins.len(),
                _ => deps.len(),
            }
        } else {
            fixed_arity(k).unwrap_or(deps.len())
        };
        let mut resolved: Vec<NId> = vec![];
        let mut dts: Vec<Type> = vec![];
        for j in 0..want {
            let r = if deps.is_empty() {
                NRef { s: NS::Same, i: p[j % 4].rotate_left(j as u32) }
            } else if j < deps.len() {
                deps[j]
            } else {
                NRef { s: deps[j % deps.len()].s, i: deps[j % deps.len()].i ^ p[j % 4] }
            };
            let first = dts.first().cloned();
            let cin = callee_ins.as_ref().and_then(|ins| ins.get(j).cloned());
            let pred: Option<Box<dyn Fn(&Type) -> bool>> = if !fit {
                None
            } else {
                match (k, j) {
                    (NK::Add | NK::Sub | NK::Mul, 0) => Some(Box::new(|t: &Type| is_leaf_t(t) && !is_huge(t))),
                    (NK::Add | NK::Sub | NK::Mul | NK::MkVector, _) if first.is_some() => {
                        let f = first.clone().unwrap();
                        Some(Box::new(move |t: &Type| *t == f))
                    }
                    (NK::TupleGet, 0) => Some(Box::new(|t: &Type| matches!(t, Type::Tuple(_)))),
                    (NK::NamedGet | NK::Sort, 0) => Some(Box::new(|t: &Type| matches!(t, Type::NamedTuple(_)))),
                    (NK::A2V | NK::Sum | NK::CumSum | NK::Permute | NK::Get | NK::Slice | NK::Matmul | NK::Gemm | NK::Gather | NK::InvPerm, 0) => {
                        Some(Box::new(|t: &Type| matches!(t, Type::Array(_, _)) && !is_huge(t)))
                    }
                    (NK::V2A | NK::VectorGet, 0) => Some(Box::new(|t: &Type| matches!(t, Type::Vector(_, _)))),
                    (NK::A2B | NK::Trunc | NK::Reshape | NK::Dot | NK::MixedMul, 0) => {
                        Some(Box::new(|t: &Type| is_leaf_t(t) && st_of(t) != Some(BIT) && !is_huge(t)))
                    }
                    (NK::B2A | NK::CustomNot | NK::CustomOr | NK::Prf | NK::PermPrf, _) => {
                        Some(Box::new(|t: &Type| st_of(t) == Some(BIT) && !is_huge(t)))
                    }
                    (NK::Call, _) | (NK::Iterate, 0) if cin.is_some() => {
                        let f = cin.clone().unwrap();
                        Some(Box::new(move |t: &Type| *t == f))
                    }
                    (NK::Iterate, 1) if cin.is_some() => {
                        let f = cin.clone().unwrap();
                        Some(Box::new(move |t: &Type| matches!(t, Type::Vector(_, e) if **e == f)))
                    }
                    _ => None,
                }
            };
            if let Some(n) = self.res_node(c, gi, r, pred.as_deref()) {
                dts.push(self.mnode(n).ty.clone());
                resolved.push(n);
            }
        }
        // cost guard: no shape-walking operation on operands of astronomical size
        if dts.iter().any(is_huge) && !safe_for_huge(k) {
            k = NK::Nop;
            resolved.truncate(1);
            dts.truncate(1);
        }
        let op = build_operation(k, p, t, &dts);
        Action::AddNode { g: (c, gi), op, deps: resolved, gdeps, wrapper: p[2] % 3 == 0 }
    }
}

fn execute(h: &History, skip: &BTreeSet<usize>, full: bool) -> Result<Trace, Outcome> {
    let mut r = Runner::new(h.two_ctx, skip, full)?;
    for op in &h.ops {
        r.run_op(op)?;
    }
    let mut finals = vec![];
    for l in &r.live {
        let s = match catch(|| take_snap(l)) {
            Ok(Ok(s)) => s,
            Ok(Err(e)) => return Err(fail("snapshot:final".into(), e)),
            Err(p) => return Err(fail("panic:snapshot:final".into(), p)),
        };
        if !full {
            if let Err(e) = wf::check_context_with(&l.ctx, &s.data) {
                return Err(fail("wf:rerun-final".into(), e));
            }
        }
        finals.push(s);
    }
    let n_graphs = r.model.iter().map(|m| m.graphs.len()).sum();
    Ok(Trace { calls: r.calls, finals, labels: r.labels, nontrivial: r.nontrivial, n_graphs })
}

fn compare_runs(base: &Trace, other: &Trace, removed: &BTreeSet<usize>, what: &str) -> Result<(), Outcome> {
    let removed_classes: Vec<String> = removed.iter().map(|i| base.calls[*i].class.clone()).collect::<BTreeSet<_>>().into_iter().collect();
    let sig_class = if removed.len() == 1 { removed_classes[0].clone() } else { "all".to_string() };
    let n = base.calls.len().min(other.calls.len());
    for i in 0..n {
        if removed.contains(&i) {
            continue;
        }
        let (a, b) = (&base.calls[i], &other.calls[i]);
        if a.ok != b.ok || a.kind != b.kind || a.msg != b.msg {
            return Err(fail(
                format!("removal-changes-outcome:{}:{}", sig_class, a.kind),
                format!(
                    "removing failed call(s) {:?} ({}; classes {:?}) from the history changes call #{} {}: with the failed call(s) present -> {}, without -> {}",
                    removed, what, removed_classes, i, a.kind,
                    if a.ok { "Ok".to_string() } else { format!("Err({})", short(&a.msg)) },
                    if b.ok { "Ok".to_string() } else { format!("Err({})", short(&b.msg)) },
                ),
            ));
        }
    }
    if base.calls.len() != other.calls.len() {
        return Err(fail(
            format!("removal-changes-outcome:{}:length", sig_class),
            format!("removing failed call(s) {:?} changes the number of calls {} -> {}", removed, base.calls.len(), other.calls.len()),
        ));
    }
    for (ci, (a, b)) in base.finals.iter().zip(other.finals.iter()).enumerate() {
        if let Some(d) = jdiff(&a.dump, &b.dump, "ctx") {
            return Err(fail(
                format!("removal-changes-state:{}", sig_class),
                format!("removing failed call(s) {:?} (classes {:?}) changes the final getters of context {} at {} (with vs without)", removed, removed_classes, ci, d),
            ));
        }
        if let Some(d) = jdiff(&a.data, &b.data, "ctx") {
            return Err(fail(
                format!("removal-changes-state:{}", sig_class),
                format!("removing failed call(s) {:?} (classes {:?}) changes the final serialized context {} at {}", removed, removed_classes, ci, d),
            ));
        }
    }
    Ok(())
}

pub fn oracle(h: &History) -> Outcome {
    let empty = BTreeSet::new();
    let base = match execute(h, &empty, true) {
        Ok(t) => t,
        Err(o) => return o,
    };
    let failed: Vec<usize> = (0..base.calls.len()).filter(|i| !base.calls[*i].ok && !base.calls[*i].skipped).collect();
    let mut reruns = 0;
    if !failed.is_empty() {
        let mut sets: Vec<(BTreeSet<usize>, &str)> = vec![(failed.iter().copied().collect(), "all failed calls")];
        // the first rollback of every class
        let mut seen: BTreeMap<String, usize> = BTreeMap::new();
        for i in &failed {
            let c = &base.calls[*i].class;
            if c.starts_with("rollback:") && !seen.contains_key(c) {
                seen.insert(c.clone(), *i);
            }
        }
        for (_, i) in seen.iter().take(6) {
            sets.push(([*i].into_iter().collect(), "first rollback of its class"));
        }
        let j = failed[pick(h.drop_sel, failed.len())];
        if !seen.values().any(|x| *x == j) {
            sets.push(([j].into_iter().collect(), "picked by the case"));
        }
        for (set, what) in &sets {
            let t = match execute(h, set, false) {
                Ok(t) => t,
                Err(mut o) => {
                    o.msg = format!("[in the history without failed call(s) {:?}] {}", set, o.msg);
                    return o;
                }
            };
            reruns += 1;
            if let Err(o) = compare_runs(&base, &t, set, what) {
                return o;
            }
        }
    }
    let nt = base.nontrivial && base.n_graphs >= 2;
    let ncalls = base.calls.len();
    let mut o = Outcome::pass(nt)
        .label(if SMALL { "build:small" } else { "build:normal" })
        .label(if h.two_ctx { "contexts:2" } else { "contexts:1" })
        .label(format!("graphs:{}", base.n_graphs.min(10)))
        .label(format!("calls:{}", match ncalls { 0..=9 => "0-9", 10..=29 => "10-29", 30..=59 => "30-59", 60..=99 => "60-99", _ => "100+" }))
        .label(format!("reruns:{}", reruns));
    let ctx_final = base.finals.iter().any(|s| s.dump["finalized"] == json!(true));
    if ctx_final {
        o = o.label("context-finalized");
    }
    o.labels(base.labels.into_iter())
}

// ---------------------------------------------------------------------------------------------
// pinned histories: one deterministic walk through every rollback path and guard

fn gs(i: u16) -> GSel {
    GSel { m: 7, i }
}
fn same(i: u16) -> NRef {
    NRef { s: NS::Same, i }
}

fn pinned_history() -> History {
    let i32t = scalar_type(INT32);
    let big = if SMALL { array_type(vec![20], INT64) } else { array_type(vec![1 << 32, 1 << 31], INT64) };
    let near = if SMALL { array_type(vec![14], INT64) } else { array_type(vec![1 << 57], INT64) };
    let add = |k: NK, deps: Vec<NRef>, p3: u16, t: Type| Op::AddNode { c: 0, g: gs(0), k, deps, gd: vec![], p: [0, 0, 1, p3], t };
    let mut ops = vec![
        Op::CreateGraph { c: 0 },
        Op::CreateGraph { c: 1 },
        add(NK::Input, vec![], 3, i32t.clone()),
        Op::NameNode { c: 0, g: gs(0), n: same(0), name: 0, via: 0 },
        add(NK::Input, vec![], 3, Type::Array(vec![0], INT32)), // invalid type: rollback
        add(NK::Input, vec![], 3, big.clone()),                 // size rollback (type already cached)
        add(NK::Input, vec![], 3, scalar_type(BIT)),            // re-uses the id
        add(NK::Add, vec![same(0), same(0xffff)], 0, i32t.clone()), // INT32 + BIT: type error
        add(NK::MkTuple, vec![same(0), same(0xffff)], 3, i32t.clone()),
        Op::NameNode { c: 0, g: gs(0), n: same(0xffff), name: 0, via: 4 }, // duplicate name
        Op::NameNode { c: 0, g: gs(0), n: same(0), name: 1, via: 0 },      // second name
        Op::NameNode { c: 0, g: gs(0), n: same(0xffff), name: 1, via: 7 }, // foreign context
        Op::Inputs { c: 0, g: gs(0), t: near.clone(), n: 6 },
        Op::Inputs { c: 0, g: gs(0), t: near, n: 6 }, // exceeds the total size limit
        Op::Inputs { c: 0, g: gs(0), t: scalar_type(BIT), n: 2 },
        Op::Finalize { c: 0, g: gs(0) }, // no output
        Op::SetOutput { c: 0, g: gs(0), n: same(0), via_node: true },
        Op::SetOutput { c: 0, g: gs(0), n: same(1), via_node: false }, // twice
        Op::Finalize { c: 0, g: gs(0) },
        add(NK::Nop, vec![same(0)], 3, i32t.clone()), // finalized graph
        Op::CreateGraph { c: 0 },
        Op::AddNode { c: 0, g: gs(0xffff), k: NK::Input, deps: vec![], gd: vec![], p: [0, 0, 0, 3], t: i32t.clone() },
        Op::AddNode { c: 0, g: gs(0xffff), k: NK::Nop, deps: vec![NRef { s: NS::OtherGraph, i: 0 }], gd: vec![], p: [0, 0, 0, 3], t: i32t.clone() },
        Op::AddNode { c: 0, g: gs(0xffff), k: NK::Nop, deps: vec![NRef { s: NS::OtherCtx, i: 0 }], gd: vec![], p: [0, 0, 0, 3], t: i32t.clone() },
        Op::AddNode { c: 0, g: gs(0xffff), k: NK::Call, deps: vec![], gd: vec![GRef { s: GS::Callable, i: 0 }], p: [0, 0, 0, 3], t: i32t.clone() },
        Op::AddNode { c: 0, g: gs(0xffff), k: NK::Call, deps: vec![], gd: vec![GRef { s: GS::Local, i: 0xffff }], p: [0, 0, 0, 3], t: i32t.clone() },
        Op::AddNode { c: 1, g: gs(0), k: NK::Input, deps: vec![], gd: vec![], p: [0, 0, 0, 3], t: i32t.clone() },
        Op::Seal { c: 1 },
        Op::AddNode { c: 0, g: gs(0xffff), k: NK::Call, deps: vec![same(0)], gd: vec![GRef { s: GS::OtherCtx, i: 0 }], p: [0, 0, 0, 3], t: i32t.clone() },
        Op::SetMain { c: 0, g: GRef { s: GS::Local, i: 0xffff }, via_graph: false }, // unfinalized
        Op::FinalizeCtx { c: 0 },
        Op::Query { c: 0, g: gs(0), i: 3 },
        Op::Seal { c: 0 },
        Op::CreateGraph { c: 0 },
        Op::NameGraph { c: 0, g: gs(0), name: 2, via: 0 },
        Op::AnnotNode { c: 0, g: gs(0), n: same(0), a: 1 },
        Op::AnnotGraph { c: 0, g: gs(0), a: 1 },
        Op::SetMain { c: 0, g: GRef { s: GS::Local, i: 0 }, via_graph: true },
        Op::FinalizeCtx { c: 0 },
    ];
    ops.push(Op::Finalize { c: 0, g: gs(0) });
    let _ = tuple_type(vec![]);
    History { two_ctx: true, ops, drop_sel: 0 }
}

pub fn run(env: &Env) {
    env.assume("'a finalized graph rejects every mutation' is read as the anchored guards implement it: node list and output node are frozen by graph finalization, names and annotations by context finalization; a repeated finalize that returns Ok must not change anything");
    env.assume("type-level outcome of add_node is predicted only where the builder documentation states it; elsewhere either outcome is accepted and the Err branch must leave no trace");
    env.assume("size-limit errors on documented-valid nodes are accepted only in the `small` build or in a context where a type of astronomical size was used");
    env.note("build", json!(if SMALL { "small (ciphercore-base/fuzzing: MAX_TOTAL_SIZE_NODES=10000, MAX_INDIVIDUAL_NODE_SIZE=1000)" } else { "normal" }));
    env.note("bounds", json!("<= 5 graphs per context, <= 60 nodes per graph, 10-80 ops per history (an op is 1..n API calls)"));
    env.set_shrink_iters(3000);
    // VH_C11_NO_PINNED=1 (validation only): measure what the random campaigns find on their own
    if std::env::var("VH_C11_NO_PINNED").is_err() {
        env.pinned("walkthrough", &pinned_history(), oracle);
    }
    env.campaign(
        "history",
        "random histories over 1-2 contexts; model-based checks after every call; removal of failed calls (layer E)",
        env.n(6_000, 300_000),
        || arb_history(10, 80),
        oracle,
    );
    env.campaign(
        "short",
        "short histories (3-14 ops): dense coverage of the first calls after a rollback",
        env.n(6_000, 300_000),
        || arb_history(3, 14),
        oracle,
    );
}

pub fn replay(_check: &str, case: J) -> Outcome {
    replay_with::<History, _>(case, oracle)
}
