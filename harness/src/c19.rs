//! C19 — joins implement the documented relational semantics, also when compiled.
//!
//! (A) `plain`   : SimpleEvaluator on a one-Join graph vs `refjoin`, an independent row-oriented
//!                 relational join written from the doc comments of `Graph::join` /
//!                 `Graph::join_with_column_masks` and the result-type rule (column order, row counts).
//! (B) `compiled`: compile_context'ed join evaluated by ONE global evaluator == plaintext table.
//! (C) `three-party`: the compiled join executed by three separate parties (`walk::run3`): every
//!                 designated output party holds the plaintext table.
use crate::c01::{eval_compiled, eval_plain};
use crate::c19_util::*;
use crate::core::*;
use crate::hv::*;
use crate::mpcx::*;
use crate::walk::run3;
use ciphercore_base::data_types::{tuple_type, Type};
use ciphercore_base::data_values::Value;
use proptest::prelude::*;
use serde::{Deserialize, Serialize};
use serde_json::Value as J;

pub const RULE_A: &str = "pairs of tables (1-8 rows each incl. null rows anywhere carrying arbitrary data, 1-3 key columns of any of the 11 scalar types with row shapes [n],[n,1],[n,2],[n,2,2],BIT [n,k], key headers renamed or not, 0-2 payload columns per side, columns and null column in any position, live keys unique per table by construction from a shared key pool built from per-column alphabets (near-miss keys), overlap pattern free/disjoint/identical; masked variant: per-column masks, live rows with masked key entries, arbitrary data under zero masks) x 4 join types; \
oracle: refjoin (row-oriented reference written from the documentation) vs SimpleEvaluator: result type (column order, row count), null column, masks, data, zero filling; \
non-trivial = >=1 matching and >=1 non-matching live row on each side and >=1 null row, and for the masked variant >=1 masked key entry in a live row; distinct = distinct case";
pub const RULE_B: &str = "same tables (1-6 rows) x owner pair in {party0,1,2,public,shared}^2 (not both public) x output parties (any non-empty ordered subset, or none = stays shared) x inline mode (mostly Simple); \
oracle: compiled main graph under one global SimpleEvaluator == plaintext table (which itself == refjoin), exactly; the documented 'Cuckoo hashing failed' abort is tolerated and counted; \
non-trivial = as (A) relaxed to >=1 matching and >=1 non-matching live row overall and >=1 null row (tables are smaller); distinct = distinct (case, configuration)";
pub const RULE_C: &str = "same as (B) plus per-party junk for foreign inputs and three independent evaluator seeds; oracle: three-party executor (values cross only at Send nodes): every listed output party holds the plaintext table; shared output: replicated-slot consistency and reconstruction; \
non-trivial = as (B) and junk differs from the true tables";
pub const RULE: &str = "C19: (A) plaintext join vs independent reference join written from the documentation; (B) compiled join under one global evaluator == plaintext; (C) compiled join run by three separate parties == plaintext for every output party. Non-trivial: >=1 matching and >=1 non-matching live row on each side, >=1 null row, masked variant: >=1 masked key entry";

/// F-C19-1: unmasked full join fails in the plaintext evaluator when the second table's first column is
/// not the null column
pub const SIG_FULL_NULLPOS: &str = "plain-full-unmasked-second-table-first-column-not-null";
/// F-C19-6: the secure join compares null bits and key data only: a live row with a masked key entry
/// matches a live row of the other table with the same key data whenever its random probe hits it
pub const SIG_MASKED_CHANCE: &str = "compiled-masked-key-row-matches-by-chance";
/// F-C19-5: the compiled join returns the null column first whatever its position in the first table
pub const SIG_NULL_MOVED: &str = "compiled-null-column-moved-first";
/// F-C19-2: zero_pad_column (union/full) builds replicated shares of the padding rows from
/// get_zero_shares (share i computable by party i only) without any Send
pub const SIG_P3_ZERO_PAD: &str = "p3-zero-pad-column-unsent-zero-shares";
/// F-C19-3: share_column turns a public column into "shares" with get_node_shares without the Sends
pub const SIG_P3_SHARE_COLUMN: &str = "p3-share-column-public-unsent-shares";
/// F-C19-4: random_pad_columns gives the padding rows of the cuckoo table null bits built from
/// get_zero_shares without Send: they are random, not zero, for separate parties
pub const SIG_P3_RANDOM_PAD: &str = "p3-random-pad-null-unsent-zero-shares";

#[derive(Clone, Debug, Serialize, Deserialize)]
pub struct MpcCase {
    pub j: JoinCase,
    pub cfg: MpcCfg,
    pub seeds: [[u8; 16]; 3],
    pub share_seed: u64,
    pub junk_seed: u64,
}

// ------------------------------------------------------------------------------------------------
// (A)

fn class_labels(c: &JoinCase, st: &RefStats) -> Vec<String> {
    let mut l = vec![
        format!("join:{}", jt_name(c.jt)),
        format!("masked:{}", c.masked),
        format!("keycols:{}", c.keys.len()),
        format!("rows:{}x{}", rows_bucket(c.a.rows.len()), rows_bucket(c.b.rows.len())),
        format!("overlap:{}", st.overlap_class()),
        format!("payload:{}+{}", c.a.cols.len() - c.keys.len(), c.b.cols.len() - c.keys.len()),
        format!("keybits:{}", keybits_bucket(key_bits(c))),
    ];
    let mut renamed = false;
    for (h0, h1) in &c.keys {
        if h0 != h1 {
            renamed = true;
        }
        let col = c.a.cols.iter().find(|x| &x.name == h0).unwrap();
        l.push(format!("keytype:{:?}", col.st));
        l.push(format!("keyrow:{:?}", col.row));
    }
    l.push(format!("renamed:{}", renamed));
    if st.null_rows > 0 {
        l.push("has:null-rows".into());
    }
    if st.null_dup_live_key > 0 {
        l.push("has:null-row-duplicating-a-live-key".into());
    }
    if st.masked_key_rows > 0 {
        l.push("has:masked-key-row".into());
    }
    if st.masked_payload_cells > 0 {
        l.push("has:masked-payload-cell".into());
    }
    if st.live[0] == 0 || st.live[1] == 0 {
        l.push("has:table-without-live-rows".into());
    }
    if c.a.null_pos != 0 || c.b.null_pos != 0 {
        l.push("has:null-column-not-first".into());
    }
    l
}

fn rows_bucket(n: usize) -> &'static str {
    match n {
        0..=2 => "1-2",
        3..=5 => "3-5",
        _ => "6+",
    }
}
fn keybits_bucket(n: u64) -> &'static str {
    match n {
        0..=4 => "<=4",
        5..=16 => "5-16",
        17..=80 => "17-80",
        _ => ">80",
    }
}

fn nontrivial_a(c: &JoinCase, st: &RefStats) -> bool {
    st.matched >= 1
        && st.live[0] > st.matched
        && st.live[1] > st.matched
        && st.null_rows >= 1
        && (!c.masked || st.masked_key_rows >= 1)
}
fn nontrivial_b(c: &JoinCase, st: &RefStats) -> bool {
    st.matched >= 1
        && (st.live[0] > st.matched || st.live[1] > st.matched)
        && st.null_rows >= 1
        && (!c.masked || st.masked_key_rows >= 1 || st.masked_payload_cells >= 1)
}

pub struct PlainRun {
    pub built: BuiltJoin,
    pub expected: RTable,
    pub stats: RefStats,
    pub plain: HVal,
}

/// builds the graph, evaluates it in plaintext and compares with the reference
pub fn plain_vs_ref(c: &JoinCase, seed: [u8; 16]) -> Result<PlainRun, Outcome> {
    if let Err(e) = validate_case(c) {
        return Err(Outcome::skip("malformed-case").label(format!("malformed:{}", e)));
    }
    let (expected, stats) = refjoin(c);
    let built = match crate::util::catch(|| build_join(c)) {
        Ok(Ok(b)) => b,
        Ok(Err(e)) => return Err(Outcome::fail("join-rejected", format!("a join in the documented domain was rejected by the builder: {}", e))),
        Err(p) => return Err(Outcome::fail("join-builder-panic", format!("graph builder panicked: {}", p))),
    };
    let want_t = table_type(&expected, c.masked);
    if built.out_type != want_t {
        return Err(Outcome::fail(
            "result-type",
            format!("result type {} differs from the documented column order / row count {}", built.out_type, want_t),
        ));
    }
    let inputs = vec![encode(&table_hval(&c.a, c.masked), &built.in_types[0]), encode(&table_hval(&c.b, c.masked), &built.in_types[1])];
    let v = match eval_plain(&built.context, inputs, seed) {
        Ok(Ok(v)) => v,
        Ok(Err(e)) => {
            // root cause F-C19-1 (evaluators/join.rs get_number_of_rows passes has_column_masks = true)
            let sig = if c.jt % 4 == 3 && !c.masked && c.b.null_pos != 0 && e.contains("Column should contain a tuple") {
                SIG_FULL_NULLPOS
            } else {
                "plain-eval-error"
            };
            return Err(Outcome::fail(sig, format!("plaintext {} join failed: {}", jt_name(c.jt), e)));
        }
        Err(p) => return Err(Outcome::fail("plain-eval-panic", format!("plaintext join panicked: {}", p))),
    };
    let plain = match decode(&v, &built.out_type) {
        Ok(h) => h,
        Err(e) => return Err(Outcome::fail("plain-value-layout", format!("plaintext result does not have the inferred type: {}", e))),
    };
    Ok(PlainRun { built, expected, stats, plain })
}

pub fn oracle_plain(c: &JoinCase) -> Outcome {
    let r = match plain_vs_ref(c, [7; 16]) {
        Ok(r) => r,
        Err(o) => return o,
    };
    let cmp = compare_tables(&r.plain, &r.expected, c.masked);
    if let Some((sig, msg)) = cmp.first_error {
        return Outcome::fail(&format!("plain-{}-{}", jt_name(c.jt), sig), format!("{} join{}: {}", jt_name(c.jt), if c.masked { " (masked)" } else { "" }, msg));
    }
    let mut o = Outcome::pass(nontrivial_a(c, &r.stats)).labels(class_labels(c, &r.stats));
    if cmp.tolerated_under_mask > 0 {
        o = o.label("tolerated:data-under-zero-mask-in-copied-cell");
    }
    o
}

// ------------------------------------------------------------------------------------------------
// (B) and (C)

pub struct Prepared {
    pub run: PlainRun,
    /// keeps the compiled context alive (graphs hold weak references to it)
    pub compiled: ciphercore_base::graphs::Context,
    pub compiled_main: ciphercore_base::graphs::Graph,
    pub n_sends: usize,
    pub labels: Vec<String>,
    /// type of one revealed output table as the COMPILED graph declares it
    pub decode_t: Type,
    /// Some(perm) when the compiled graph orders the columns differently from the source graph's
    /// output type: perm[i] = position in the compiled tuple of the i-th documented column
    pub perm: Option<Vec<usize>>,
}

impl Prepared {
    /// decodes one revealed table / one share with the compiled graph's own type and brings the
    /// columns into the documented order (by header)
    pub fn decode_table(&self, v: &Value) -> Result<HVal, String> {
        let h = decode(v, &self.decode_t)?;
        Ok(self.reorder(h))
    }
    pub fn reorder(&self, h: HVal) -> HVal {
        match (&self.perm, h) {
            (Some(perm), HVal::V(cols)) => HVal::V(perm.iter().map(|i| cols[*i].clone()).collect()),
            (_, h) => h,
        }
    }
    pub fn decode_shares(&self, v: &Value) -> Result<Vec<HVal>, String> {
        let t3 = tuple_type(vec![self.decode_t.clone(); 3]);
        match decode(v, &t3)? {
            HVal::V(sh) => Ok(sh.into_iter().map(|x| self.reorder(x)).collect()),
            _ => Err("not a tuple".to_string()),
        }
    }
    /// the column-order discrepancy as a failure (reported after the contents were compared by header)
    pub fn order_failure(&self, c: &MpcCase) -> Option<Outcome> {
        self.perm.as_ref().map(|perm| {
            Outcome::fail(
                SIG_NULL_MOVED,
                format!(
                    "compiled {} join declares and returns its columns in the order {:?} of the documented columns (null column of the first table at position {}): output type {} instead of {}; contents agree when matched by header",
                    jt_name(c.j.jt),
                    perm,
                    c.j.a.null_pos,
                    self.decode_t,
                    self.run.built.out_type
                ),
            )
        })
    }
}

fn owner_name(o: u8) -> String {
    match o {
        0 | 1 | 2 => format!("p{}", o),
        3 => "pub".into(),
        _ => "shared".into(),
    }
}

pub fn prepare(c: &MpcCase) -> Result<Prepared, Outcome> {
    let run = plain_vs_ref(&c.j, c.seeds[0])?;
    // the reference comparison is part of (A); here it guards the meaning of "plaintext table"
    let cmp = compare_tables(&run.plain, &run.expected, c.j.masked);
    if let Some((sig, msg)) = cmp.first_error {
        return Err(Outcome::fail(&format!("plain-{}-{}", jt_name(c.j.jt), sig), msg));
    }
    if owner_of(&c.cfg, 0) == 3 && owner_of(&c.cfg, 1) == 3 {
        return Err(Outcome::skip("both-public"));
    }
    let compiled = match compile(&run.built.context, 2, &c.cfg) {
        Compiled::Ok(m) => m.get_context(),
        Compiled::Rejected(e) => return Err(Outcome::fail("compiler-rejected-join", format!("compile_context rejected a join in the documented domain: {}", e))),
        Compiled::Panicked(p) => return Err(Outcome::fail("compiler-panic-join", format!("compile_context panicked: {}", p))),
    };
    let compiled_main = compiled.get_main_graph().unwrap();
    let n_sends = compiled_main.get_nodes().iter().map(|n| crate::walk::sends_of(n).len()).sum();
    let mut labels = class_labels(&c.j, &run.stats);
    labels.push(format!("owners:{}/{}", owner_name(owner_of(&c.cfg, 0)), owner_name(owner_of(&c.cfg, 1))));
    labels.push(format!("outs:{}", c.cfg.outs.len()));
    labels.push(format!("mode:{}", mode_name(c.cfg.mode)));
    labels.push(format!("compiled-nodes:{}", crate::c01::bucket(compiled_main.get_nodes().len())));
    // output type declared by the compiled graph
    let actual_t = compiled_main.get_output_node().unwrap().get_type().unwrap();
    let decode_t = if c.cfg.outs.is_empty() {
        match &actual_t {
            Type::Tuple(ts) if ts.len() == 3 && ts[0] == ts[1] && ts[1] == ts[2] => (*ts[0]).clone(),
            _ => return Err(Outcome::fail("compiled-shared-type", format!("shared output type is not a triple of equal types: {}", actual_t))),
        }
    } else {
        actual_t
    };
    let want_t = &run.built.out_type;
    let perm = if &decode_t == want_t {
        None
    } else {
        let (got_cols, want_cols) = match (&decode_t, want_t) {
            (Type::NamedTuple(g), Type::NamedTuple(w)) if g.len() == w.len() => (g, w),
            _ => return Err(Outcome::fail("compiled-output-type", format!("compiled output type {} vs source output type {}", decode_t, want_t))),
        };
        let mut perm = vec![];
        for (name, t) in want_cols.iter() {
            match got_cols.iter().position(|(n2, t2)| n2 == name && t2 == t) {
                Some(i) => perm.push(i),
                None => return Err(Outcome::fail("compiled-output-type", format!("compiled output type {} lacks column {:?} of the source output type {}", decode_t, name, want_t))),
            }
        }
        labels.push("compiled-column-order-differs".to_string());
        Some(perm)
    };
    Ok(Prepared { run, compiled, compiled_main, n_sends, labels, decode_t, perm })
}

fn is_cuckoo_abort(msg: &str) -> bool {
    msg.contains("Cuckoo hashing failed")
}

pub fn oracle_compiled(c: &MpcCase) -> Outcome {
    let mut o = oracle_compiled_inner(c);
    if o.is_fail() && o.sig.starts_with("compiled-") && o.sig != SIG_NULL_MOVED && o.msg.contains("differs from plaintext") && masked_chance_match_possible(&c.j) {
        // F-C19-6 is a chance event, independent per evaluator seed, with probability
        // <= (n_a + n_b) * 3 / 2^ceil(log2(max n) + 7) <= 5 % per evaluation. A defect that lets masked
        // rows match systematically fails under every seed: 7 further evaluations (14 seeds) all wrong
        // has probability < 0.05^7 < 1e-9 under F-C19-6 alone.
        let mut all_wrong = true;
        for k in 1..=7u8 {
            let mut c2 = c.clone();
            for s in c2.seeds.iter_mut().skip(1) {
                for (i, b) in s.iter_mut().enumerate() {
                    *b = b.wrapping_mul(31).wrapping_add(k.wrapping_mul(17).wrapping_add(i as u8));
                }
            }
            if !oracle_compiled_inner(&c2).is_fail() {
                all_wrong = false;
                break;
            }
        }
        if all_wrong {
            o.sig = "compiled-masked-key-row-matches-systematically".to_string();
            o.msg = format!("wrong under all 16 evaluator seeds tried (not the chance event F-C19-6): {}", o.msg);
        } else {
            o.sig = SIG_MASKED_CHANCE.to_string();
        }
    }
    o
}

fn oracle_compiled_inner(c: &MpcCase) -> Outcome {
    let p = match prepare(c) {
        Ok(p) => p,
        Err(o) => return o,
    };
    let in_vals = [table_hval(&c.j.a, c.j.masked), table_hval(&c.j.b, c.j.masked)];
    let inputs = global_inputs(&p.run.built.in_types, &in_vals, &c.cfg, c.share_seed);
    let out_t = &p.run.built.out_type;
    let mut aborts = 0;
    for (k, seed) in [c.seeds[1], c.seeds[2]].iter().enumerate() {
        let v = match eval_compiled(&p.compiled_main, inputs.clone(), *seed) {
            Ok(Ok(v)) => v,
            Ok(Err(e)) if is_cuckoo_abort(&e) => {
                aborts += 1;
                continue;
            }
            Ok(Err(e)) => return Outcome::fail("compiled-eval-error", format!("compiled join failed (seed #{}): {}", k, e)),
            Err(pm) => return Outcome::fail("compiled-eval-panic", format!("compiled join panicked (seed #{}): {}", k, pm)),
        };
        let got = if c.cfg.outs.is_empty() {
            match p.decode_shares(&v) {
                Ok(sh) => xor_add(&xor_add(&sh[0], &sh[1], out_t), &sh[2], out_t),
                Err(e) => return Outcome::fail("compiled-shared-type", format!("shared output is not a 3-tuple of its declared type: {}", e)),
            }
        } else {
            match p.decode_table(&v) {
                Ok(h) => h,
                Err(e) => return Outcome::fail("compiled-output-type", format!("compiled output does not have its declared type: {}", e)),
            }
        };
        if got != p.run.plain {
            let d = compare_tables(&got, &p.run.expected, c.j.masked);
            let (sig, msg) = d.first_error.unwrap_or(("under-mask".to_string(), "differs only in data under a zero mask".to_string()));
            return Outcome::fail(
                &format!("compiled-{}-{}", jt_name(c.j.jt), sig),
                format!("compiled {} join (global evaluator, seed #{}) differs from plaintext: {}", jt_name(c.j.jt), k, msg),
            );
        }
    }
    if aborts == 2 {
        // the abort is documented as a negligible-probability event of one run: if the same join
        // on the same tables also aborts under six further independent evaluator seeds, it is not
        // that event (8 aborts in a row have probability negligible^8)
        let mut all = true;
        for k in 0..6u8 {
            let mut seed = c.seeds[0];
            seed[1] ^= 0xA5;
            seed[2] = seed[2].wrapping_add(k.wrapping_mul(37));
            match eval_compiled(&p.compiled_main, inputs.clone(), seed) {
                Ok(Err(e)) if is_cuckoo_abort(&e) => {}
                _ => {
                    all = false;
                    break;
                }
            }
        }
        if all {
            return Outcome::fail(
                "compiled-cuckoo-abort-persistent",
                format!("compiled {} join aborts with 'Cuckoo hashing failed' under 8 of 8 independent evaluator seeds (documented as a negligible-probability event)", jt_name(c.j.jt)),
            );
        }
    }
    if let Some(f) = p.order_failure(c) {
        return f;
    }
    let mut o = Outcome::pass(aborts < 2 && p.n_sends > 0 && nontrivial_b(&c.j, &p.run.stats)).labels(p.labels);
    if aborts > 0 {
        o = o.label(format!("tolerated:cuckoo-abort-x{}", aborts));
    }
    o
}

pub fn oracle_three_party(c: &MpcCase) -> Outcome {
    let o = oracle_three_party_inner(c);
    if o.is_fail() {
        if let Some(sig) = known_root_cause(c, &o) {
            let mut o2 = o;
            o2.sig = sig;
            return o2;
        }
    }
    o
}

/// Attribution of a three-party failure to one of the root causes found on the unchanged tree
/// (F-C19-2/3/4): a predicate over the case structure that says whether the defective code path is
/// exercised at all. A failure of a case that exercises none of them keeps its generic signature and
/// is a fresh violation, so the search continues behind the known findings.
fn known_root_cause(c: &MpcCase, o: &Outcome) -> Option<String> {
    if !["p3-output", "p3-share-inconsistent", "p3-shared-reconstruct"].contains(&o.sig.as_str()) {
        return None;
    }
    let x_pub = owner_of(&c.cfg, 0) == 3;
    let y_pub = owner_of(&c.cfg, 1) == 3;
    let nk = c.j.keys.len();
    let x_payload = c.j.a.cols.len() > nk;
    let y_payload = c.j.b.cols.len() > nk;
    let jt = c.j.jt % 4;
    // zero_pad_column on a shared column: union pads the unique non-key columns of a private table;
    // full = union(X, left(Y, X)) pads the non-key columns of Y inside the (always shared) left join
    let r1 = (jt == 2 && ((!x_pub && x_payload) || (!y_pub && y_payload))) || (jt == 3 && y_payload);
    // share_column on a public column: null column of a public X in a left join, null column and
    // columns of a public Y in a union; full starts with left(Y, X)
    let r2 = (jt == 1 && x_pub) || (jt == 2 && y_pub) || (jt == 3 && y_pub);
    // random_pad_columns: padding rows of the cuckoo table get random instead of zero null bits, so
    // a first-table row without partner matches a padding row with probability ~2^-(key bits + 1)
    // per probe: needs narrow keys and a live row without partner
    let (_, st) = refjoin(&c.j);
    // (a live row with a masked key entry probes random cells as well)
    let r3 = key_bits(&c.j) <= 24 && (st.live[0] > st.matched || (jt == 3 && st.live[1] > st.matched));
    if r1 {
        Some(SIG_P3_ZERO_PAD.to_string())
    } else if r2 {
        Some(SIG_P3_SHARE_COLUMN.to_string())
    } else if r3 {
        Some(SIG_P3_RANDOM_PAD.to_string())
    } else if masked_chance_match_possible(&c.j) {
        Some(SIG_MASKED_CHANCE.to_string())
    } else {
        None
    }
}

/// F-C19-6 can only show when a live row with a masked key entry carries the key data of a live row
/// of the other table
fn masked_chance_match_possible(j: &JoinCase) -> bool {
    j.masked && refjoin(j).1.masked_equal_data_pairs > 0
}

fn oracle_three_party_inner(c: &MpcCase) -> Outcome {
    let p = match prepare(c) {
        Ok(p) => p,
        Err(o) => return o,
    };
    let in_vals = [table_hval(&c.j.a, c.j.masked), table_hval(&c.j.b, c.j.masked)];
    let in_types = &p.run.built.in_types;
    let out_t = &p.run.built.out_type;
    let mut junk_differs = false;
    let mut aborts = 0;
    for round in 0..2u64 {
        let pin = party_inputs(in_types, &in_vals, &c.cfg, c.share_seed, c.junk_seed ^ (round * 0x5555_AAAA_1234));
        for q in 0..3 {
            for (i, v) in pin[q].iter().enumerate() {
                let o = owner_of(&c.cfg, i);
                if o < 3 && o as usize != q && decode(v, &in_types[i]).ok().as_ref() != Some(&in_vals[i]) {
                    junk_differs = true;
                }
            }
        }
        let mut seeds = c.seeds;
        for s in seeds.iter_mut() {
            s[0] ^= round as u8 * 0x5A;
        }
        let r = match run3(&p.compiled_main, [&pin[0], &pin[1], &pin[2]], seeds) {
            Ok(r) => r,
            Err(e) => return Outcome::fail("run3-setup", e),
        };
        // the documented abort: the party that builds the cuckoo table fails; tolerated
        if r.first_failure.iter().flatten().any(|m| is_cuckoo_abort(m)) {
            aborts += 1;
            continue;
        }
        if c.cfg.outs.is_empty() {
            let mut slots: Vec<Vec<HVal>> = vec![];
            for q in 0..3 {
                match &r.out[q] {
                    Some(v) => match p.decode_shares(v) {
                        Ok(sh) => slots.push(sh),
                        Err(_) => return Outcome::fail("p3-shared-type", format!("party {} output is not a 3-tuple of the output type", q)),
                    },
                    None => return Outcome::fail("p3-underivable", format!("party {} cannot derive its shared output: {:?}", q, r.first_failure[q])),
                }
            }
            for i in 0..3usize {
                let prev = (i + 2) % 3;
                if slots[i][i] != slots[prev][i] {
                    return Outcome::fail(
                        "p3-share-inconsistent",
                        format!("round {}: share {} differs between party {} and party {} ({} join): {}", round, i, i, prev, jt_name(c.j.jt), first_diff(&slots[i][i], &slots[prev][i], &p.run.expected)),
                    );
                }
            }
            let sum = xor_add(&xor_add(&slots[0][0], &slots[1][1], out_t), &slots[2][2], out_t);
            if sum != p.run.plain {
                let d = compare_tables(&sum, &p.run.expected, c.j.masked);
                return Outcome::fail(
                    "p3-shared-reconstruct",
                    format!("round {}: shares of the {} join do not reconstruct the plaintext table: {}", round, jt_name(c.j.jt), d.first_error.map(|e| e.1).unwrap_or_default()),
                );
            }
        } else {
            for q in c.cfg.outs.iter().map(|x| (*x % 3) as usize) {
                match &r.out[q] {
                    Some(v) => match p.decode_table(v) {
                        Ok(h) => {
                            if h != p.run.plain {
                                let d = compare_tables(&h, &p.run.expected, c.j.masked);
                                return Outcome::fail(
                                    "p3-output",
                                    format!(
                                        "round {}: output party {} holds a wrong {} join table: {}",
                                        round,
                                        q,
                                        jt_name(c.j.jt),
                                        d.first_error.map(|e| e.1).unwrap_or_else(|| "differs only in data under a zero mask".into())
                                    ),
                                );
                            }
                        }
                        Err(e) => return Outcome::fail("p3-output-type", format!("output party {}: {}", q, e)),
                    },
                    None => return Outcome::fail("p3-underivable", format!("round {}: output party {} cannot derive the result: {:?}", round, q, r.first_failure[q])),
                }
            }
        }
    }
    if let Some(f) = p.order_failure(c) {
        return f;
    }
    let shared_in = owner_of(&c.cfg, 0) == 4 || owner_of(&c.cfg, 1) == 4;
    let mut o = Outcome::pass(aborts < 2 && p.n_sends > 0 && nontrivial_b(&c.j, &p.run.stats) && (junk_differs || shared_in)).labels(p.labels);
    if aborts > 0 {
        o = o.label(format!("tolerated:cuckoo-abort-x{}", aborts));
    }
    o
}

fn first_diff(a: &HVal, b: &HVal, shape_of: &RTable) -> String {
    if let (HVal::V(x), HVal::V(y)) = (a, b) {
        for (i, (p, q)) in x.iter().zip(y.iter()).enumerate() {
            if p != q {
                return format!("first differing column: {:?}", shape_of.col_name(i));
            }
        }
    }
    "values differ".to_string()
}

/// share combination: BIT columns are XOR-shared, the others additively; `hv::add` reduces modulo
/// 2^w which for w = 1 is XOR
fn xor_add(a: &HVal, b: &HVal, t: &Type) -> HVal {
    add(a, b, t)
}

// ------------------------------------------------------------------------------------------------
// strategies

pub fn arb_cfg() -> BoxedStrategy<MpcCfg> {
    let owner = || prop_oneof![2 => Just(0u8), 2 => Just(1u8), 2 => Just(2u8), 1 => Just(3u8), 2 => Just(4u8)];
    (
        (owner(), owner()).prop_map(|(a, b)| if a == 3 && b == 3 { (a, 4u8) } else { (a, b) }),
        prop_oneof![
            6 => proptest::sample::subsequence(vec![0u8, 1, 2], 1..=3).prop_shuffle(),
            1 => Just(vec![]),
        ],
        prop_oneof![8 => Just(0u8), 1 => Just(1u8), 1 => Just(2u8)],
        any::<[u8; 16]>(),
    )
        .prop_map(|((a, b), outs, mode, compile_seed)| MpcCfg { owners: vec![a, b], outs, mode, compile_seed })
        .boxed()
}

pub fn arb_mpc_case(max_rows: usize) -> BoxedStrategy<MpcCase> {
    (arb_join_case(max_rows, true), arb_cfg(), any::<[[u8; 16]; 3]>(), any::<u64>(), any::<u64>())
        .prop_map(|(j, cfg, seeds, share_seed, junk_seed)| MpcCase { j, cfg, seeds, share_seed, junk_seed })
        .boxed()
}

// ------------------------------------------------------------------------------------------------

fn pinned_mpc(j: JoinCase, owners: [u8; 2]) -> MpcCase {
    MpcCase {
        j,
        cfg: MpcCfg { owners: owners.to_vec(), outs: vec![0, 1, 2], mode: 0, compile_seed: [3; 16] },
        seeds: [[1; 16], [50; 16], [100; 16]],
        share_seed: 5,
        junk_seed: 77,
    }
}

fn pinned_tables(jt: u8, st: ciphercore_base::data_types::ScalarType, row: Vec<u64>, payload: bool) -> JoinCase {
    use R::*;
    let mut j = family_case(jt, false, st, row, &[L(1), L(2), N(3), L(0)], &[L(2), L(3), N(1)]);
    j.b.null_pos = 0;
    if !payload {
        for t in [&mut j.a, &mut j.b] {
            t.cols.truncate(1);
            for r in t.rows.iter_mut() {
                r.cells.truncate(1);
            }
        }
    }
    j
}

/// F-C19-2: union of two private tables with payload columns, 64-bit key
pub fn pinned_zero_pad() -> MpcCase {
    pinned_mpc(pinned_tables(2, ciphercore_base::data_types::ScalarType::U64, vec![], true), [0, 1])
}
/// F-C19-3: left join with a public first table, 64-bit key, no payload
pub fn pinned_share_column() -> MpcCase {
    pinned_mpc(pinned_tables(1, ciphercore_base::data_types::ScalarType::U64, vec![], false), [3, 1])
}
/// F-C19-4: inner join of two private tables on a 2-bit key, no payload
pub fn pinned_random_pad() -> MpcCase {
    pinned_mpc(pinned_tables(0, ciphercore_base::data_types::ScalarType::Bit, vec![2], false), [0, 1])
}
/// F-C19-6: 8 live rows with a masked 64-bit key entry carrying the data 5 against one live row with key 5;
/// evaluator seed chosen such that one of the random probes hits (about 1 seed in 20 does)
pub fn pinned_masked_chance() -> MpcCase {
    use ciphercore_base::data_types::ScalarType;
    let key = |m: u8, d: u128| Cell { m, d: vec![d] };
    let pay = |d: u128| Cell { m: 1, d: vec![d] };
    let j = JoinCase {
        jt: 0,
        masked: true,
        a: Table {
            cols: vec![Col { name: "id".into(), st: ScalarType::U64, row: vec![] }, Col { name: "x".into(), st: ScalarType::U16, row: vec![] }],
            null_pos: 0,
            rows: (0..8).map(|i| Row { null: 1, cells: vec![key(0, 5), pay(100 + i)] }).collect(),
        },
        b: Table {
            cols: vec![Col { name: "id".into(), st: ScalarType::U64, row: vec![] }, Col { name: "y".into(), st: ScalarType::U16, row: vec![] }],
            null_pos: 0,
            rows: vec![Row { null: 1, cells: vec![key(1, 5), pay(7)] }],
        },
        keys: vec![("id".into(), "id".into())],
    };
    MpcCase { j, cfg: MpcCfg { owners: vec![0, 1], outs: vec![0], mode: 0, compile_seed: [3; 16] }, seeds: [[1; 16], [8; 16], [9; 16]], share_seed: 5, junk_seed: 77 }
}
/// F-C19-5: inner join whose first table has its null column in second position
pub fn pinned_null_moved() -> MpcCase {
    let mut j = pinned_tables(0, ciphercore_base::data_types::ScalarType::U64, vec![], true);
    j.a.null_pos = 1;
    pinned_mpc(j, [0, 1])
}

pub fn pinned_full_nullpos() -> JoinCase {
    let mut c = tiny_case(3, false);
    c.b.null_pos = 1;
    c
}

pub fn run(env: &Env) {
    env.assume("reading of the documentation: inner/left results have the rows of the first table in place (row i of the result belongs to row i of the first table, zero row where nothing is returned); union = first table's rows in place (zero row if null or matched) followed by the second table's rows in place; full = union(a, left(b, a))");
    env.assume("left join keeps a live first-table row whose key entry is masked, unmatched: 'all the rows of the first input tuple' and full = union(a, left(b,a)) must be able to copy such rows (the sentence 'they can't show up in inner and left joins' is read as 'cannot be matched')");
    env.assume("rows with NULL_HEADER = 0 and cells with mask = 0 may carry arbitrary data in the inputs ('void of content'); in the result they are all-zero ('filled with zeros')");
    env.assume("unspecified, not compared in (A): data under a zero mask in a cell copied from an input (counted as tolerated if ever non-zero); (B) pins compiled == plaintext exactly");
    env.assume("'Cuckoo hashing failed' on the compiled side is the documented negligible-probability abort: tolerated and counted");
    env.assume("execution model of (C): reference/runtime.md — every party supplies a value for every input (junk where it owns nothing); values cross only at Send(s,r) nodes; PRF keys a party was not sent are its own unrelated draws");
    env.note("unspecified_not_compared", serde_json::json!(["data under a zero mask in input-copied cells", "order of key components inside the internal row key"]));
    env.note(
        "known_finding_attribution",
        serde_json::json!({
            SIG_FULL_NULLPOS: "full && !masked && second table's null column not first && error 'Column should contain a tuple'",
            SIG_P3_ZERO_PAD: "three-party content failure && ((union && a private table has non-key columns) || (full && second table has non-key columns))",
            SIG_P3_SHARE_COLUMN: "three-party content failure && ((left && first table public) || (union|full && second table public))",
            SIG_P3_RANDOM_PAD: "three-party content failure && key bits <= 24 && a live row without partner exists",
            SIG_MASKED_CHANCE: "compiled/three-party content failure && masked && a live row with a masked key entry carries the key data of a live row of the other table",
            SIG_NULL_MOVED: "contents equal by header, but the compiled output type orders the columns differently (null column first)",
        }),
    );
    // VH_C19_ONLY=plain|compiled|three-party restricts the run to one part (iteration aid; unset = all)
    let only = std::env::var("VH_C19_ONLY").unwrap_or_default();
    let on = |part: &str| only.is_empty() || only == part;
    let rows_a = env.pick(8, 12);
    if on("plain") {
        env.campaign("plain", RULE_A, env.n(60_000, 2_400_000), move || arb_join_case(rows_a, false), oracle_plain);
        env.enumerate_opt("plain-grid", "every join type x masked/unmasked x a fixed family of small tables (overlap disjoint/partial/full/identical, null rows, null rows repeating live keys, masked keys) x 5 key column types", grid_cases(), true, oracle_plain);
        env.pinned("full-null-column-not-first", &pinned_full_nullpos(), oracle_plain);
    }
    // one compiled case costs 2-5 CPU-seconds (compile_context of a 6-12k node protocol + evaluations)
    env.set_shrink_iters(48);
    let rows_m = env.pick(5, 8);
    if on("compiled") {
        env.campaign("compiled", RULE_B, env.n(160, 4000), move || arb_mpc_case(rows_m), oracle_compiled);
        env.pinned("null-column-moved", &pinned_null_moved(), oracle_compiled);
        env.pinned("masked-key-chance-match", &pinned_masked_chance(), oracle_compiled);
    }
    if on("three-party") {
        env.campaign("three-party", RULE_C, env.n(128, 3000), move || arb_mpc_case(rows_m), oracle_three_party);
        env.pinned("zero-pad-column", &pinned_zero_pad(), oracle_three_party);
        env.pinned("share-column", &pinned_share_column(), oracle_three_party);
        env.pinned("random-pad-null", &pinned_random_pad(), oracle_three_party);
    }
}

pub fn replay(check: &str, case: J) -> Outcome {
    match check {
        "plain" | "plain-grid" => replay_with::<JoinCase, _>(case, oracle_plain),
        "compiled" => replay_with::<MpcCase, _>(case, oracle_compiled),
        "null-column-moved" | "masked-key-chance-match" => replay_with::<MpcCase, _>(case, oracle_compiled),
        "full-null-column-not-first" => replay_with::<JoinCase, _>(case, oracle_plain),
        _ => replay_with::<MpcCase, _>(case, oracle_three_party),
    }
}
