//! C14 — secret sharing reconstructs, with the documented per-party layout.
//!
//! Sub-checks (DESIGN §3 C14):
//!  * `reveal`       (1) share -> reveal round trip for `TypedValue::secret_share/secret_share_reveal`
//!                   and `ReplicatedShares::secret_share_for_local_evaluation/to_tuple/from_tuple/reveal`;
//!                   the sum of the three shares is recomputed by the harness's own type-recursive
//!                   modular adder (`hv::add`), and `reveal` is also fed harness-built share triples.
//!  * `parties`      (2)+(3) `get_local_shares_for_each_party` / `secret_share_for_parties`: party i
//!                   holds shares i and i+1 (cross-party equality), any two parties reconstruct, the
//!                   third slot is junk (differs from the missing share, does not move with the secret),
//!                   and the shares move with the secret by a seed-independent shift.
//!  * `share_vector` the same for `mpc::utils::share_vector` on flat arrays.
//!  * `uniform`      (4) chi-square uniformity and homogeneity of each party's held pair over N seeds.
use crate::core::*;
use crate::gen::*;
use crate::hv::*;
use ciphercore_base::data_types::{array_type, scalar_type, tuple_type, ScalarType, Type};
use ciphercore_base::data_values::Value;
use ciphercore_base::mpc::utils::share_vector;
use ciphercore_base::random::PRNG;
use ciphercore_base::typed_value::TypedValue;
use ciphercore_base::typed_value_operations::TypedValueOperations;
use ciphercore_base::typed_value_secret_shared::replicated_shares::ReplicatedShares;
use ciphercore_base::typed_value_secret_shared::TypedValueSecretShared;
use proptest::prelude::*;
use serde::{Deserialize, Serialize};
use serde_json::Value as J;
use std::sync::Mutex;

pub const RULE: &str = "generated (type: all 11 scalar types, scalars/arrays incl. ragged bit arrays, nested tuples/named tuples/vectors depth<=3; \
secret(s) with boundary emphasis; 16-byte PRNG seeds); non-trivial = secret not all-zero AND (type has >= 2 leaves OR a bit array whose length is not a \
multiple of 8); for share_vector: secret not all-zero and >= 2 elements; statistical batches: every batch counts; distinct = distinct generated case";

/// per-test significance of the chi-square tests. A run performs 12 stat cases x 9 tests per batch:
/// 432 tests (quick, 4 batches) / 4320 tests (thorough, 40 batches), so the run-level false-alarm
/// probability is <= 4.4e-11 nominal; the remaining factor > 20 to 1e-9 is slack for the chi-square
/// approximation of the multinomial far tail (expected cell counts >= 1250; p-values are upper bounds).
const ALPHA: f64 = 1e-14;
const STAT_N: u32 = 20_000;

type R<T> = Result<T, Outcome>;

fn fail<T>(sig: &str, msg: String) -> R<T> {
    Err(Outcome::fail(sig, msg))
}

fn short<T: std::fmt::Debug>(x: &T) -> String {
    let s = format!("{:?}", x);
    if s.len() > 400 {
        format!("{}…", s.chars().take(400).collect::<String>())
    } else {
        s
    }
}

fn prng(seed: &[u8; 16]) -> PRNG {
    PRNG::new(Some(*seed)).expect("PRNG::new with a fixed seed")
}

fn triple(t: &Type) -> Type {
    tuple_type(vec![t.clone(), t.clone(), t.clone()])
}

fn size_bits(t: &Type) -> u64 {
    if is_leaf(t) {
        type_elems(t) as u64 * bits(leaf_st(t)) as u64
    } else {
        children_types(t).iter().map(size_bits).sum()
    }
}

fn has_ragged_bits(t: &Type) -> bool {
    if is_leaf(t) {
        leaf_st(t) == ScalarType::Bit && type_elems(t) % 8 != 0
    } else {
        children_types(t).iter().any(has_ragged_bits)
    }
}

fn leaf_sts(t: &Type, out: &mut Vec<ScalarType>) {
    if is_leaf(t) {
        if !out.contains(&leaf_st(t)) {
            out.push(leaf_st(t));
        }
    } else {
        for c in children_types(t) {
            leaf_sts(&c, out);
        }
    }
}

fn type_labels(t: &Type) -> Vec<String> {
    let mut l = vec![];
    l.push(
        match t {
            Type::Scalar(_) => "top:scalar",
            Type::Array(_, _) => "top:array",
            Type::Tuple(_) => "top:tuple",
            Type::NamedTuple(_) => "top:named-tuple",
            Type::Vector(_, _) => "top:vector",
        }
        .to_string(),
    );
    let mut sts = vec![];
    leaf_sts(t, &mut sts);
    for st in sts {
        l.push(format!("st:{}", st));
    }
    let n = count_leaves(t);
    l.push(format!(
        "leaves:{}",
        match n {
            0 => "0",
            1 => "1",
            2..=4 => "2-4",
            _ => "5+",
        }
    ));
    if has_ragged_bits(t) {
        l.push("ragged-bit-array".into());
    }
    l.push(if size_bits(t) >= 64 { "size>=64bit".into() } else { "size<64bit".into() });
    l
}

fn is_zero(v: &HVal) -> bool {
    flat_elems(v).iter().all(|x| *x == 0)
}

fn nontrivial(t: &Type, v: &HVal) -> bool {
    !is_zero(v) && (count_leaves(t) >= 2 || has_ragged_bits(t))
}

fn mk_tv(t: &Type, v: &HVal) -> R<TypedValue> {
    match TypedValue::new(t.clone(), encode(v, t)) {
        Ok(tv) => Ok(tv),
        Err(e) => fail("harness-tv-new", format!("TypedValue::new rejected a reference-encoded value of type {}: {}", t, e)),
    }
}

/// strict decoding of a value of type `t`, including the "no stray bits" well-formedness of bit arrays
fn dec(what: &str, val: &Value, t: &Type) -> R<HVal> {
    match decode(val, t) {
        Ok(h) => {
            if has_stray_bits(val, t) {
                return fail(
                    "share-stray-bits",
                    format!("{}: a bit array of type {} carries non-zero bits beyond its length", what, t),
                );
            }
            Ok(h)
        }
        Err(e) => fail("share-layout", format!("{}: value does not have the layout of type {}: {}", what, t, e)),
    }
}

fn dec3(what: &str, tv: &TypedValue, t: &Type) -> R<[HVal; 3]> {
    if tv.t != triple(t) {
        return fail("share-type", format!("{}: type {} instead of ({},{},{})", what, tv.t, t, t, t));
    }
    match dec(what, &tv.value, &triple(t))? {
        HVal::V(mut c) if c.len() == 3 => {
            let c2 = c.pop().unwrap();
            let c1 = c.pop().unwrap();
            let c0 = c.pop().unwrap();
            Ok([c0, c1, c2])
        }
        _ => fail("share-layout", format!("{}: not a 3-tuple", what)),
    }
}

fn sum3(s: &[HVal; 3], t: &Type) -> HVal {
    add(&add(&s[0], &s[1], t), &s[2], t)
}

/// runs a ciphercore call; panic or Err is a failure with the given signature
fn call<T, F: FnOnce() -> ciphercore_base::errors::Result<T>>(sig: &str, what: &str, f: F) -> R<T> {
    match crate::util::catch(f) {
        Ok(Ok(v)) => Ok(v),
        Ok(Err(e)) => fail(sig, format!("{} returned Err: {}", what, e)),
        Err(p) => fail(&format!("{}-panic", sig), format!("{} panicked: {}", what, p)),
    }
}

fn unwrap_outcome(r: R<Outcome>) -> Outcome {
    match r {
        Ok(o) => o,
        Err(o) => o,
    }
}

// ---------------------------------------------------------------------------------------------
// types for this property: the shared nested generator plus longer flat arrays (ragged bit arrays
// spanning several bytes, 128-bit arrays)

fn arb_c14_type() -> BoxedStrategy<Type> {
    use ciphercore_base::data_types::{named_tuple_type, vector_type};
    let sub = arb_type(2);
    prop_oneof![
        4 => arb_type(3),
        // containers with >= 2 children (the generic generator yields a single leaf 40% of the time)
        1 => proptest::collection::vec(sub.clone(), 2..4).prop_map(tuple_type),
        1 => proptest::collection::vec(sub.clone(), 2..4).prop_map(|ts| {
            let names = ["x", "y", "z", "w"];
            named_tuple_type(ts.into_iter().enumerate().map(|(i, t)| (names[i].to_string(), t)).collect())
        }),
        1 => (2u64..5, sub).prop_map(|(n, t)| vector_type(n, t)),
        1 => arb_st().prop_map(scalar_type),
        2 => (arb_st(), 1u64..80).prop_map(|(st, n)| array_type(vec![n], st)),
        1 => (1u64..80).prop_map(|n| array_type(vec![n], ScalarType::Bit)),
    ]
    .boxed()
}

// ---------------------------------------------------------------------------------------------
// (1) share -> reveal

#[derive(Clone, Debug, Serialize, Deserialize)]
pub struct RevealCase {
    pub t: Type,
    pub v: HVal,
    /// harness-chosen first two shares for the "reveal of a hand-built triple" part
    pub r0: HVal,
    pub r1: HVal,
    pub seed: [u8; 16],
}

fn arb_reveal_case() -> BoxedStrategy<RevealCase> {
    arb_c14_type()
        .prop_flat_map(|t| {
            let tt = t.clone();
            (arb_hval(&t), arb_hval(&t), arb_hval_uniform(&t), arb_seed16()).prop_map(move |(v, r0, r1, seed)| RevealCase {
                t: tt.clone(),
                v,
                r0,
                r1,
                seed,
            })
        })
        .boxed()
}

fn reveal_inner(c: &RevealCase) -> R<Outcome> {
    let t = &c.t;
    let tv = mk_tv(t, &c.v)?;
    // --- TypedValue::secret_share / secret_share_reveal
    let sh = call("tv-share-err", "TypedValue::secret_share", || tv.secret_share(&mut prng(&c.seed)))?;
    let s = dec3("secret_share", &sh, t)?;
    let got = sum3(&s, t);
    if got != c.v {
        return fail(
            "tv-share-sum",
            format!("secret_share: s0+s1+s2 = {} but the secret is {} (type {})", short(&got), short(&c.v), t),
        );
    }
    let rv = call("tv-reveal-err", "TypedValue::secret_share_reveal", || sh.secret_share_reveal())?;
    if rv.t != *t {
        return fail("tv-reveal-type", format!("secret_share_reveal: type {} instead of {}", rv.t, t));
    }
    let back = dec("secret_share_reveal", &rv.value, t)?;
    if back != c.v {
        return fail(
            "tv-reveal-mismatch",
            format!("secret_share_reveal(secret_share(v)) = {} but v = {} (type {})", short(&back), short(&c.v), t),
        );
    }
    // --- reveal of a harness-built triple (decouples reveal from share)
    let r2 = sub(&sub(&c.v, &c.r0, t), &c.r1, t);
    let hand = HVal::V(vec![c.r0.clone(), c.r1.clone(), r2]);
    let hand_tv = mk_tv(&triple(t), &hand)?;
    let rv = call("tv-reveal-err", "TypedValue::secret_share_reveal (hand-built shares)", || hand_tv.secret_share_reveal())?;
    let back = dec("secret_share_reveal(hand-built)", &rv.value, t)?;
    if rv.t != *t || back != c.v {
        return fail(
            "tv-reveal-hand",
            format!("secret_share_reveal of hand-built shares {} = {} but the secret is {} (type {})", short(&hand), short(&back), short(&c.v), t),
        );
    }
    // --- ReplicatedShares
    let rs = call("rs-share-err", "ReplicatedShares::secret_share_for_local_evaluation", || {
        ReplicatedShares::secret_share_for_local_evaluation(tv.clone(), &mut prng(&c.seed))
    })?;
    if rs.get_type() != *t {
        return fail("rs-type", format!("ReplicatedShares::get_type {} instead of {}", rs.get_type(), t));
    }
    let tup = call("rs-to-tuple-err", "ReplicatedShares::to_tuple", || rs.to_tuple())?;
    let s = dec3("ReplicatedShares::to_tuple", &tup, t)?;
    let got = sum3(&s, t);
    if got != c.v {
        return fail(
            "rs-share-sum",
            format!("secret_share_for_local_evaluation: s0+s1+s2 = {} but the secret is {} (type {})", short(&got), short(&c.v), t),
        );
    }
    let rv = call("rs-reveal-err", "ReplicatedShares::reveal", || rs.reveal())?;
    let back = dec("ReplicatedShares::reveal", &rv.value, t)?;
    if rv.t != *t || back != c.v {
        return fail(
            "rs-reveal-mismatch",
            format!("reveal(secret_share_for_local_evaluation(v)) = {} but v = {} (type {})", short(&back), short(&c.v), t),
        );
    }
    for (what, src) in [("from_tuple(to_tuple)", tup.clone()), ("from_tuple(hand-built)", hand_tv.clone())] {
        let rs2 = call("rs-from-tuple-err", "ReplicatedShares::from_tuple", || ReplicatedShares::from_tuple(src.clone()))?;
        let rv = call("rs-reveal-err", "ReplicatedShares::reveal", || rs2.reveal())?;
        let back = dec(what, &rv.value, t)?;
        if rv.t != *t || back != c.v {
            return fail(
                "rs-reveal-hand",
                format!("reveal({}) = {} but the secret is {} (type {})", what, short(&back), short(&c.v), t),
            );
        }
    }
    Ok(Outcome::pass(nontrivial(t, &c.v)).labels(type_labels(t)))
}

pub fn oracle_reveal(c: &RevealCase) -> Outcome {
    unwrap_outcome(reveal_inner(c))
}

// ---------------------------------------------------------------------------------------------
// (2)+(3) per-party layout

#[derive(Clone, Copy, Debug, Serialize, Deserialize, PartialEq, Eq)]
pub enum Api {
    /// TypedValue::get_local_shares_for_each_party
    Local,
    /// ReplicatedShares::secret_share_for_parties
    Replicated,
    /// mpc::utils::share_vector
    ShareVector,
}

#[derive(Clone, Debug, Serialize, Deserialize)]
pub struct PartyCase {
    pub t: Type,
    pub v: HVal,
    pub w: HVal,
    pub seed: [u8; 16],
    pub seed_b: [u8; 16],
}

/// adds 1 to the first element (if any): used to make the second secret differ from the first
fn bump(v: &HVal, t: &Type) -> HVal {
    fn go(v: &mut HVal, t: &Type, done: &mut bool) {
        if *done {
            return;
        }
        match v {
            HVal::A(xs) => {
                if let Some(x) = xs.first_mut() {
                    *x = x.wrapping_add(1) & mask(leaf_st(t));
                    *done = true;
                }
            }
            HVal::V(cs) => {
                let ts = children_types(t);
                for (c, ct) in cs.iter_mut().zip(ts.iter()) {
                    go(c, ct, done);
                }
            }
        }
    }
    let mut out = v.clone();
    let mut done = false;
    go(&mut out, t, &mut done);
    out
}

fn arb_party_case() -> BoxedStrategy<PartyCase> {
    arb_c14_type()
        .prop_flat_map(|t| {
            let tt = t.clone();
            (arb_hval(&t), arb_hval(&t), arb_seed16(), arb_seed16()).prop_map(move |(v, w, seed, seed_b)| {
                let w = if w == v { bump(&w, &tt) } else { w };
                PartyCase {
                    t: tt.clone(),
                    v,
                    w,
                    seed,
                    seed_b,
                }
            })
        })
        .boxed()
}

/// what one party received: three slots. `junk_raw` keeps the third-slot bytes for share_vector, whose
/// junk slot is not required to be a value of the element type.
#[derive(Clone, Debug, PartialEq, Eq)]
struct Slots {
    s: [Option<HVal>; 3],
    raw: [Vec<u8>; 3],
}

fn raw_bytes(v: &Value) -> Vec<u8> {
    // canonical byte image of a (possibly nested) value, used only for junk comparison
    v.access(
        |b| Ok(b.to_vec()),
        |vs| {
            let mut out = vec![0xEEu8];
            for x in vs {
                out.extend(raw_bytes(x));
                out.push(0xEF);
            }
            Ok(out)
        },
    )
    .unwrap_or_default()
}

/// the per-party form of the sharing of (t, v) under `seed`, decoded; slot k of party i is `out[i].s[k]`
fn parties_typed(api: Api, t: &Type, v: &HVal, seed: &[u8; 16]) -> R<Vec<Slots>> {
    let tv = mk_tv(t, v)?;
    let per_party: Vec<TypedValue> = match api {
        Api::Local => call("party-share-err", "TypedValue::get_local_shares_for_each_party", || {
            tv.get_local_shares_for_each_party(&mut prng(seed))
        })?,
        Api::Replicated => {
            let rs = call("party-share-err", "ReplicatedShares::secret_share_for_parties", || {
                ReplicatedShares::secret_share_for_parties(tv.clone(), &mut prng(seed))
            })?;
            let mut out = vec![];
            for (i, r) in rs.iter().enumerate() {
                if r.get_type() != *t {
                    return fail("rs-type", format!("party {}: ReplicatedShares::get_type {} instead of {}", i, r.get_type(), t));
                }
                out.push(call("rs-to-tuple-err", "ReplicatedShares::to_tuple", || r.to_tuple())?);
            }
            out
        }
        Api::ShareVector => unreachable!(),
    };
    if per_party.len() != 3 {
        return fail("party-count", format!("{:?}: {} per-party values instead of 3", api, per_party.len()));
    }
    let mut out = vec![];
    for (i, p) in per_party.iter().enumerate() {
        let [a, b, c] = dec3(&format!("{:?} party {}", api, i), p, t)?;
        let subs = p.value.to_vector().unwrap_or_default();
        let raw = [
            subs.get(0).map(raw_bytes).unwrap_or_default(),
            subs.get(1).map(raw_bytes).unwrap_or_default(),
            subs.get(2).map(raw_bytes).unwrap_or_default(),
        ];
        out.push(Slots {
            s: [Some(a), Some(b), Some(c)],
            raw,
        });
    }
    Ok(out)
}

/// the common part of (2)+(3) once the per-party slots are decoded. `p`: secret v under seed A,
/// `q`: secret w under seed A, `r`: v under seed B, `s`: w under seed B.
struct Quad<'a> {
    api: Api,
    t: &'a Type,
    v: &'a HVal,
    w: &'a HVal,
    p: &'a [Slots],
    q: &'a [Slots],
    r: &'a [Slots],
    s: &'a [Slots],
    /// total number of junk bits (junk must differ from the missing share only when >= 64)
    junk_bits: u64,
}

fn true_shares(api: Api, t: &Type, p: &[Slots], secret: &HVal) -> R<[HVal; 3]> {
    // party i holds slots i and i+1: slot k is held by parties k and k-1
    let mut shares = vec![];
    for k in 0..3 {
        let a = p[k].s[k].clone().unwrap();
        let b = p[(k + 2) % 3].s[k].clone().unwrap();
        if a != b {
            return fail(
                "party-slot-mismatch",
                format!(
                    "{:?}: share {} as held by party {} ({}) differs from the one held by party {} ({}); type {}",
                    api,
                    k,
                    k,
                    short(&a),
                    (k + 2) % 3,
                    short(&b),
                    t
                ),
            );
        }
        shares.push(a);
    }
    let s = [shares[0].clone(), shares[1].clone(), shares[2].clone()];
    let got = sum3(&s, t);
    if got != *secret {
        return fail(
            "party-share-sum",
            format!("{:?}: s0+s1+s2 = {} but the secret is {} (type {})", api, short(&got), short(secret), t),
        );
    }
    Ok(s)
}

fn check_quad(qd: &Quad) -> R<Vec<String>> {
    let (api, t) = (qd.api, qd.t);
    let mut labels = vec![format!("api:{:?}", api)];
    let sp = true_shares(api, t, qd.p, qd.v)?;
    let sq = true_shares(api, t, qd.q, qd.w)?;
    let sr = true_shares(api, t, qd.r, qd.v)?;
    let ss = true_shares(api, t, qd.s, qd.w)?;
    // any two parties reconstruct from the slots they hold (every way of choosing the holder)
    for i in 0..3usize {
        for j in (i + 1)..3usize {
            for choice in 0..8u32 {
                let mut parts = vec![];
                for k in 0..3usize {
                    let holders: Vec<usize> = [k, (k + 2) % 3].into_iter().filter(|h| *h == i || *h == j).collect();
                    let h = holders[(choice >> k) as usize % holders.len()];
                    parts.push(qd.p[h].s[k].clone().unwrap());
                }
                let got = add(&add(&parts[0], &parts[1], t), &parts[2], t);
                if got != *qd.v {
                    return fail(
                        "two-party-reconstruct",
                        format!("{:?}: parties {} and {} reconstruct {} instead of {} (type {})", api, i, j, short(&got), short(qd.v), t),
                    );
                }
            }
        }
    }
    // junk slot of party i is slot i+2
    for i in 0..3usize {
        let k = (i + 2) % 3;
        let holder = k; // party k holds the true share k
        if qd.junk_bits >= 64 && qd.p[i].raw[k] == qd.p[holder].raw[k] {
            return fail(
                "junk-equals-share",
                format!("{:?}: slot {} of party {} (which must not know share {}) equals the true share; type {}", api, k, i, k, t),
            );
        }
        if qd.p[i].raw[k] != qd.q[i].raw[k] {
            return fail(
                "junk-depends-on-secret",
                format!(
                    "{:?}: under the same seed the junk slot {} of party {} changes with the secret ({} -> {}); type {}",
                    api,
                    k,
                    i,
                    short(qd.v),
                    short(qd.w),
                    t
                ),
            );
        }
    }
    labels.push(if qd.junk_bits >= 64 { "junk-vs-share:compared".into() } else { "junk-vs-share:too-small".into() });
    // (3) the shares move with the secret by a shift that does not depend on the seed, i.e. every
    // party's pair is a secret-independent draw shifted by a function of the secret
    let mut absorbing = vec![];
    for k in 0..3usize {
        let da = sub(&sp[k], &sq[k], t);
        let db = sub(&sr[k], &ss[k], t);
        if da != db {
            return fail(
                "share-shift-depends-on-seed",
                format!(
                    "{:?}: share {} moves by {} under seed A but by {} under seed B when the secret goes {} -> {}; type {}",
                    api,
                    k,
                    short(&da),
                    short(&db),
                    short(qd.v),
                    short(qd.w),
                    t
                ),
            );
        }
        if !is_zero(&da) {
            absorbing.push(k);
        }
    }
    if qd.v != qd.w {
        // the documented mechanism: s0, s1 are the draws, s2 = v - s0 - s1
        labels.push(if absorbing == vec![2] { "mechanism:s2-absorbs".into() } else { format!("mechanism:other{:?}", absorbing) });
    } else {
        labels.push("secrets-equal".into());
    }
    Ok(labels)
}

fn parties_inner(c: &PartyCase) -> R<Outcome> {
    let t = &c.t;
    let mut labels = type_labels(t);
    // reference: the complete sharing under the same seed (informational label only: the property does
    // not say that the two entry points consume the generator identically)
    let complete = {
        let tv = mk_tv(t, &c.v)?;
        let sh = call("tv-share-err", "TypedValue::secret_share", || tv.secret_share(&mut prng(&c.seed)))?;
        dec3("secret_share", &sh, t)?
    };
    for api in [Api::Local, Api::Replicated] {
        let p = parties_typed(api, t, &c.v, &c.seed)?;
        let q = parties_typed(api, t, &c.w, &c.seed)?;
        let r = parties_typed(api, t, &c.v, &c.seed_b)?;
        let s = parties_typed(api, t, &c.w, &c.seed_b)?;
        let qd = Quad {
            api,
            t,
            v: &c.v,
            w: &c.w,
            p: &p,
            q: &q,
            r: &r,
            s: &s,
            junk_bits: size_bits(t),
        };
        labels.extend(check_quad(&qd)?);
        let same = (0..3).all(|k| p[k].s[k].as_ref() == Some(&complete[k]));
        labels.push(format!("same-seed-equals-secret_share:{}", same));
    }
    Ok(Outcome::pass(nontrivial(t, &c.v)).labels(labels))
}

pub fn oracle_parties(c: &PartyCase) -> Outcome {
    unwrap_outcome(parties_inner(c))
}

// ---------------------------------------------------------------------------------------------
// share_vector

#[derive(Clone, Debug, Serialize, Deserialize)]
pub struct VecCase {
    pub st: ScalarType,
    pub v: Vec<u128>,
    pub w: Vec<u128>,
    pub seed: [u8; 16],
    pub seed_b: [u8; 16],
}

fn arb_vec_case() -> BoxedStrategy<VecCase> {
    // BIT is outside share_vector's byte-granular buffer arithmetic (clean Err for length >= 2): kept at
    // low weight so that the rejection stays visible in evidence without wasting the budget
    prop_oneof![
        40 => (arb_st_nonbit(), 1usize..48),
        1 => (Just(ScalarType::Bit), 1usize..4),
    ]
        .prop_flat_map(|(st, n)| {
            (
                proptest::collection::vec(arb_elem(st), n),
                proptest::collection::vec(arb_elem(st), n),
                arb_seed16(),
                arb_seed16(),
            )
                .prop_map(move |(v, mut w, seed, seed_b)| {
                    if w == v {
                        w[0] = w[0].wrapping_add(1) & mask(st);
                    }
                    VecCase { st, v, w, seed, seed_b }
                })
        })
        .boxed()
}

fn parties_vec(st: ScalarType, data: &[u128], seed: &[u8; 16]) -> R<Vec<Slots>> {
    let t = array_type(vec![data.len() as u64], st);
    let vals: Vec<Value> = if is_signed(st) {
        let xs: Vec<i128> = data.iter().map(|x| to_signed(*x, st)).collect();
        call("party-share-err", "share_vector", || share_vector(&mut prng(seed), &xs, st))?
    } else {
        call("party-share-err", "share_vector", || share_vector(&mut prng(seed), data, st))?
    };
    if vals.len() != 3 {
        return fail("party-count", format!("share_vector: {} per-party values instead of 3", vals.len()));
    }
    let mut out = vec![];
    for (i, p) in vals.iter().enumerate() {
        let subs = match p.to_vector() {
            Ok(s) if s.len() == 3 => s,
            _ => return fail("share-layout", format!("share_vector party {}: not a vector of three values", i)),
        };
        let mut s: [Option<HVal>; 3] = [None, None, None];
        for k in 0..3usize {
            if k == (i + 2) % 3 {
                // junk slot: only has to be a byte value
                if subs[k].access_bytes(|_| Ok(())).is_err() {
                    return fail("share-layout", format!("share_vector party {}: junk slot {} is not a byte value", i, k));
                }
                continue;
            }
            s[k] = Some(dec(&format!("share_vector party {} slot {}", i, k), &subs[k], &t)?);
        }
        // fill junk with a placeholder so that the shared code can index held slots only
        out.push(Slots {
            s,
            raw: [raw_bytes(&subs[0]), raw_bytes(&subs[1]), raw_bytes(&subs[2])],
        });
    }
    Ok(out)
}

fn vec_inner(c: &VecCase) -> R<Outcome> {
    let n = c.v.len();
    let t = array_type(vec![n as u64], c.st);
    let v = HVal::A(c.v.clone());
    let w = HVal::A(c.w.clone());
    let p = match parties_vec(c.st, &c.v, &c.seed) {
        Ok(p) => p,
        // share_vector sizes its buffers per whole byte (scalar_size_in_bytes): bit arrays of length
        // >= 2 are rejected with a clean Err ("Type and value mismatch"). A rejection produces no
        // shares, so there is nothing to reconstruct: counted, not judged.
        Err(o) if c.st == ScalarType::Bit && o.sig == "party-share-err" => {
            return Ok(Outcome::skip("share_vector-rejects-bit-arrays").label(format!("bit-len:{}", if n == 1 { "1" } else { ">=2" })));
        }
        Err(o) => return Err(o),
    };
    let q = parties_vec(c.st, &c.w, &c.seed)?;
    let r = parties_vec(c.st, &c.v, &c.seed_b)?;
    let s = parties_vec(c.st, &c.w, &c.seed_b)?;
    let qd = Quad {
        api: Api::ShareVector,
        t: &t,
        v: &v,
        w: &w,
        p: &p,
        q: &q,
        r: &r,
        s: &s,
        junk_bits: size_bits(&t),
    };
    let mut labels = check_quad(&qd)?;
    labels.push(format!("st:{}", c.st));
    labels.push(format!(
        "len:{}",
        match n {
            1 => "1",
            2..=8 => "2-8",
            _ => "9+",
        }
    ));
    Ok(Outcome::pass(!is_zero(&v) && n >= 2).labels(labels))
}

pub fn oracle_vec(c: &VecCase) -> Outcome {
    unwrap_outcome(vec_inner(c))
}

// ---------------------------------------------------------------------------------------------
// (4) statistical uniformity of each party's pair

#[derive(Clone, Copy, Debug, Serialize, Deserialize, PartialEq, Eq)]
pub enum StatKind {
    /// scalar BIT: each share is one bit, pair = 4 cells
    Bit1,
    /// array [2] of BIT: each share is two bits, pair = 16 cells
    Bit2,
    /// tuple (BIT, BIT): two leaves of one bit each, pair = 16 cells
    TupBit2,
    /// scalar UINT8 projected on its two low bits, pair = 16 cells
    U8Lo2,
    /// scalar INT16 projected on its two high bits, pair = 16 cells
    I16Hi2,
}

#[derive(Clone, Debug, Serialize, Deserialize)]
pub struct StatCase {
    pub kind: StatKind,
    pub api: Api,
    pub a: HVal,
    pub b: HVal,
    pub n: u32,
    pub base: [u8; 16],
}

fn stat_type(k: StatKind) -> Type {
    match k {
        StatKind::Bit1 => scalar_type(ScalarType::Bit),
        StatKind::Bit2 => array_type(vec![2], ScalarType::Bit),
        StatKind::TupBit2 => tuple_type(vec![scalar_type(ScalarType::Bit), scalar_type(ScalarType::Bit)]),
        StatKind::U8Lo2 => scalar_type(ScalarType::U8),
        StatKind::I16Hi2 => scalar_type(ScalarType::I16),
    }
}

/// projection of one share onto 0..m
fn stat_proj(k: StatKind, h: &HVal) -> usize {
    let e = flat_elems(h);
    match k {
        StatKind::Bit1 => e[0] as usize,
        StatKind::Bit2 | StatKind::TupBit2 => (e[0] + 2 * e[1]) as usize,
        StatKind::U8Lo2 => (e[0] & 3) as usize,
        StatKind::I16Hi2 => ((e[0] >> 14) & 3) as usize,
    }
}

fn stat_m(k: StatKind) -> usize {
    if k == StatKind::Bit1 {
        2
    } else {
        4
    }
}

fn derive_seed(base: &[u8; 16], ctr: u64) -> [u8; 16] {
    let mut lo = u64::from_le_bytes(base[..8].try_into().unwrap());
    let hi = u64::from_le_bytes(base[8..].try_into().unwrap());
    lo ^= hi.rotate_left(29);
    let mut x = lo.wrapping_add(ctr.wrapping_mul(0x9E37_79B9_7F4A_7C15));
    let mut out = [0u8; 16];
    for chunk in out.chunks_mut(8) {
        x = x.wrapping_add(0x9E37_79B9_7F4A_7C15);
        let mut z = x;
        z = (z ^ (z >> 30)).wrapping_mul(0xBF58_476D_1CE4_E5B9);
        z = (z ^ (z >> 27)).wrapping_mul(0x94D0_49BB_1331_11EB);
        z ^= z >> 31;
        chunk.copy_from_slice(&z.to_le_bytes());
    }
    // the counter in clear keeps the derived seeds pairwise distinct
    out[8..].copy_from_slice(&(hi ^ ctr).to_le_bytes());
    out
}

/// natural log of an UPPER bound on the chi-square survival function for odd df:
/// Q(df/2, x/2) = erfc(sqrt(x/2)) + sqrt(2x/pi) e^{-x/2} sum_{j=0}^{(df-3)/2} x^j/(2j+1)!!,
/// with erfc(z) <= e^{-z^2}/(z sqrt(pi)). An upper bound on the p-value can only suppress alarms.
fn ln_chi2_sf_upper(x: f64, df: usize) -> f64 {
    assert!(df % 2 == 1 && df >= 3);
    if x <= df as f64 {
        return 0.0;
    }
    let pi = std::f64::consts::PI;
    let mut sum = 0.0;
    let mut term = 1.0;
    for j in 0..=((df - 3) / 2) {
        if j > 0 {
            term *= x / (2.0 * j as f64 + 1.0);
        }
        sum += term;
    }
    let inner = 1.0 / ((x / 2.0).sqrt() * pi.sqrt()) + (2.0 * x / pi).sqrt() * sum;
    (-x / 2.0 + inner.ln()).min(0.0)
}

pub struct StatSummary {
    pub worst_ln_p: f64,
    pub worst_what: String,
}

fn stat_inner(c: &StatCase, summary: Option<&Mutex<StatSummary>>) -> R<Outcome> {
    let k = c.kind;
    let t = stat_type(k);
    let m = stat_m(k);
    let cells = m * m;
    let df = cells - 1;
    let n = c.n as u64;
    // hist[secret][party][cell]
    let mut hist = vec![vec![vec![0u64; cells]; 3]; 2];
    for (si, secret) in [&c.a, &c.b].into_iter().enumerate() {
        for j in 0..n {
            let seed = derive_seed(&c.base, 2 * j + si as u64);
            let p = match c.api {
                Api::ShareVector => {
                    let st = leaf_st(&t);
                    parties_vec(st, &flat_elems(secret), &seed)?
                }
                api => parties_typed(api, &t, secret, &seed)?,
            };
            for i in 0..3usize {
                let x = stat_proj(k, p[i].s[i].as_ref().unwrap());
                let y = stat_proj(k, p[i].s[(i + 1) % 3].as_ref().unwrap());
                hist[si][i][x + m * y] += 1;
            }
        }
    }
    let ln_alpha = ALPHA.ln();
    let mut worst = (0.0f64, String::new());
    let mut consider = |ln_p: f64, what: String| {
        if ln_p < worst.0 {
            worst = (ln_p, what);
        }
    };
    for i in 0..3usize {
        // uniformity for each secret
        for si in 0..2usize {
            let e = n as f64 / cells as f64;
            let x: f64 = hist[si][i].iter().map(|o| (*o as f64 - e) * (*o as f64 - e) / e).sum();
            let ln_p = ln_chi2_sf_upper(x, df);
            consider(ln_p, format!("uniformity party {} secret {}: chi2={:.1} df={}", i, si, x, df));
            if ln_p < ln_alpha {
                return fail(
                    "pair-not-uniform",
                    format!(
                        "{:?} {:?}: the pair (share {}, share {}) held by party {} is not uniform over {} seeds for secret {:?}: chi2={:.1} df={} (p < {:.1e}); histogram {:?}",
                        c.api,
                        k,
                        i,
                        (i + 1) % 3,
                        i,
                        n,
                        if si == 0 { &c.a } else { &c.b },
                        x,
                        df,
                        ln_p.exp(),
                        hist[si][i]
                    ),
                );
            }
        }
        // homogeneity between the two secrets (independent seeds, equal sample sizes)
        let x: f64 = (0..cells)
            .map(|cidx| {
                let (a, b) = (hist[0][i][cidx] as f64, hist[1][i][cidx] as f64);
                if a + b > 0.0 {
                    (a - b) * (a - b) / (a + b)
                } else {
                    0.0
                }
            })
            .sum();
        let ln_p = ln_chi2_sf_upper(x, df);
        consider(ln_p, format!("homogeneity party {}: chi2={:.1} df={}", i, x, df));
        if ln_p < ln_alpha {
            return fail(
                "pair-depends-on-secret",
                format!(
                    "{:?} {:?}: the distribution of the pair held by party {} differs between secrets {:?} and {:?}: chi2={:.1} df={} (p < {:.1e}); histograms {:?} vs {:?}",
                    c.api,
                    k,
                    i,
                    c.a,
                    c.b,
                    x,
                    df,
                    ln_p.exp(),
                    hist[0][i],
                    hist[1][i]
                ),
            );
        }
    }
    if let Some(s) = summary {
        let mut g = s.lock().unwrap();
        if worst.0 < g.worst_ln_p {
            g.worst_ln_p = worst.0;
            g.worst_what = format!("{:?}/{:?}: {}", c.api, k, worst.1);
        }
    }
    Ok(Outcome::pass(true)
        .label(format!("kind:{:?}", k))
        .label(format!("api:{:?}", c.api))
        .label(format!("tests:{}", 9))
        .label(format!(
            "min-p:{}",
            if worst.0 > (1e-3f64).ln() {
                ">1e-3"
            } else if worst.0 > (1e-6f64).ln() {
                "1e-6..1e-3"
            } else {
                "<1e-6"
            }
        )))
}

pub fn oracle_stat(c: &StatCase) -> Outcome {
    unwrap_outcome(stat_inner(c, None))
}

fn arb_stat_secret(k: StatKind) -> BoxedStrategy<(HVal, HVal)> {
    match k {
        StatKind::Bit1 => Just((HVal::A(vec![0]), HVal::A(vec![1]))).boxed(),
        StatKind::Bit2 => (0u128..4, 1u128..4)
            .prop_map(|(a, d)| {
                let b = a ^ d;
                (HVal::A(vec![a & 1, a >> 1]), HVal::A(vec![b & 1, b >> 1]))
            })
            .boxed(),
        StatKind::TupBit2 => (0u128..4, 1u128..4)
            .prop_map(|(a, d)| {
                let b = a ^ d;
                (
                    HVal::V(vec![HVal::A(vec![a & 1]), HVal::A(vec![a >> 1])]),
                    HVal::V(vec![HVal::A(vec![b & 1]), HVal::A(vec![b >> 1])]),
                )
            })
            .boxed(),
        StatKind::U8Lo2 => (0u128..256, 1u128..256)
            .prop_map(|(a, d)| (HVal::A(vec![a]), HVal::A(vec![(a + d) & 0xFF])))
            .boxed(),
        StatKind::I16Hi2 => (0u128..65536, 1u128..65536)
            .prop_map(|(a, d)| (HVal::A(vec![a]), HVal::A(vec![(a + d) & 0xFFFF])))
            .boxed(),
    }
}

fn stat_items(env: &Env, batches: u64) -> Vec<StatCase> {
    let mut items = vec![];
    for batch in 0..batches {
        for k in [StatKind::Bit1, StatKind::Bit2, StatKind::TupBit2, StatKind::U8Lo2, StatKind::I16Hi2] {
            let apis: &[Api] = match k {
                StatKind::U8Lo2 | StatKind::I16Hi2 => &[Api::Local, Api::Replicated, Api::ShareVector],
                _ => &[Api::Local, Api::Replicated],
            };
            for api in apis {
                let idx = items.len() as u64;
                let ((a, b), base) = sample_one(
                    &(arb_stat_secret(k), arb_seed16()),
                    env.seed ^ (0xC14u64 << 32) ^ (batch << 16) ^ idx,
                );
                items.push(StatCase {
                    kind: k,
                    api: *api,
                    a,
                    b,
                    n: STAT_N,
                    base,
                });
            }
        }
    }
    items
}

// ---------------------------------------------------------------------------------------------

pub fn run(env: &Env) {
    env.assume("AES-128-CTR output of ciphercore's PRNG under distinct seeds is treated as independent uniform bytes (cryptographic quality is assumed, not tested)");
    env.assume("(3) is checked in the form 'under a fixed seed every share moves with the secret by a shift that does not depend on the seed' (implied by the documented mechanism s0,s1 = draws, s2 = v-s0-s1; the label mechanism:* records which share absorbs the secret)");
    env.assume("junk slot: must differ from the missing share only for types of >= 64 bits (collision probability <= 2^-64 per case); must be identical for two secrets shared under the same seed");
    env.assume("share_vector: a clean Err for BIT data (its buffer arithmetic is per whole byte) is counted as a skip, not judged; its junk slot is only required to be a byte value");
    env.note(
        "caps",
        serde_json::json!({"nested leaf arrays": "<= 24 elements, rank <= 3", "flat arrays": "<= 79 elements", "depth": 3, "share_vector length": "1..47"}),
    );
    let batches = env.n(4, 40);
    let items = stat_items(env, batches);
    let n_items = items.len();
    let summary = Mutex::new(StatSummary {
        worst_ln_p: 0.0,
        worst_what: String::new(),
    });
    env.enumerate_opt(
        "uniform",
        "per (1-/2-bit type or 2-bit projection, api, two distinct secrets): N=20000 independent seeds per secret; for each party the joint histogram of its two held shares: chi-square uniformity (both secrets) and two-sample homogeneity; alarm iff upper bound on p < 1e-14",
        items,
        false,
        |c| unwrap_outcome(stat_inner(c, Some(&summary))),
    );
    env.campaign(
        "reveal",
        "secret_share -> harness sum of shares == v and secret_share_reveal == v; reveal of harness-built share triples; same through ReplicatedShares (local evaluation, to_tuple/from_tuple, reveal); every share strictly decodes as a value of the type without stray bits",
        env.n(450_000, 9_000_000),
        arb_reveal_case,
        oracle_reveal,
    );
    env.campaign(
        "parties",
        "get_local_shares_for_each_party and ReplicatedShares::secret_share_for_parties under (seed A, seed B) x (secret v, secret w): cross-party slot equality (party i holds shares i, i+1), sum == secret, every two parties reconstruct, junk slot != missing share (>= 64-bit types) and independent of the secret, seed-independent shift of shares",
        env.n(180_000, 3_600_000),
        arb_party_case,
        oracle_parties,
    );
    env.campaign(
        "share_vector",
        "mpc::utils::share_vector on flat arrays of every scalar type (BIT rejections skipped): same layout/reconstruction/junk/shift checks",
        env.n(150_000, 3_000_000),
        arb_vec_case,
        oracle_vec,
    );
    let s = summary.lock().unwrap();
    env.note(
        "statistics",
        serde_json::json!({
            "batches": batches,
            "stat_cases": n_items,
            "tests": n_items * 9,
            "seeds_per_secret": STAT_N,
            "alpha_per_test": ALPHA,
            "run_level_false_alarm_bound": ALPHA * (n_items * 9) as f64,
            "smallest_p_upper_bound_seen": s.worst_ln_p.exp(),
            "where": s.worst_what,
        }),
    );
}

pub fn replay(check: &str, case: J) -> Outcome {
    match check {
        "reveal" => replay_with::<RevealCase, _>(case, oracle_reveal),
        "parties" => replay_with::<PartyCase, _>(case, oracle_parties),
        "share_vector" => replay_with::<VecCase, _>(case, oracle_vec),
        _ => replay_with::<StatCase, _>(case, oracle_stat),
    }
}
