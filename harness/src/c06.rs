//! C06 — graph optimisation preserves meaning and interface.
//!
//! A case is a graph recipe (1-3 fully inlined graphs, built through the public builder by
//! `graphgen::build`) plus *decorations* (node names, `Private` annotations anywhere except on
//! Constant nodes, `Send(s,r)` annotations on NOP nodes) which are applied while the built context
//! is copied node by node (through `Graph::add_node`) into a fresh context, because a finalized
//! context cannot be annotated. The decorated context is given to `optimize_context`; both contexts
//! are then evaluated node by node (`walk::walk_graph`) with the tape evaluator (`tape_eval`), so
//! that a randomising node of the result draws exactly what its pre-image drew.
use crate::core::*;
use crate::gen::pick;
use crate::graphgen::*;
use crate::hv::*;
use crate::tape_eval::{is_randomizing, NodeId, TapeEvaluator, NO_PREIMAGE};
use crate::util::catch;
use crate::walk::{sends_of, walk_graph};
use ciphercore_base::custom_ops::MappedContext;
use ciphercore_base::data_types::Type;
use ciphercore_base::data_values::Value;
use ciphercore_base::evaluators::simple_evaluator::SimpleEvaluator;
use ciphercore_base::evaluators::Evaluator;
use ciphercore_base::graphs::{create_context, Context, Graph, Node, NodeAnnotation, Operation};
use ciphercore_base::optimizer::optimize::optimize_context;
use proptest::prelude::*;
use serde::{Deserialize, Serialize};
use serde_json::Value as J;
use std::collections::{HashMap, HashSet};

pub const RULE: &str = "generated fully inlined contexts of 1-3 graphs (constants incl. Zeros/Ones and 128-bit, constant sub-expressions, tuple / named tuple / vector / zip / ArrayToVector constructors followed by getters with constant in-range indices, A2B.B2A and B2A.A2B chains with equal and unequal scalar types, duplicated nodes, dangling nodes, unused inputs, named nodes, Private annotations on non-constant nodes, Send(s,r) on NOP nodes, Random / RandomPermutation / PRF / PermutationFromPRF with Random-derived keys) -> optimize_context; per graph and for 3 input vectors with extremes, with randomness replayed by node identity (tape_eval): (1) output value equal, (2) value and type of every original node the mapping keeps equal to those of its image, (3) sequence of (Input type, name) unchanged, (4) Send markers: kept (same s,r) on every mapped node, on every argument of a surviving user and on the output; none invented or re-addressed, (5) every recorded node type equals the type re-inferred through add_node in a fresh context, and the serde_json round trip of the result loads, is deep_equal, has equal node types and evaluates to the same output; \
non-trivial = the optimiser removed or replaced >= 1 node (node count changed or a mapped pair has different operations) AND the context has >= 1 of {getter-on-constructor, A2B/B2A chain, foldable constant expression, duplicated node, dangling node} AND at least one graph was evaluated and compared; distinct = distinct case";

// ---------------------------------------------------------------------------------------------
// case

/// decoration kinds
pub const D_NAME: u8 = 0; // name on any node
pub const D_NAME_INPUT: u8 = 1; // name on an Input node
pub const D_PRIVATE: u8 = 2; // Private on any non-Constant node
pub const D_SEND: u8 = 3; // Send(s, r) on a NOP node
pub const D_PRIVATE_META: u8 = 4; // Private on a getter / constructor / conversion / NOP node
pub const D_SEND_ANY: u8 = 6; // Send(s, r) on any non-constant, non-input node (getters, conversions, arithmetic ...)
pub const D_SEND_WRAP: u8 = 5; // insert NOP + Send(s, r) after a node; its users then use the NOP

#[derive(Clone, Debug, Serialize, Deserialize, PartialEq, Eq, Hash)]
pub struct Deco {
    pub kind: u8,
    /// graph pick
    pub g: u16,
    /// node pick among the candidates of the kind (monotone)
    pub n: u16,
    pub s: u8,
    pub r: u8,
    /// prefer nodes the output depends on (when there is one of the wanted kind)
    pub live: bool,
}

#[derive(Clone, Debug, Serialize, Deserialize)]
pub struct Case {
    pub recipe: Recipe,
    pub decos: Vec<Deco>,
    /// seed of the evaluator handed to optimize_context (constant folding)
    pub opt_seed: [u8; 16],
    /// tape seed of the replayed randomness
    pub tape: [u8; 16],
    /// seed of the input values
    pub in_seed: u64,
}

// ---------------------------------------------------------------------------------------------
// decorated copy of a built context

pub struct DecoStats {
    pub names: usize,
    pub input_names: usize,
    pub private: usize,
    pub sends: usize,
}

fn is_meta_op(op: &Operation) -> bool {
    matches!(
        op,
        Operation::CreateTuple
            | Operation::CreateNamedTuple(_)
            | Operation::CreateVector(_)
            | Operation::Zip
            | Operation::ArrayToVector
            | Operation::TupleGet(_)
            | Operation::NamedTupleGet(_)
            | Operation::VectorGet
            | Operation::A2B
            | Operation::B2A(_)
            | Operation::NOP
    )
}

/// Copies `src` (fully inlined, finalized) into a fresh context through the public builder and
/// applies the decorations before finalizing.
pub fn decorate(src: &Context, decos: &[Deco]) -> Result<(Context, DecoStats), String> {
    let e = |x: ciphercore_base::errors::Error| x.to_string();
    let ctx = create_context().map_err(e)?;
    let main = src.get_main_graph().map_err(e)?;
    let src_graphs = src.get_graphs();
    // NOP nodes carrying Send(s, r) inserted after a node (all later users and the output then
    // refer to the NOP, the way compiled graphs send a computed value): (graph, node id) -> sends
    let mut wraps: HashMap<(usize, u64), Vec<(u64, u64)>> = HashMap::new();
    for d in decos.iter().filter(|d| d.kind == D_SEND_WRAP) {
        let gi = pick(d.g, src_graphs.len());
        let live = live_set(&src_graphs[gi]);
        let mut cands: Vec<u64> = src_graphs[gi].get_nodes().iter().map(|n| n.get_id()).collect();
        if d.live {
            cands.retain(|i| live.contains(i));
        }
        let id = cands[cands.len() - 1 - pick(d.n, cands.len())];
        let s = (d.s % 3) as u64;
        let r = (s + 1 + (d.r % 2) as u64) % 3;
        let e = wraps.entry((gi, id)).or_default();
        if e.len() < 2 && !e.contains(&(s, r)) {
            e.push((s, r));
        }
    }
    let mut st = DecoStats { names: 0, input_names: 0, private: 0, sends: 0 };
    let mut copies: Vec<(Graph, Vec<Node>)> = vec![];
    let mut lives: Vec<HashSet<u64>> = vec![];
    for (gi, g) in src_graphs.iter().enumerate() {
        let ng = ctx.create_graph().map_err(e)?;
        let mut map: Vec<Node> = vec![];
        for n in g.get_nodes() {
            if !n.get_graph_dependencies().is_empty() {
                return Err("recipe produced a Call/Iterate node".to_string());
            }
            let deps: Vec<Node> = n.get_node_dependencies().iter().map(|d| map[d.get_id() as usize].clone()).collect();
            let mut nn = ng.add_node(deps, vec![], n.get_operation()).map_err(e)?;
            if let Some(sends) = wraps.get(&(gi, n.get_id())) {
                nn = nn.nop().map_err(e)?;
                for (s, r) in sends {
                    nn.add_annotation(NodeAnnotation::Send(*s, *r)).map_err(e)?;
                    st.sends += 1;
                }
            }
            map.push(nn);
        }
        let out = g.get_output_node().map_err(e)?;
        ng.set_output_node(map[out.get_id() as usize].clone()).map_err(e)?;
        lives.push(live_set(&ng));
        copies.push((ng.clone(), ng.get_nodes()));
    }
    let mut named: HashSet<NodeId> = HashSet::new();
    for (i, d) in decos.iter().enumerate() {
        if d.kind == D_SEND_WRAP {
            continue;
        }
        let gi = pick(d.g, copies.len());
        let (_, nodes) = &copies[gi];
        let mut cands: Vec<&Node> = nodes
            .iter()
            .filter(|n| {
                let op = n.get_operation();
                match d.kind {
                    D_NAME => true,
                    D_NAME_INPUT => op.is_input(),
                    D_PRIVATE => !matches!(op, Operation::Constant(_, _)),
                    D_PRIVATE_META => is_meta_op(&op),
                    D_SEND_ANY => !matches!(op, Operation::Constant(_, _)) && !op.is_input() && (is_meta_op(&op) || d.s % 2 == 0),
                    _ => matches!(op, Operation::NOP),
                }
            })
            .collect();
        if cands.is_empty() {
            continue;
        }
        if d.live && cands.iter().any(|n| lives[gi].contains(&n.get_id())) {
            cands.retain(|n| lives[gi].contains(&n.get_id()));
        }
        // prefer recent nodes (as the recipe interpreter does): n == 0 -> the last candidate
        let node = cands[cands.len() - 1 - pick(d.n, cands.len())];
        match d.kind {
            D_NAME | D_NAME_INPUT => {
                if named.insert(node.get_global_id()) {
                    node.set_name(&format!("d{}", i)).map_err(e)?;
                    st.names += 1;
                    if node.get_operation().is_input() {
                        st.input_names += 1;
                    }
                }
            }
            D_PRIVATE | D_PRIVATE_META => {
                if !node.get_annotations().map_err(e)?.contains(&NodeAnnotation::Private) {
                    node.add_annotation(NodeAnnotation::Private).map_err(e)?;
                    st.private += 1;
                }
            }
            _ => {
                let s = (d.s % 3) as u64;
                let r = (s + 1 + (d.r % 2) as u64) % 3;
                let have = sends_of(node);
                if have.len() < 2 && !have.contains(&(s, r)) {
                    node.add_annotation(NodeAnnotation::Send(s, r)).map_err(e)?;
                    st.sends += 1;
                }
            }
        }
    }
    for (g, (ng, _)) in src_graphs.iter().zip(copies.iter()) {
        ng.finalize().map_err(e)?;
        if *g == main {
            ctx.set_main_graph(ng.clone()).map_err(e)?;
        }
    }
    ctx.finalize().map_err(e)?;
    Ok((ctx, st))
}

// ---------------------------------------------------------------------------------------------
// input values

fn elem_of(kind: u64, raw: u128, st: ciphercore_base::data_types::ScalarType) -> u128 {
    let b = bits(st);
    let m = mask(st);
    if b == 1 {
        return raw & 1;
    }
    match kind % 12 {
        0 => 0,
        1 => 1,
        2 => m,
        3 => 1u128 << (b - 1),
        4 => (1u128 << (b - 1)) - 1,
        5 => (raw % 16) & m,
        6 => (raw % 16).wrapping_neg() & m,
        _ => raw & m,
    }
}

fn gen_hval(t: &Type, s: &mut u64) -> HVal {
    if is_leaf(t) {
        let st = leaf_st(t);
        HVal::A(
            (0..type_elems(t))
                .map(|_| {
                    let k = splitmix(s);
                    let r = ((splitmix(s) as u128) << 64) | splitmix(s) as u128;
                    elem_of(k, r, st)
                })
                .collect(),
        )
    } else {
        HVal::V(children_types(t).iter().map(|ct| gen_hval(ct, s)).collect())
    }
}

fn input_types(g: &Graph) -> Vec<Type> {
    g.get_nodes()
        .iter()
        .filter_map(|n| match n.get_operation() {
            Operation::Input(t) => Some(t),
            _ => None,
        })
        .collect()
}

fn gen_inputs(g: &Graph, in_seed: u64, gi: usize, k: usize) -> Vec<Value> {
    let mut s = in_seed ^ ((gi as u64) << 40) ^ ((k as u64 + 1).wrapping_mul(0x9E37_79B9_7F4A_7C15));
    input_types(g).iter().map(|t| encode(&gen_hval(t, &mut s), t)).collect()
}

// ---------------------------------------------------------------------------------------------
// graph facts (computed from the ORIGINAL graph only, independent of the optimiser)

fn live_set(g: &Graph) -> HashSet<u64> {
    let mut live = HashSet::new();
    let mut stack = vec![g.get_output_node().unwrap()];
    while let Some(n) = stack.pop() {
        if live.insert(n.get_id()) {
            for d in n.get_node_dependencies() {
                stack.push(d);
            }
        }
    }
    live
}

#[derive(Default)]
struct Facts {
    classes: HashSet<&'static str>,
    labels: HashSet<String>,
    unused_inputs: usize,
    inputs: usize,
    live_random: usize,
    live_prf: usize,
    live_sends: usize,
}

fn graph_facts(g: &Graph, f: &mut Facts) {
    let live = live_set(g);
    let nodes = g.get_nodes();
    let mut seen: HashSet<(String, Vec<u64>)> = HashSet::new();
    let mut used: HashSet<u64> = HashSet::new();
    for n in &nodes {
        for d in n.get_node_dependencies() {
            used.insert(d.get_id());
        }
    }
    for n in &nodes {
        let op = n.get_operation();
        let deps = n.get_node_dependencies();
        let dop = |i: usize| deps[i].get_operation();
        let is_live = live.contains(&n.get_id());
        match &op {
            Operation::Input(_) => {
                f.inputs += 1;
                if !is_live {
                    f.unused_inputs += 1;
                    if !used.contains(&n.get_id()) {
                        f.labels.insert("input:never-referenced".into());
                    } else {
                        f.labels.insert("input:only-dangling-users".into());
                    }
                }
                continue;
            }
            Operation::Constant(t, _) => {
                if is_leaf(t) && bits(leaf_st(t)) == 128 {
                    f.labels.insert("const:128-bit".into());
                }
                continue;
            }
            Operation::TupleGet(_) if matches!(dop(0), Operation::CreateTuple) => {
                f.classes.insert("getter-on-constructor");
                f.labels.insert("getter:tuple".into());
            }
            Operation::NamedTupleGet(_) if matches!(dop(0), Operation::CreateNamedTuple(_)) => {
                f.classes.insert("getter-on-constructor");
                f.labels.insert("getter:named-tuple".into());
            }
            Operation::VectorGet => match dop(0) {
                Operation::CreateVector(_) => {
                    f.classes.insert("getter-on-constructor");
                    f.labels.insert("getter:vector".into());
                }
                Operation::ArrayToVector => {
                    f.classes.insert("getter-on-constructor");
                    f.labels.insert("getter:array-to-vector".into());
                }
                Operation::Zip => {
                    f.classes.insert("getter-on-constructor");
                    f.labels.insert("getter:zip".into());
                }
                Operation::TupleGet(_) | Operation::NamedTupleGet(_) | Operation::VectorGet => {
                    f.labels.insert("getter:nested".into());
                }
                _ => {}
            },
            Operation::A2B if matches!(dop(0), Operation::B2A(_)) => {
                f.classes.insert("conversion-chain");
                f.labels.insert("conv:a2b-of-b2a".into());
            }
            Operation::B2A(st) if matches!(dop(0), Operation::A2B) => {
                f.classes.insert("conversion-chain");
                let inner = deps[0].get_node_dependencies()[0].get_type().unwrap();
                if leaf_st(&inner) == *st {
                    f.labels.insert("conv:b2a-of-a2b-equal-type".into());
                } else {
                    f.labels.insert("conv:b2a-of-a2b-unequal-type".into());
                }
            }
            _ => {}
        }
        if is_randomizing(&op) {
            if is_live {
                f.live_random += 1;
            }
        } else if op.is_prf_operation() {
            if is_live {
                f.live_prf += 1;
            }
        } else {
            // foldable constant expression: every argument a Constant, no annotation
            if !deps.is_empty()
                && deps.iter().all(|d| matches!(d.get_operation(), Operation::Constant(_, _)))
                && n.get_annotations().unwrap().is_empty()
            {
                f.classes.insert("foldable-constant-expression");
            }
            let key = (
                format!("{}|{:?}", serde_json::to_string(&op).unwrap_or_default(), n.get_annotations().unwrap()),
                deps.iter().map(|d| d.get_id()).collect::<Vec<_>>(),
            );
            if !seen.insert(key) {
                f.classes.insert("duplicated-node");
            }
        }
        if !is_live {
            f.classes.insert("dangling-node");
        }
        if !sends_of(n).is_empty() && is_live {
            f.live_sends += 1;
        }
    }
}

// ---------------------------------------------------------------------------------------------
// oracle

fn input_interface(g: &Graph) -> Vec<(Type, Option<String>)> {
    g.get_nodes()
        .iter()
        .filter_map(|n| match n.get_operation() {
            Operation::Input(t) => Some((t, n.get_name().unwrap_or(None))),
            _ => None,
        })
        .collect()
}

fn gid(n: &Node) -> String {
    format!("{:?} ({})", n.get_global_id(), n.get_operation())
}

fn contains_all(have: &[(u64, u64)], want: &[(u64, u64)]) -> bool {
    want.iter().all(|w| have.contains(w))
}

enum Walked {
    Ok(Vec<Value>),
    Err(String),
    Panic(String),
}

fn walk_with(mut ev: TapeEvaluator, ctx: &Context, g: &Graph, inputs: &[Value]) -> Walked {
    match catch(|| {
        ev.preprocess(ctx).map_err(|e| e.to_string())?;
        walk_graph(&mut ev, g, inputs)
    }) {
        Ok(Ok(v)) => Walked::Ok(v),
        Ok(Err(e)) => Walked::Err(e),
        Err(p) => Walked::Panic(p),
    }
}

/// (5a) every recorded type equals the type re-inferred through add_node in a fresh context
fn check_reinferred_types(ctx2: &Context) -> Result<(), Outcome> {
    let fresh = create_context().unwrap();
    for g2 in ctx2.get_graphs() {
        let ng = fresh.create_graph().unwrap();
        let mut map: Vec<Node> = vec![];
        for n2 in g2.get_nodes() {
            let deps: Vec<Node> = n2.get_node_dependencies().iter().map(|d| map[d.get_id() as usize].clone()).collect();
            let recorded = match n2.get_type() {
                Ok(t) => t,
                Err(e) => return Err(Outcome::fail("type-missing", format!("result node {} has no type: {}", gid(&n2), e))),
            };
            let nn = match catch(|| ng.add_node(deps, vec![], n2.get_operation())) {
                Ok(Ok(nn)) => nn,
                Ok(Err(e)) => {
                    return Err(Outcome::fail(
                        "type-reinfer-error",
                        format!("result node {} recorded with type {:?} is rejected by type inference when re-added through add_node: {}", gid(&n2), recorded, e),
                    ))
                }
                Err(p) => return Err(Outcome::fail("type-reinfer-panic", format!("re-adding result node {} panics: {}", gid(&n2), p))),
            };
            let inferred = nn.get_type().unwrap();
            if inferred != recorded {
                return Err(Outcome::fail(
                    "type-mismatch",
                    format!("result node {}: recorded type {:?}, type inference re-derives {:?}", gid(&n2), recorded, inferred),
                ));
            }
            map.push(nn);
        }
    }
    Ok(())
}

pub fn oracle(c: &Case) -> Outcome {
    let built = match build(&c.recipe, 64) {
        Some(b) => b,
        None => return Outcome::skip("unbuildable-recipe"),
    };
    let (ctx, dst) = match decorate(&built.context, &c.decos) {
        Ok(x) => x,
        Err(e) => return Outcome::skip("decorate-failed").label(format!("decorate-failed:{}", e.chars().take(50).collect::<String>())),
    };
    let graphs = ctx.get_graphs();
    let mut facts = Facts::default();
    for g in &graphs {
        graph_facts(g, &mut facts);
    }

    let opt_seed = c.opt_seed;
    let m: MappedContext = match catch(|| optimize_context(&ctx, SimpleEvaluator::new(Some(opt_seed)).unwrap()).map_err(|e| e.to_string())) {
        Ok(Ok(m)) => m,
        Ok(Err(e)) => return Outcome::skip("optimizer-error").label(format!("optimizer-error:{}", e.chars().take(60).collect::<String>())),
        Err(p) => return Outcome::skip("optimizer-panic").label(format!("optimizer-panic:{}", p.chars().take(80).collect::<String>())),
    };
    let ctx2 = m.get_context();
    let graphs2 = ctx2.get_graphs();
    if graphs.len() != graphs2.len() {
        return Outcome::fail("graph-count", format!("{} graphs became {}", graphs.len(), graphs2.len()));
    }
    let main_idx = ctx.get_main_graph().unwrap().get_id();
    match ctx2.get_main_graph() {
        Ok(g) if g.get_id() == main_idx => {}
        Ok(g) => return Outcome::fail("main-graph", format!("main graph {} became graph {}", main_idx, g.get_id())),
        Err(e) => return Outcome::fail("main-graph", format!("result has no main graph: {}", e)),
    }

    let mut changed = false;
    let mut evaluated = 0usize;
    let mut orig_errors = 0usize;
    let mut dropped_live_send = 0usize;
    let mut dropped_live_random = 0usize;
    let mut removed_nodes = 0usize;
    let mut out_values: Vec<Option<Value>> = vec![]; // per graph: output of the result for vector 0
    let mut idents: Vec<HashMap<NodeId, NodeId>> = vec![];

    for (gi, (g, g2)) in graphs.iter().zip(graphs2.iter()).enumerate() {
        let nodes = g.get_nodes();
        let nodes2 = g2.get_nodes();
        if nodes.len() != nodes2.len() {
            changed = true;
        }
        removed_nodes += nodes.len().saturating_sub(nodes2.len());
        // (3) input interface
        let (i1, i2) = (input_interface(g), input_interface(g2));
        if i1 != i2 {
            return Outcome::fail("input-interface", format!("graph {}: inputs (type, name) {:?} became {:?}", gi, i1, i2));
        }
        // mapping tables
        let live = live_set(g);
        let mut image: HashMap<u64, Node> = HashMap::new();
        let mut preimages: HashMap<u64, Vec<Node>> = HashMap::new();
        let mut ident: HashMap<NodeId, NodeId> = HashMap::new();
        for n in &nodes {
            if !m.mappings.contains_node(n) {
                if live.contains(&n.get_id()) {
                    if !sends_of(n).is_empty() {
                        dropped_live_send += 1;
                    }
                    if is_randomizing(&n.get_operation()) {
                        dropped_live_random += 1;
                    }
                }
                continue;
            }
            let img = m.mappings.get_node(n);
            if img.get_graph() != *g2 {
                return Outcome::fail("map-outside", format!("node {} is mapped to {}, which is not in the corresponding result graph", gid(n), gid(&img)));
            }
            if img.get_operation() != n.get_operation() {
                changed = true;
            } else if is_randomizing(&n.get_operation()) {
                ident.entry(img.get_global_id()).or_insert(n.get_global_id());
            }
            preimages.entry(img.get_id()).or_default().push(n.clone());
            image.insert(n.get_id(), img);
        }
        // (2, types) a mapped node and its image have the same type (a value is typed data)
        for n in &nodes {
            if let Some(img) = image.get(&n.get_id()) {
                let (t1, t2) = (n.get_type().unwrap(), img.get_type());
                if t2.as_ref().ok() != Some(&t1) {
                    return Outcome::fail(
                        "map-type",
                        format!("node {} of type {:?} is mapped to {} of type {:?}", gid(n), t1, gid(img), t2.map_err(|e| e.to_string())),
                    );
                }
            }
        }
        // (4) Send markers
        for n in &nodes {
            let s1 = sends_of(n);
            if let Some(img) = image.get(&n.get_id()) {
                if !s1.is_empty() && !contains_all(&sends_of(img), &s1) {
                    return Outcome::fail(
                        "send-lost",
                        format!("node {} carries Send{:?} but its image {} carries Send{:?}", gid(n), s1, gid(img), sends_of(img)),
                    );
                }
                // a surviving user still depends on its arguments: an argument carrying a Send
                // marker must survive (with the marker, by the test above) as the same argument
                if img.get_operation() == n.get_operation() {
                    let (d1, d2) = (n.get_node_dependencies(), img.get_node_dependencies());
                    if d1.len() == d2.len() {
                        for (a, b) in d1.iter().zip(d2.iter()) {
                            // only for markers on NOP nodes (what every producer emits): a marker
                            // on a node that the optimiser legitimately bypasses - the B2A in
                            // A2B(B2A(y)) = y, a getter of a constructor - goes away with that node
                            // when nothing else needs its value (the user "survives" as another,
                            // equivalent node); a marker on a MAPPED node is checked above
                            if sends_of(a).is_empty() || !matches!(a.get_operation(), Operation::NOP) {
                                continue;
                            }
                            // position-independent: an optimiser that merges Add(x, y) with
                            // Add(y, x) keeps every marker on a node with the same value; which
                            // operand position it ends up in is not part of the property (values of
                            // non-commutative operations are compared separately)
                            match image.get(&a.get_id()) {
                                Some(ai) if d2.iter().any(|x| x == ai) => {}
                                _ => {
                                    return Outcome::fail(
                                        "send-dep-dropped",
                                        format!(
                                            "node {} survives as {} but its argument {} carrying Send{:?} was dropped or replaced by {}",
                                            gid(n), gid(img), gid(a), sends_of(a), gid(b)
                                        ),
                                    )
                                }
                            }
                        }
                    }
                }
            }
        }
        let (o1, o2) = (g.get_output_node().unwrap(), g2.get_output_node().unwrap());
        if !contains_all(&sends_of(&o2), &sends_of(&o1)) {
            return Outcome::fail(
                "send-output-lost",
                format!("graph {}: output node {} carries Send{:?}, output of the result {} carries Send{:?}", gi, gid(&o1), sends_of(&o1), gid(&o2), sends_of(&o2)),
            );
        }
        for n2 in &nodes2 {
            let s2 = sends_of(n2);
            if s2.is_empty() {
                continue;
            }
            let mut from: Vec<(u64, u64)> = vec![];
            for p in preimages.get(&n2.get_id()).map(|v| v.as_slice()).unwrap_or(&[]) {
                from.extend(sends_of(p));
            }
            if !contains_all(&from, &s2) {
                return Outcome::fail(
                    "send-invented",
                    format!("result node {} carries Send{:?} but its pre-images carry only Send{:?}", gid(n2), s2, from),
                );
            }
        }
        // (1)+(2) values, 3 input vectors
        let mut out0: Option<Value> = None;
        for k in 0..3usize {
            let inputs = gen_inputs(g, c.in_seed, gi, k);
            let mut tape = c.tape;
            tape[0] ^= k as u8;
            tape[1] ^= gi as u8;
            let v1 = match walk_with(TapeEvaluator::new(tape).unwrap(), &ctx, g, &inputs) {
                Walked::Ok(v) => v,
                // the original graph fails at run time on this input: it computes nothing here
                Walked::Err(_) | Walked::Panic(_) => {
                    orig_errors += 1;
                    continue;
                }
            };
            let v2 = match walk_with(TapeEvaluator::with_identities(tape, ident.clone()).unwrap(), &ctx2, g2, &inputs) {
                Walked::Ok(v) => v,
                Walked::Err(e) if e.contains(NO_PREIMAGE) => {
                    return Outcome::fail("random-no-preimage", format!("graph {}: the result contains a randomising node that is the image of no randomising node: {}", gi, e))
                }
                Walked::Err(e) => return Outcome::fail("opt-eval-error", format!("graph {} evaluates on input vector {} but the optimised graph fails: {}", gi, k, e)),
                Walked::Panic(p) => return Outcome::fail("opt-eval-panic", format!("graph {} evaluates on input vector {} but the optimised graph panics: {}", gi, k, p)),
            };
            evaluated += 1;
            let (a, b) = (&v1[o1.get_id() as usize], &v2[o2.get_id() as usize]);
            if a != b {
                return Outcome::fail(
                    "output-value",
                    format!("graph {} input vector {}: output {} = {:?}, optimised output {} = {:?}", gi, k, gid(&o1), a, gid(&o2), b),
                );
            }
            for n in &nodes {
                if let Some(img) = image.get(&n.get_id()) {
                    let (a, b) = (&v1[n.get_id() as usize], &v2[img.get_id() as usize]);
                    if a != b {
                        return Outcome::fail(
                            "map-value",
                            format!("graph {} input vector {}: node {} = {:?} is mapped to {} = {:?}", gi, k, gid(n), a, gid(img), b),
                        );
                    }
                }
            }
            if k == 0 {
                out0 = Some(b.clone());
            }
        }
        out_values.push(out0);
        idents.push(ident);
    }

    // (5a) recorded types vs re-inferred types
    if let Err(o) = check_reinferred_types(&ctx2) {
        return o;
    }
    // (5b) save, reload, compare, evaluate
    let text = match catch(|| serde_json::to_string(&ctx2)) {
        Ok(Ok(t)) => t,
        Ok(Err(e)) => return Outcome::fail("save-error", format!("serialising the result fails: {}", e)),
        Err(p) => return Outcome::fail("save-panic", format!("serialising the result panics: {}", p)),
    };
    let ctx3: Context = match catch(|| serde_json::from_str::<Context>(&text)) {
        Ok(Ok(c3)) => c3,
        Ok(Err(e)) => return Outcome::fail("reload-error", format!("the saved result does not load: {}", e)),
        Err(p) => return Outcome::fail("reload-panic", format!("loading the saved result panics: {}", p)),
    };
    if !ctx2.deep_equal(ctx3.clone()) {
        return Outcome::fail("reload-not-equal", "the reloaded result is not deep_equal to the result".to_string());
    }
    for (gi, (g2, g3)) in graphs2.iter().zip(ctx3.get_graphs().iter()).enumerate() {
        for (n2, n3) in g2.get_nodes().iter().zip(g3.get_nodes().iter()) {
            let (t2, t3) = (n2.get_type().unwrap(), n3.get_type());
            if t3.as_ref().ok() != Some(&t2) {
                return Outcome::fail("reload-type", format!("result node {}: type {:?}, after reload {:?}", gid(n2), t2, t3.map_err(|e| e.to_string())));
            }
        }
        if let Some(want) = &out_values[gi] {
            let inputs = gen_inputs(&graphs[gi], c.in_seed, gi, 0);
            let mut tape = c.tape;
            tape[1] ^= gi as u8;
            match walk_with(TapeEvaluator::with_identities(tape, idents[gi].clone()).unwrap(), &ctx3, g3, &inputs) {
                Walked::Ok(v) => {
                    let got = &v[g3.get_output_node().unwrap().get_id() as usize];
                    if got != want {
                        return Outcome::fail("reload-value", format!("graph {}: result evaluates to {:?}, reloaded result to {:?}", gi, want, got));
                    }
                }
                Walked::Err(e) => return Outcome::fail("reload-eval-error", format!("graph {}: the reloaded result fails to evaluate: {}", gi, e)),
                Walked::Panic(p) => return Outcome::fail("reload-eval-panic", format!("graph {}: evaluating the reloaded result panics: {}", gi, p)),
            }
        }
    }

    let nt = changed && !facts.classes.is_empty() && evaluated > 0;
    let mut out = Outcome::pass(nt)
        .label(format!("graphs:{}", graphs.len()))
        .label(format!("inputs-unused:{}", facts.unused_inputs.min(4)))
        .label(format!("inputs-named:{}", dst.input_names.min(3)))
        .label(format!("names:{}", dst.names.min(4)))
        .label(format!("private:{}", dst.private.min(4)))
        .label(format!("sends:{}", dst.sends.min(4)))
        .label(format!("live-sends:{}", facts.live_sends.min(4)))
        .label(format!("live-random:{}", facts.live_random.min(4)))
        .label(format!("live-prf:{}", facts.live_prf.min(4)))
        .label(format!("removed-nodes:{}", match removed_nodes { 0 => "0", 1..=4 => "1-4", 5..=14 => "5-14", _ => ">=15" }))
        .label(if changed { "optimiser-changed-graph" } else { "optimiser-changed-nothing" })
        .label(format!("evaluated-vectors:{}", evaluated.min(9)));
    for cl in &facts.classes {
        out = out.label(format!("class:{}", cl));
    }
    for l in &facts.labels {
        out = out.label(l.clone());
    }
    if facts.classes.is_empty() {
        out = out.label("class:none");
    }
    if orig_errors > 0 {
        out = out.label("original-fails-at-run-time");
    }
    if dropped_live_send > 0 {
        out = out.label("send-node-dead-after-getter-resolution");
    }
    if dropped_live_random > 0 {
        out = out.label("random-node-dead-after-getter-resolution");
    }
    out
}

// ---------------------------------------------------------------------------------------------
// strategies

/// everything the four passes rewrite, plus ordinary operations as context
pub fn mixed_kinds() -> Vec<(u32, K)> {
    vec![
        (5, K::Input),
        (2, K::InputBits),
        (7, K::Const),
        (2, K::Zeros),
        (2, K::Ones),
        (6, K::Add),
        (3, K::Sub),
        (4, K::Mul),
        (2, K::MixedMul),
        (3, K::Dot),
        (3, K::Matmul),
        (2, K::Sum),
        (1, K::CumSum),
        (1, K::Permute),
        (2, K::Get),
        (2, K::Slice),
        (2, K::Reshape),
        (2, K::Stack),
        (1, K::Concat),
        (1, K::Repeat),
        (2, K::Trunc),
        (5, K::MkTuple),
        (3, K::MkNamed),
        (5, K::MkVector),
        (6, K::TupleGet),
        (4, K::NamedGet),
        (6, K::VectorGet),
        (6, K::Zip),
        (4, K::A2V),
        (1, K::V2A),
        (5, K::A2B),
        (6, K::B2A),
        (7, K::Nop),
        (3, K::Random),
        (1, K::RandomPerm),
        (2, K::CuckooToPerm),
        (1, K::DecomposeSwitch),
        (3, K::Prf),
        (1, K::PermPrf),
        (8, K::Dup),
        (4, K::DupSwap),
    ]
}

/// containers, getters and conversions only (deep getter-on-constructor chains)
pub fn meta_kinds() -> Vec<(u32, K)> {
    vec![
        (3, K::Input),
        (3, K::InputBits),
        (3, K::Const),
        (1, K::Zeros),
        (2, K::Add),
        (1, K::Mul),
        (6, K::MkTuple),
        (4, K::MkNamed),
        (8, K::MkVector),
        (8, K::TupleGet),
        (5, K::NamedGet),
        (9, K::VectorGet),
        (9, K::Zip),
        (6, K::A2V),
        (1, K::V2A),
        (6, K::A2B),
        (7, K::B2A),
        (5, K::Nop),
        (2, K::Random),
        (2, K::CuckooToPerm),
        (1, K::DecomposeSwitch),
        (1, K::Prf),
        (4, K::Dup),
        (2, K::DupSwap),
    ]
}

fn arb_deco() -> BoxedStrategy<Deco> {
    (
        prop_oneof![
            2 => Just(D_NAME),
            3 => Just(D_NAME_INPUT),
            2 => Just(D_PRIVATE),
            3 => Just(D_PRIVATE_META),
            3 => Just(D_SEND),
            2 => Just(D_SEND_ANY),
            4 => Just(D_SEND_WRAP),
        ],
        any::<u16>(),
        prop_oneof![2 => Just(0u16), 3 => any::<u16>()],
        0u8..3,
        0u8..2,
        prop_oneof![3 => Just(true), 1 => Just(false)],
    )
        .prop_map(|(kind, g, n, s, r, live)| Deco { kind, g, n, s, r, live })
        .boxed()
}

pub fn arb_case(kinds: Vec<(u32, K)>, max_steps: usize) -> BoxedStrategy<Case> {
    let first = arb_step(vec![(3, K::Input), (1, K::InputBits)]);
    let sub_steps = (max_steps / 2).max(4);
    let recipe = (
        prop_oneof![
            3 => Just(0usize),
            2 => Just(1usize),
            1 => Just(2usize),
        ]
        .prop_flat_map({
            let kinds = kinds.clone();
            move |n| proptest::collection::vec(arb_sub(kinds.clone(), sub_steps), n..=n)
        }),
        proptest::collection::vec(first, 1..3),
        proptest::collection::vec(arb_step(kinds), 3..=max_steps),
        prop_oneof![3 => Just(0u16), 2 => any::<u16>()],
        any::<[u16; 6]>(),
        0u8..4,
    )
        .prop_map(|(subs, mut head, steps, out, r, gather)| {
            head.extend(steps);
            // sometimes gather several pool nodes into the output so that more of the graph is live
            let mk = |a: u16, b: u16, c: u16| Step { k: K::MkTuple, a, b, c, p: [3, 0, 0, 0] };
            if gather >= 1 {
                head.push(mk(r[0], r[1], r[2]));
            }
            if gather >= 2 {
                head.push(mk(r[3], r[4], r[5]));
                head.push(mk(0, 4096, r[0] ^ r[3]));
            }
            if gather >= 3 {
                head.push(mk(r[1] ^ r[4], r[2] ^ r[5], r[0].wrapping_add(r[5])));
                head.push(mk(0, 8192, r[1] ^ r[2]));
            }
            Recipe { subs, steps: head, out: if gather >= 1 { 0 } else { out }, vals: vec![] }
        });
    (recipe, proptest::collection::vec(arb_deco(), 0..10), any::<[u8; 16]>(), any::<[u8; 16]>(), any::<u64>())
        .prop_map(|(recipe, decos, opt_seed, tape, in_seed)| Case { recipe, decos, opt_seed, tape, in_seed })
        .boxed()
}

pub fn run(env: &Env) {
    env.assume("Private annotations are never put on Constant nodes (optimize_context documents them as unsupported and returns an error)");
    env.assume("PRF keys are Random- or Input-derived, never Constant-derived; constant out-of-range VectorGet indices are not generated");
    env.assume("an optimiser error or panic is counted (skip), not judged: the property speaks about what the optimised context computes");
    env.assume("names of non-Input nodes are not compared (documented as not preserved for replaced nodes)");
    env.note("caps", serde_json::json!({"max_steps_main": env.pick(22, 40), "max_graphs": 3, "max_elems_per_node": 64, "input_vectors_per_graph": 3}));
    env.set_shrink_iters(3000);
    let steps = env.pick(22, 40);
    env.campaign(
        "mixed",
        "recipes over all generated operation kinds + decorations -> optimize_context; sub-checks (1)-(5)",
        env.n(240_000, 4_800_000),
        move || arb_case(mixed_kinds(), steps),
        oracle,
    );
    env.campaign(
        "meta",
        "recipes restricted to constructors, getters, conversions, NOP, Dup (deep getter-on-constructor chains) + decorations; sub-checks (1)-(5)",
        env.n(160_000, 3_200_000),
        move || arb_case(meta_kinds(), steps),
        oracle,
    );
}

pub fn replay(_check: &str, case: J) -> Outcome {
    replay_with::<Case, _>(case, oracle)
}
