//! C19 helpers: plain-data table model, the reference join `refjoin` (written from the doc comments
//! of `Graph::join` / `Graph::join_with_column_masks`, row-oriented, linear search — nothing shared
//! with evaluators/join.rs), table <-> HVal conversion, graph builder, strategies.
use crate::graphgen::splitmix;
use crate::hv::*;
use ciphercore_base::data_types::{array_type, named_tuple_type, tuple_type, ScalarType, Type, BIT};
use ciphercore_base::graphs::{create_context, Context, JoinType};
use ciphercore_base::type_inference::NULL_HEADER;
use proptest::prelude::*;
use serde::{Deserialize, Serialize};
use std::collections::HashMap;

// ------------------------------------------------------------------------------------------------
// case model

#[derive(Clone, Debug, Serialize, Deserialize, PartialEq, Eq)]
pub struct Col {
    pub name: String,
    pub st: ScalarType,
    /// row shape: the column's data array has shape [n] ++ row
    pub row: Vec<u64>,
}

#[derive(Clone, Debug, Serialize, Deserialize, PartialEq, Eq)]
pub struct Cell {
    /// column mask bit (masked variant only; ignored otherwise)
    pub m: u8,
    /// row data, row-major, reduced modulo 2^w
    pub d: Vec<u128>,
}

#[derive(Clone, Debug, Serialize, Deserialize, PartialEq, Eq)]
pub struct Row {
    pub null: u8,
    pub cells: Vec<Cell>,
}

#[derive(Clone, Debug, Serialize, Deserialize, PartialEq, Eq)]
pub struct Table {
    pub cols: Vec<Col>,
    /// position of the null column among the columns of the named tuple (0..=cols.len())
    pub null_pos: usize,
    pub rows: Vec<Row>,
}

#[derive(Clone, Debug, Serialize, Deserialize, PartialEq, Eq)]
pub struct JoinCase {
    /// 0 inner, 1 left, 2 union, 3 full
    pub jt: u8,
    pub masked: bool,
    pub a: Table,
    pub b: Table,
    /// (key header of a, key header of b)
    pub keys: Vec<(String, String)>,
}

pub fn jt_name(jt: u8) -> &'static str {
    match jt % 4 {
        0 => "inner",
        1 => "left",
        2 => "union",
        _ => "full",
    }
}
pub fn join_type(jt: u8) -> JoinType {
    match jt % 4 {
        0 => JoinType::Inner,
        1 => JoinType::Left,
        2 => JoinType::Union,
        _ => JoinType::Full,
    }
}

pub fn row_elems(c: &Col) -> usize {
    c.row.iter().product::<u64>() as usize
}

pub fn key_bits(c: &JoinCase) -> u64 {
    c.keys
        .iter()
        .map(|(h0, _)| {
            let col = c.a.cols.iter().find(|x| &x.name == h0).unwrap();
            row_elems(col) as u64 * bits(col.st) as u64
        })
        .sum()
}

fn col_index(t: &Table, name: &str) -> Option<usize> {
    t.cols.iter().position(|c| c.name == name)
}

/// row key as the documentation defines it: None for a row that is ignored / cannot match
fn row_key(t: &Table, r: &Row, key_idx: &[usize], masked: bool) -> Option<Vec<u128>> {
    if r.null == 0 {
        return None;
    }
    let mut k = vec![];
    for &i in key_idx {
        if masked && r.cells[i].m == 0 {
            return None;
        }
        k.extend(r.cells[i].d.iter().copied());
    }
    let _ = t;
    Some(k)
}

/// the case is inside the documented domain (well-formed tables, compatible key columns, distinct
/// non-key names, unique row keys among rows that have one)
pub fn validate_case(c: &JoinCase) -> Result<(), String> {
    if c.keys.is_empty() {
        return Err("no-keys".into());
    }
    for t in [&c.a, &c.b] {
        if t.rows.is_empty() || t.cols.is_empty() || t.null_pos > t.cols.len() {
            return Err("empty-table".into());
        }
        let mut names = std::collections::BTreeSet::new();
        for col in &t.cols {
            if !names.insert(col.name.clone()) || col.name == NULL_HEADER {
                return Err("duplicate-column".into());
            }
            if col.row.iter().any(|d| *d == 0) {
                return Err("zero-dim".into());
            }
        }
        for r in &t.rows {
            if r.cells.len() != t.cols.len() || r.null > 1 {
                return Err("row-arity".into());
            }
            for (cell, col) in r.cells.iter().zip(t.cols.iter()) {
                if cell.d.len() != row_elems(col) || cell.m > 1 || cell.d.iter().any(|x| *x & !mask(col.st) != 0) {
                    return Err("cell-shape".into());
                }
            }
        }
    }
    let mut ka = vec![];
    let mut kb = vec![];
    for (h0, h1) in &c.keys {
        let i = col_index(&c.a, h0).ok_or("key-missing")?;
        let j = col_index(&c.b, h1).ok_or("key-missing")?;
        if c.a.cols[i].st != c.b.cols[j].st || c.a.cols[i].row != c.b.cols[j].row {
            return Err("key-type-mismatch".into());
        }
        if ka.contains(&i) || kb.contains(&j) {
            return Err("key-repeated".into());
        }
        ka.push(i);
        kb.push(j);
    }
    // non-key columns: names unique across both tables; a key header of b may only coincide with
    // the paired key header of a
    for (j, col) in c.b.cols.iter().enumerate() {
        if let Some(i) = col_index(&c.a, &col.name) {
            let paired = c.keys.iter().any(|(h0, h1)| h1 == &col.name && h0 == &c.a.cols[i].name);
            // a key header of b may also be the name of a NON-key column of a (type inference
            // accepts it: only non-key columns of b must not clash); for Full joins the builder
            // rejects that (counted as a builder rejection)
            let a_nonkey = !ka.contains(&i);
            if !(kb.contains(&j) && (paired || a_nonkey)) {
                return Err("shared-column-name".into());
            }
            if kb.contains(&j) && !paired && a_nonkey && jt_name(c.jt) == "full" {
                // rejected when the node is added (a full join would need two columns of that name)
                return Err("full-join-key-name-clash".into());
            }
        }
    }
    for (t, k) in [(&c.a, &ka), (&c.b, &kb)] {
        let mut seen: Vec<Vec<u128>> = vec![];
        for r in &t.rows {
            if let Some(key) = row_key(t, r, k, c.masked) {
                if seen.contains(&key) {
                    return Err("duplicate-live-key".into());
                }
                seen.push(key);
            }
        }
    }
    Ok(())
}

// ------------------------------------------------------------------------------------------------
// reference join

#[derive(Clone, Debug, PartialEq, Eq)]
pub struct OutCol {
    pub name: String,
    pub st: ScalarType,
    pub row: Vec<u64>,
}

#[derive(Clone, Debug, PartialEq, Eq)]
pub struct OutCell {
    pub m: u8,
    pub d: Vec<u128>,
    /// the cell was copied from an input cell (as opposed to zero filling)
    pub copied: bool,
}

#[derive(Clone, Debug, PartialEq, Eq)]
pub struct OutRow {
    pub null: u8,
    pub cells: Vec<OutCell>,
}

#[derive(Clone, Debug, PartialEq, Eq)]
pub struct RTable {
    /// columns other than the null column, in result order
    pub cols: Vec<OutCol>,
    /// position of the null column in the result named tuple
    pub null_pos: usize,
    pub rows: Vec<OutRow>,
}

impl RTable {
    /// name of the i-th column of the named tuple (null column included)
    pub fn col_name(&self, i: usize) -> String {
        if i == self.null_pos {
            "<null column>".to_string()
        } else if i < self.null_pos {
            self.cols[i].name.clone()
        } else {
            self.cols.get(i - 1).map(|c| c.name.clone()).unwrap_or_default()
        }
    }
}

#[derive(Clone, Debug, Default)]
pub struct RefStats {
    /// rows that take part (null = 1), per table
    pub live: [usize; 2],
    /// pairs of rows with equal row keys
    pub matched: usize,
    pub null_rows: usize,
    /// null rows whose key data equals the key of a row with a row key (same or other table)
    pub null_dup_live_key: usize,
    /// live rows with a masked key entry
    pub masked_key_rows: usize,
    pub masked_payload_cells: usize,
    /// rows that have a row key but no partner in the other table, per table
    pub unmatched_keyed: [usize; 2],
    /// pairs (live row of a, live row of b) carrying the same key DATA although at least one of the
    /// two has a masked key entry (such rows must not match)
    pub masked_equal_data_pairs: usize,
}

impl RefStats {
    pub fn overlap_class(&self) -> &'static str {
        let (a, b, m) = (self.live[0], self.live[1], self.matched);
        if a == 0 || b == 0 {
            "empty-side"
        } else if m == 0 {
            "disjoint"
        } else if m == a && m == b {
            "identical"
        } else if m == a || m == b {
            "full"
        } else {
            "partial"
        }
    }
}

fn zero_cell(col: &Col) -> OutCell {
    OutCell { m: 0, d: vec![0; row_elems(col)], copied: false }
}

/// "filled with zeros where no data can be retrieved": a cell whose mask is zero retrieves nothing
fn copy_cell(cell: &Cell, col: &Col, masked: bool) -> OutCell {
    if masked && cell.m == 0 {
        OutCell { m: 0, d: vec![0; row_elems(col)], copied: true }
    } else {
        OutCell { m: 1, d: cell.d.clone(), copied: true }
    }
}

/// The join of the documentation. Result columns: every column of the first table in its order
/// (null column in the first table's position), then the non-key columns of the second table in
/// their order. Row count: n_a for inner/left, n_a + n_b for union/full.
pub fn refjoin(c: &JoinCase) -> (RTable, RefStats) {
    let masked = c.masked;
    let ka: Vec<usize> = c.keys.iter().map(|(h, _)| col_index(&c.a, h).unwrap()).collect();
    let kb: Vec<usize> = c.keys.iter().map(|(_, h)| col_index(&c.b, h).unwrap()).collect();
    let nonkey_b: Vec<usize> = (0..c.b.cols.len()).filter(|j| !kb.contains(j)).collect();
    let nonkey_a: Vec<usize> = (0..c.a.cols.len()).filter(|i| !ka.contains(i)).collect();

    let keys_a: Vec<Option<Vec<u128>>> = c.a.rows.iter().map(|r| row_key(&c.a, r, &ka, masked)).collect();
    let keys_b: Vec<Option<Vec<u128>>> = c.b.rows.iter().map(|r| row_key(&c.b, r, &kb, masked)).collect();
    // partner of a row: the row of the other table with the same row key (unique by the domain)
    let partner_in_b = |i: usize| -> Option<usize> {
        let k = keys_a[i].as_ref()?;
        keys_b.iter().position(|x| x.as_ref() == Some(k))
    };
    let partner_in_a = |j: usize| -> Option<usize> {
        let k = keys_b[j].as_ref()?;
        keys_a.iter().position(|x| x.as_ref() == Some(k))
    };

    let mut cols: Vec<OutCol> = c.a.cols.iter().map(|x| OutCol { name: x.name.clone(), st: x.st, row: x.row.clone() }).collect();
    for &j in &nonkey_b {
        let x = &c.b.cols[j];
        cols.push(OutCol { name: x.name.clone(), st: x.st, row: x.row.clone() });
    }
    let zero_row = || OutRow {
        null: 0,
        cells: c.a.cols.iter().map(zero_cell).chain(nonkey_b.iter().map(|&j| zero_cell(&c.b.cols[j]))).collect(),
    };
    // a row of the first table, optionally merged with a row of the second table
    let row_from_a = |i: usize, partner: Option<usize>| -> OutRow {
        let mut cells: Vec<OutCell> = c.a.rows[i].cells.iter().zip(c.a.cols.iter()).map(|(cell, col)| copy_cell(cell, col, masked)).collect();
        for &j in &nonkey_b {
            cells.push(match partner {
                Some(p) => copy_cell(&c.b.rows[p].cells[j], &c.b.cols[j], masked),
                None => zero_cell(&c.b.cols[j]),
            });
        }
        OutRow { null: 1, cells }
    };
    // a row of the second table in the layout of the result: its key entries under the first
    // table's key headers, zeros (or the merged first-table row) in the first table's non-key columns
    let row_from_b = |j: usize, partner: Option<usize>| -> OutRow {
        let mut cells: Vec<OutCell> = vec![];
        for (i, col) in c.a.cols.iter().enumerate() {
            if let Some(pos) = ka.iter().position(|x| *x == i) {
                cells.push(copy_cell(&c.b.rows[j].cells[kb[pos]], &c.b.cols[kb[pos]], masked));
            } else {
                cells.push(match partner {
                    Some(p) => copy_cell(&c.a.rows[p].cells[i], col, masked),
                    None => zero_cell(col),
                });
            }
        }
        for &jj in &nonkey_b {
            cells.push(copy_cell(&c.b.rows[j].cells[jj], &c.b.cols[jj], masked));
        }
        OutRow { null: 1, cells }
    };

    let mut rows: Vec<OutRow> = vec![];
    match c.jt % 4 {
        0 => {
            // inner: rows where the tables have matching row keys
            for i in 0..c.a.rows.len() {
                rows.push(match partner_in_b(i) {
                    Some(p) => row_from_a(i, Some(p)),
                    None => zero_row(),
                });
            }
        }
        1 => {
            // left: all the rows of the first table, merged with the matching rows of the second
            for i in 0..c.a.rows.len() {
                rows.push(if c.a.rows[i].null == 0 { zero_row() } else { row_from_a(i, partner_in_b(i)) });
            }
        }
        jt => {
            // union / full, part 1: rows of the first table that are not in the inner join
            for i in 0..c.a.rows.len() {
                rows.push(if c.a.rows[i].null == 0 || partner_in_b(i).is_some() { zero_row() } else { row_from_a(i, None) });
            }
            // part 2: all the rows of the second table (full: merged as in the inner join)
            for j in 0..c.b.rows.len() {
                rows.push(if c.b.rows[j].null == 0 {
                    zero_row()
                } else if jt == 2 {
                    row_from_b(j, None)
                } else {
                    row_from_b(j, partner_in_a(j))
                });
            }
        }
    }

    let mut st = RefStats::default();
    st.live = [c.a.rows.iter().filter(|r| r.null == 1).count(), c.b.rows.iter().filter(|r| r.null == 1).count()];
    st.matched = (0..c.a.rows.len()).filter(|&i| partner_in_b(i).is_some()).count();
    st.unmatched_keyed = [
        (0..c.a.rows.len()).filter(|&i| keys_a[i].is_some() && partner_in_b(i).is_none()).count(),
        (0..c.b.rows.len()).filter(|&j| keys_b[j].is_some() && partner_in_a(j).is_none()).count(),
    ];
    if masked {
        let data_of = |r: &Row, k: &[usize]| -> Vec<u128> { k.iter().flat_map(|&i| r.cells[i].d.iter().copied()).collect() };
        for (i, ra) in c.a.rows.iter().enumerate() {
            for (j, rb) in c.b.rows.iter().enumerate() {
                if ra.null == 1 && rb.null == 1 && (keys_a[i].is_none() || keys_b[j].is_none()) && data_of(ra, &ka) == data_of(rb, &kb) {
                    st.masked_equal_data_pairs += 1;
                }
            }
        }
    }
    for (t, k, keys) in [(&c.a, &ka, &keys_a), (&c.b, &kb, &keys_b)] {
        for (ri, r) in t.rows.iter().enumerate() {
            if r.null == 0 {
                st.null_rows += 1;
                let mut data = vec![];
                for &i in k.iter() {
                    data.extend(r.cells[i].d.iter().copied());
                }
                if keys_a.iter().chain(keys_b.iter()).any(|x| x.as_ref() == Some(&data)) {
                    st.null_dup_live_key += 1;
                }
            } else if masked {
                if keys[ri].is_none() {
                    st.masked_key_rows += 1;
                }
                let nonkey = if std::ptr::eq(t, &c.a) { &nonkey_a } else { &nonkey_b };
                st.masked_payload_cells += nonkey.iter().filter(|&&i| r.cells[i].m == 0).count();
            }
        }
    }
    (RTable { cols, null_pos: c.a.null_pos, rows }, st)
}

// ------------------------------------------------------------------------------------------------
// types and values

fn data_type(n: usize, st: ScalarType, row: &[u64]) -> Type {
    let mut shape = vec![n as u64];
    shape.extend_from_slice(row);
    array_type(shape, st)
}

fn column_type(n: usize, st: ScalarType, row: &[u64], masked: bool) -> Type {
    if masked {
        tuple_type(vec![array_type(vec![n as u64], BIT), data_type(n, st, row)])
    } else {
        data_type(n, st, row)
    }
}

fn with_null<T>(mut v: Vec<T>, pos: usize, null: T) -> Vec<T> {
    v.insert(pos.min(v.len()), null);
    v
}

pub fn input_type(t: &Table, masked: bool) -> Type {
    let n = t.rows.len();
    let cols: Vec<(String, Type)> = t.cols.iter().map(|c| (c.name.clone(), column_type(n, c.st, &c.row, masked))).collect();
    named_tuple_type(with_null(cols, t.null_pos, (NULL_HEADER.to_string(), array_type(vec![n as u64], BIT))))
}

pub fn table_type(t: &RTable, masked: bool) -> Type {
    let n = t.rows.len();
    let cols: Vec<(String, Type)> = t.cols.iter().map(|c| (c.name.clone(), column_type(n, c.st, &c.row, masked))).collect();
    named_tuple_type(with_null(cols, t.null_pos, (NULL_HEADER.to_string(), array_type(vec![n as u64], BIT))))
}

pub fn table_hval(t: &Table, masked: bool) -> HVal {
    let mut cols = vec![];
    for (ci, _) in t.cols.iter().enumerate() {
        let data: Vec<u128> = t.rows.iter().flat_map(|r| r.cells[ci].d.iter().copied()).collect();
        if masked {
            let m: Vec<u128> = t.rows.iter().map(|r| r.cells[ci].m as u128).collect();
            cols.push(HVal::V(vec![HVal::A(m), HVal::A(data)]));
        } else {
            cols.push(HVal::A(data));
        }
    }
    let null = HVal::A(t.rows.iter().map(|r| r.null as u128).collect());
    HVal::V(with_null(cols, t.null_pos, null))
}

pub struct Cmp {
    /// (short class, message) of the first disagreement
    pub first_error: Option<(String, String)>,
    pub tolerated_under_mask: usize,
}

/// compares a decoded result table with the reference table, cell by cell
pub fn compare_tables(got: &HVal, exp: &RTable, masked: bool) -> Cmp {
    let mut cmp = Cmp { first_error: None, tolerated_under_mask: 0 };
    let n = exp.rows.len();
    let cols = match got {
        HVal::V(c) if c.len() == exp.cols.len() + 1 => c,
        _ => {
            cmp.first_error = Some(("layout".into(), "result is not a named tuple with the documented number of columns".into()));
            return cmp;
        }
    };
    let null_got = match &cols[exp.null_pos.min(exp.cols.len())] {
        HVal::A(x) if x.len() == n => x.clone(),
        _ => {
            cmp.first_error = Some(("layout".into(), "null column is not a bit array with one entry per row".into()));
            return cmp;
        }
    };
    let err = |class: &str, msg: String, cmp: &mut Cmp| {
        if cmp.first_error.is_none() {
            cmp.first_error = Some((class.to_string(), msg));
        }
    };
    for r in 0..n {
        if null_got[r] != exp.rows[r].null as u128 {
            err("null-column", format!("row {}: null marker is {} but the documentation prescribes {}", r, null_got[r], exp.rows[r].null), &mut cmp);
        }
    }
    for (ci, col) in exp.cols.iter().enumerate() {
        let pos = if ci < exp.null_pos { ci } else { ci + 1 };
        let re = col.row.iter().product::<u64>() as usize;
        let (mask_got, data_got): (Option<&Vec<u128>>, &Vec<u128>) = match (&cols[pos], masked) {
            (HVal::A(d), false) if d.len() == n * re => (None, d),
            (HVal::V(md), true) if md.len() == 2 => match (&md[0], &md[1]) {
                (HVal::A(m), HVal::A(d)) if m.len() == n && d.len() == n * re => (Some(m), d),
                _ => {
                    err("layout", format!("column {:?}: mask/data arrays have the wrong size", col.name), &mut cmp);
                    continue;
                }
            },
            _ => {
                err("layout", format!("column {:?} has the wrong layout", col.name), &mut cmp);
                continue;
            }
        };
        for r in 0..n {
            let want = &exp.rows[r].cells[ci];
            let got_d = &data_got[r * re..(r + 1) * re];
            let got_m = mask_got.map(|m| m[r]);
            let row_is_zero = exp.rows[r].null == 0;
            if row_is_zero {
                if got_m.unwrap_or(0) != 0 || got_d.iter().any(|x| *x != 0) {
                    err("zero-row", format!("row {} has null marker 0 but column {:?} holds mask {:?} data {:?} instead of zeros", r, col.name, got_m, got_d), &mut cmp);
                }
                continue;
            }
            if let Some(m) = got_m {
                if m != want.m as u128 {
                    err("mask", format!("row {} column {:?}: mask is {} want {}", r, col.name, m, want.m), &mut cmp);
                    continue;
                }
            }
            if want.m == 1 {
                if got_d != &want.d[..] {
                    err("data", format!("row {} column {:?}: data {:?} want {:?}", r, col.name, got_d, want.d), &mut cmp);
                }
            } else if got_d.iter().any(|x| *x != 0) {
                if want.copied {
                    cmp.tolerated_under_mask += 1;
                } else {
                    err("zero-fill", format!("row {} column {:?}: data {:?} where the documentation prescribes zeros", r, col.name, got_d), &mut cmp);
                }
            }
        }
    }
    cmp
}

// ------------------------------------------------------------------------------------------------
// graph builder

pub struct BuiltJoin {
    pub context: Context,
    pub in_types: Vec<Type>,
    pub out_type: Type,
}

pub fn build_join(c: &JoinCase) -> Result<BuiltJoin, String> {
    let e = |x: ciphercore_base::errors::Error| x.to_string();
    let ctx = create_context().map_err(e)?;
    let g = ctx.create_graph().map_err(e)?;
    let t0 = input_type(&c.a, c.masked);
    let t1 = input_type(&c.b, c.masked);
    let i0 = g.input(t0.clone()).map_err(e)?;
    let i1 = g.input(t1.clone()).map_err(e)?;
    let mut headers = HashMap::new();
    for (h0, h1) in &c.keys {
        headers.insert(h0.clone(), h1.clone());
    }
    let o = if c.masked {
        g.join_with_column_masks(i0, i1, join_type(c.jt), headers).map_err(e)?
    } else {
        g.join(i0, i1, join_type(c.jt), headers).map_err(e)?
    };
    let out_type = o.get_type().map_err(e)?;
    g.set_output_node(o).map_err(e)?;
    g.finalize().map_err(e)?;
    ctx.set_main_graph(g).map_err(e)?;
    ctx.finalize().map_err(e)?;
    Ok(BuiltJoin { context: ctx, in_types: vec![t0, t1], out_type })
}

// ------------------------------------------------------------------------------------------------
// strategies (construction, no rejection)

#[derive(Clone, Debug)]
struct KeyColSpec {
    st: ScalarType,
    row: Vec<u64>,
    rename: bool,
    alpha: Vec<u64>,
}

#[derive(Clone, Debug)]
struct PayColSpec {
    st: ScalarType,
    row: Vec<u64>,
}

#[derive(Clone, Debug)]
struct RowSpec {
    /// 0 live, 1 null, 2 live with a masked key entry (masked variant; live otherwise)
    kind: u8,
    pick: u16,
    seed: u64,
    /// payload masks: cell i is masked when bits 2i,2i+1 are both zero
    mbits: u8,
    /// key masks of a kind-2 row: key column i is masked when bit i is set
    kbits: u8,
}

#[derive(Clone, Debug)]
struct Spec {
    jt: u8,
    masked: bool,
    keys: Vec<KeyColSpec>,
    pay_a: Vec<PayColSpec>,
    pay_b: Vec<PayColSpec>,
    pool: Vec<[u16; 3]>,
    /// 0 free, 1 disjoint, 2 identical live key sets
    pattern: u8,
    rows_a: Vec<RowSpec>,
    rows_b: Vec<RowSpec>,
    order_a: [u16; 5],
    order_b: [u16; 5],
    null_a: u16,
    null_b: u16,
}

fn elem(seed: &mut u64, st: ScalarType) -> u128 {
    let r = splitmix(seed);
    let b = bits(st);
    let m = mask(st);
    if b == 1 {
        return (r & 1) as u128;
    }
    let wide = ((splitmix(seed) as u128) << 64) | splitmix(seed) as u128;
    match r % 14 {
        0 => 0,
        1 => 1,
        2 => m,
        3 => 1u128 << (b - 1),
        4 => (1u128 << (b - 1)) - 1,
        5 | 6 => (wide % 4) & m,
        7 => (1u128 << (wide % b as u128)) & m,
        _ => wide & m,
    }
}

fn row_data(seed: &mut u64, st: ScalarType, n: usize) -> Vec<u128> {
    (0..n).map(|_| elem(seed, st)).collect()
}

fn arb_key_col(narrow: bool) -> BoxedStrategy<KeyColSpec> {
    let st = if narrow {
        prop_oneof![2 => Just(ScalarType::Bit), 2 => Just(ScalarType::U8), 7 => crate::gen::arb_st()].boxed()
    } else {
        prop_oneof![2 => Just(ScalarType::Bit), 9 => crate::gen::arb_st()].boxed()
    };
    st.prop_flat_map(|st| {
        let row: BoxedStrategy<Vec<u64>> = if st == ScalarType::Bit {
            prop_oneof![
                2 => Just(vec![]),
                2 => Just(vec![1u64]),
                3 => (2u64..=6).prop_map(|k| vec![k]),
                1 => Just(vec![2u64, 2]),
                1 => Just(vec![9u64]),
                1 => Just(vec![90u64]),
            ]
            .boxed()
        } else {
            prop_oneof![6 => Just(vec![]), 1 => Just(vec![1u64]), 2 => Just(vec![2u64]), 1 => Just(vec![2u64, 2])].boxed()
        };
        (row, any::<bool>(), proptest::collection::vec(any::<u64>(), 2..=6)).prop_map(move |(row, rename, alpha)| KeyColSpec { st, row, rename, alpha })
    })
    .boxed()
}

fn arb_pay_col() -> BoxedStrategy<PayColSpec> {
    (crate::gen::arb_st(), prop_oneof![5 => Just(vec![]), 2 => Just(vec![2u64]), 1 => Just(vec![1u64, 3])])
        .prop_map(|(st, row)| PayColSpec { st, row })
        .boxed()
}

fn arb_row() -> BoxedStrategy<RowSpec> {
    (prop_oneof![6 => Just(0u8), 2 => Just(1u8), 2 => Just(2u8)], any::<u16>(), any::<u64>(), any::<u8>(), 0u8..8)
        .prop_map(|(kind, pick, seed, mbits, kbits)| RowSpec { kind, pick, seed, mbits, kbits })
        .boxed()
}

/// `mpc`: smaller key columns are favoured (narrow keys make false matches with padding rows of the
/// secure protocol observable) and fewer columns (cost)
pub fn arb_join_case(max_rows: usize, mpc: bool) -> BoxedStrategy<JoinCase> {
    let nkeys = if mpc { prop_oneof![5 => Just(1usize), 3 => Just(2usize), 1 => Just(3usize)].boxed() } else { (1usize..=3).boxed() };
    let schema = (
        0u8..4,
        any::<bool>(),
        nkeys.prop_flat_map(move |n| proptest::collection::vec(arb_key_col(mpc), n)),
        proptest::collection::vec(arb_pay_col(), 0..=2),
        proptest::collection::vec(arb_pay_col(), 0..=2),
    );
    let rows = (
        proptest::collection::vec(any::<[u16; 3]>(), 1..=14),
        prop_oneof![5 => Just(0u8), 2 => Just(1u8), 2 => Just(2u8)],
        proptest::collection::vec(arb_row(), 1..=max_rows),
        proptest::collection::vec(arb_row(), 1..=max_rows),
    );
    // position of the null column: anywhere; for compiled cases mostly first (a null column elsewhere
    // in the first table runs into known finding F-C19-5 after the contents have been compared)
    let (w0, w1) = if mpc { (4u32, 1u32) } else { (2, 3) };
    let layout = (any::<[u16; 5]>(), any::<[u16; 5]>(), prop_oneof![w0 => Just(0u16), w1 => any::<u16>()], prop_oneof![w0 => Just(0u16), w1 => any::<u16>()]);
    (schema, rows, layout)
        .prop_map(|((jt, masked, keys, pay_a, pay_b), (pool, pattern, rows_a, rows_b), (order_a, order_b, null_a, null_b))| {
            materialize(&Spec { jt, masked, keys, pay_a, pay_b, pool, pattern, rows_a, rows_b, order_a, order_b, null_a, null_b })
        })
        .boxed()
}

fn materialize(s: &Spec) -> JoinCase {
    let nk = s.keys.len();
    // alphabets: per key column 2-6 candidate row values; later candidates are often near misses of
    // the first (one element changed) so that multi-element / multi-column keys must match entirely
    let mut alphabets: Vec<Vec<Vec<u128>>> = vec![];
    for k in &s.keys {
        let re = k.row.iter().product::<u64>() as usize;
        let mut al: Vec<Vec<u128>> = vec![];
        for (i, sd) in k.alpha.iter().enumerate() {
            let mut seed = *sd;
            let v = if i > 0 && splitmix(&mut seed) % 2 == 0 {
                let mut v = al[0].clone();
                let pos = (splitmix(&mut seed) as usize) % re;
                let bit = (splitmix(&mut seed) as u32) % bits(k.st);
                v[pos] ^= 1u128 << bit;
                v
            } else {
                row_data(&mut seed, k.st, re)
            };
            al.push(v);
        }
        alphabets.push(al);
    }
    // pool of distinct key tuples
    let mut pool: Vec<Vec<Vec<u128>>> = vec![];
    for p in &s.pool {
        let tuple: Vec<Vec<u128>> = (0..nk).map(|i| alphabets[i][crate::gen::pick(p[i], alphabets[i].len())].clone()).collect();
        if !pool.contains(&tuple) {
            pool.push(tuple);
        }
    }
    let m = pool.len();
    let half = (m + 1) / 2;
    let build = |rows: &[RowSpec], pay: &[PayColSpec], slice: &[usize], used_out: &mut Vec<usize>| -> Vec<Row> {
        let mut used: Vec<usize> = vec![];
        let mut out = vec![];
        for r in rows {
            let mut seed = r.seed;
            let kind = if r.kind == 2 && !s.masked { 0 } else { r.kind };
            // key picked from this table's slice of the pool (live rows: unique)
            let mut chosen: Option<usize> = None;
            if !slice.is_empty() {
                let start = crate::gen::pick(r.pick, slice.len());
                if kind == 0 {
                    for off in 0..slice.len() {
                        let cand = slice[(start + off) % slice.len()];
                        if !used.contains(&cand) {
                            chosen = Some(cand);
                            break;
                        }
                    }
                } else {
                    chosen = Some(slice[start]);
                }
            }
            let (null, live_key) = match (kind, chosen) {
                (0, Some(_)) => (1u8, true),
                (0, None) => (0u8, false), // key pool exhausted: the row becomes a null row
                (1, _) => (0u8, false),
                _ => (1u8, false),
            };
            if live_key {
                used.push(chosen.unwrap());
            }
            // key cells
            let any_pool = (splitmix(&mut seed) as usize) % m.max(1);
            let use_pool_data = live_key || splitmix(&mut seed) % 3 != 0;
            let mut cells: Vec<Cell> = vec![];
            for (i, k) in s.keys.iter().enumerate() {
                let re = k.row.iter().product::<u64>() as usize;
                let d = if live_key {
                    pool[chosen.unwrap()][i].clone()
                } else if use_pool_data && m > 0 {
                    // a null / masked-key row may repeat the key data of any row of either table
                    pool[chosen.unwrap_or(any_pool)][i].clone()
                } else {
                    row_data(&mut seed, k.st, re)
                };
                let mbit = if !s.masked {
                    1
                } else if live_key {
                    1
                } else if kind == 2 {
                    let forced = (r.pick as usize) % nk;
                    if (r.kbits >> i) & 1 == 1 || ((r.kbits as usize) & ((1 << nk) - 1) == 0 && i == forced) {
                        0
                    } else {
                        1
                    }
                } else {
                    (splitmix(&mut seed) & 1) as u8
                };
                cells.push(Cell { m: mbit, d });
            }
            for (i, p) in pay.iter().enumerate() {
                let re = p.row.iter().product::<u64>() as usize;
                let d = row_data(&mut seed, p.st, re);
                let mbit = if !s.masked {
                    1
                } else if null == 0 {
                    (splitmix(&mut seed) & 1) as u8
                } else if (r.mbits >> (2 * i)) & 3 == 0 {
                    0
                } else {
                    1
                };
                cells.push(Cell { m: mbit, d });
            }
            out.push(Row { null, cells });
        }
        *used_out = used;
        out
    };
    let all: Vec<usize> = (0..m).collect();
    let (slice_a, slice_b_fixed): (Vec<usize>, Option<Vec<usize>>) = match s.pattern {
        1 => (all[..half].to_vec(), Some(all[half..].to_vec())),
        2 => (all.clone(), None),
        _ => (all.clone(), Some(all.clone())),
    };
    let mut used_a = vec![];
    let rows_a = build(&s.rows_a, &s.pay_a, &slice_a, &mut used_a);
    let slice_b = slice_b_fixed.unwrap_or_else(|| used_a.clone());
    let mut used_b = vec![];
    let rows_b = build(&s.rows_b, &s.pay_b, &slice_b, &mut used_b);

    // columns: keys then payloads, permuted; rows permuted alike
    let mk_table = |side: usize, rows: Vec<Row>, pay: &[PayColSpec], order: &[u16; 5], null_pick: u16| -> Table {
        let mut cols: Vec<Col> = vec![];
        for (i, k) in s.keys.iter().enumerate() {
            let name = if side == 1 && k.rename { format!("K{}", i) } else { format!("k{}", i) };
            cols.push(Col { name, st: k.st, row: k.row.clone() });
        }
        for (i, p) in pay.iter().enumerate() {
            // a quarter of the cases with a renamed key: the first payload column of the FIRST table
            // carries the name of the second table's key column (accepted by type inference for
            // inner/left/union joins; it stays an ordinary payload column of the first table)
            let clash = side == 0 && i == 0 && (s.order_a[0] ^ s.order_b[0]) & 3 == 0;
            let renamed_key = s.keys.iter().position(|k| k.rename);
            let name = match (clash, renamed_key) {
                (true, Some(ki)) => format!("K{}", ki),
                _ => format!("{}{}", if side == 0 { "x" } else { "y" }, i),
            };
            cols.push(Col { name, st: p.st, row: p.row.clone() });
        }
        let mut idx: Vec<usize> = (0..cols.len()).collect();
        idx.sort_by_key(|i| order[*i % 5]);
        let cols2: Vec<Col> = idx.iter().map(|i| cols[*i].clone()).collect();
        let rows2: Vec<Row> = rows.into_iter().map(|r| Row { null: r.null, cells: idx.iter().map(|i| r.cells[*i].clone()).collect() }).collect();
        let null_pos = crate::gen::pick(null_pick, cols2.len() + 1);
        Table { cols: cols2, null_pos, rows: rows2 }
    };
    let a = mk_table(0, rows_a, &s.pay_a, &s.order_a, s.null_a);
    let b = mk_table(1, rows_b, &s.pay_b, &s.order_b, s.null_b);
    let keys = s.keys.iter().enumerate().map(|(i, k)| (format!("k{}", i), if k.rename { format!("K{}", i) } else { format!("k{}", i) })).collect();
    JoinCase { jt: s.jt, masked: s.masked, a, b, keys }
}

// ------------------------------------------------------------------------------------------------
// fixed families

/// key description of a row in the fixed families: Live(k), Null(k) (null row carrying key data k),
/// Masked(k) (live row whose key entry is masked; masked variant only, live otherwise)
#[derive(Clone, Copy)]
pub enum R {
    L(u8),
    N(u8),
    M(u8),
}

fn key_value(k: u8, st: ScalarType, re: usize) -> Vec<u128> {
    if st == ScalarType::Bit {
        (0..re).map(|i| ((k >> i) & 1) as u128).collect()
    } else {
        // spread over the elements; element 0 distinguishes, the last element carries the high bit
        (0..re).map(|i| if i == 0 { k as u128 } else { (mask(st) - (k as u128 % 3)) & mask(st) }).collect()
    }
}

pub fn family_case(jt: u8, masked: bool, st: ScalarType, row: Vec<u64>, ra: &[R], rb: &[R]) -> JoinCase {
    let re = row.iter().product::<u64>() as usize;
    let mk = |rows: &[R], side: u8| -> Vec<Row> {
        rows.iter()
            .enumerate()
            .map(|(i, r)| {
                let (null, km, k) = match *r {
                    R::L(k) => (1u8, 1u8, k),
                    R::N(k) => (0, 1, k),
                    R::M(k) => (1, if masked { 0 } else { 1 }, k),
                };
                let pay = 10 * (side as u128 + 1) + i as u128 + 1;
                Row { null, cells: vec![Cell { m: km, d: key_value(k, st, re) }, Cell { m: if masked && i % 3 == 2 { 0 } else { 1 }, d: vec![pay] }] }
            })
            .collect()
    };
    JoinCase {
        jt,
        masked,
        a: Table { cols: vec![Col { name: "id".into(), st, row: row.clone() }, Col { name: "x".into(), st: ScalarType::U16, row: vec![] }], null_pos: 0, rows: mk(ra, 0) },
        b: Table { cols: vec![Col { name: "ID".into(), st, row }, Col { name: "y".into(), st: ScalarType::I32, row: vec![] }], null_pos: 2, rows: mk(rb, 1) },
        keys: vec![("id".into(), "ID".into())],
    }
}

pub fn tiny_case(jt: u8, masked: bool) -> JoinCase {
    family_case(jt, masked, ScalarType::U8, vec![], &[R::L(1), R::L(2), R::N(3)], &[R::L(2), R::L(4)])
}

pub fn grid_cases() -> Vec<JoinCase> {
    use R::*;
    let families: Vec<(Vec<R>, Vec<R>)> = vec![
        (vec![L(1), L(2)], vec![L(3), L(4)]),
        (vec![L(1), L(2), L(3)], vec![L(3), L(1), L(5)]),
        (vec![L(1), L(2)], vec![L(2), L(1), L(3)]),
        (vec![L(1), L(2), L(3)], vec![L(3), L(2), L(1)]),
        (vec![L(1), N(2), L(2)], vec![N(1), L(2), L(3)]),
        (vec![N(1), N(1)], vec![L(1)]),
        (vec![L(1)], vec![N(1), N(2), N(1)]),
        (vec![L(1), M(2), L(3)], vec![L(2), M(1), L(1)]),
        (vec![M(1), M(1)], vec![L(1), M(1)]),
        (vec![L(0)], vec![L(0)]),
        (vec![L(0), L(7)], vec![N(0), L(7), L(0)]),
    ];
    let types: Vec<(ScalarType, Vec<u64>)> = vec![
        (ScalarType::U8, vec![]),
        (ScalarType::I64, vec![2]),
        (ScalarType::Bit, vec![3]),
        (ScalarType::U128, vec![]),
        (ScalarType::I16, vec![1]),
    ];
    let mut out = vec![];
    for jt in 0..4u8 {
        for masked in [false, true] {
            for (ra, rb) in &families {
                for (st, row) in &types {
                    let mut c = family_case(jt, masked, *st, row.clone(), ra, rb);
                    // null column of the second table last / first, of the first table first / second
                    if out.len() % 2 == 1 {
                        c.b.null_pos = 0;
                    }
                    if out.len() % 3 == 2 {
                        c.a.null_pos = 1;
                    }
                    if validate_case(&c).is_ok() {
                        out.push(c);
                    }
                }
            }
        }
    }
    out
}
