//! Well-formedness checker for contexts (DESIGN §2.7), through public getters plus the context's own
//! serialized form (the only public observation point for the `finalized` flags and for table
//! entries that are not reachable from a live node).
//!
//! Invariants (property C11): graph and node ids dense and in creation order; every dependency
//! precedes its user and lives in the same graph / context; called graphs are finalized and older
//! than the caller; names unique and resolving back; every stored node has a valid inferred type;
//! output / main graph belong where they are stored; finalization flags consistent; no table entry
//! (name, annotation) refers to a graph or node that does not exist. Read-only: never mutates.
use ciphercore_base::graphs::{Context, Operation};
use serde_json::Value as J;
use std::collections::{BTreeMap, BTreeSet};

/// The decoded inner payload of `serde_json::to_string(&context)`.
pub fn context_json(c: &Context) -> Result<J, String> {
    let text = serde_json::to_string(c).map_err(|e| format!("to_string failed: {}", e))?;
    inner_json(&text)
}

pub fn inner_json(text: &str) -> Result<J, String> {
    let outer: J = serde_json::from_str(text).map_err(|e| format!("outer JSON: {}", e))?;
    let data = outer["data"].as_str().ok_or_else(|| "no data string in envelope".to_string())?;
    serde_json::from_str(data).map_err(|e| format!("inner JSON: {}", e))
}

fn as_u64(v: &J) -> Option<u64> {
    v.as_u64().or_else(|| v.to_string().parse::<u64>().ok())
}

/// finalized flags as the serialized form reports them: (context, per graph)
pub fn finalized_flags(data: &J) -> Result<(bool, Vec<bool>), String> {
    let cf = data["finalized"].as_bool().ok_or("no context finalized flag")?;
    let gs = data["graphs"].as_array().ok_or("no graphs array")?;
    let mut out = vec![];
    for g in gs {
        out.push(g["finalized"].as_bool().ok_or("no graph finalized flag")?);
    }
    Ok((cf, out))
}

pub fn check_context(c: &Context) -> Result<(), String> {
    let data = context_json(c)?;
    check_context_with(c, &data)
}

pub fn check_context_with(c: &Context, data: &J) -> Result<(), String> {
    let (ctx_final, gfinal) = finalized_flags(data)?;
    let graphs = c.get_graphs();
    if c.get_num_graphs() != graphs.len() as u64 {
        return Err(format!("get_num_graphs {} != get_graphs().len() {}", c.get_num_graphs(), graphs.len()));
    }
    if gfinal.len() != graphs.len() {
        return Err(format!("serialized form has {} graphs, context {}", gfinal.len(), graphs.len()));
    }
    if ctx_final != c.check_finalized().is_ok() {
        return Err("serialized finalized flag differs from check_finalized()".into());
    }
    let jgraphs = data["graphs"].as_array().unwrap();
    let mut graph_names: BTreeMap<String, u64> = BTreeMap::new();
    for (i, g) in graphs.iter().enumerate() {
        let i64_ = i as u64;
        if g.get_id() != i64_ {
            return Err(format!("graph at position {} has id {}", i, g.get_id()));
        }
        if g.get_context() != *c {
            return Err(format!("graph {} belongs to another context", i));
        }
        match c.get_graph_by_id(i64_) {
            Ok(g2) if g2 == *g => {}
            _ => return Err(format!("get_graph_by_id({}) is not the graph at that position", i)),
        }
        let nodes = g.get_nodes();
        if g.get_num_nodes() != nodes.len() as u64 {
            return Err(format!("graph {}: get_num_nodes {} != get_nodes().len() {}", i, g.get_num_nodes(), nodes.len()));
        }
        let jnodes = jgraphs[i]["nodes"].as_array().ok_or("graph without nodes array")?;
        if jnodes.len() != nodes.len() {
            return Err(format!("graph {}: serialized form has {} nodes, graph {}", i, jnodes.len(), nodes.len()));
        }
        let mut names: BTreeSet<String> = BTreeSet::new();
        for (j, n) in nodes.iter().enumerate() {
            let j64 = j as u64;
            let at = format!("node ({},{})", i, j);
            if n.get_id() != j64 {
                return Err(format!("{} has id {}", at, n.get_id()));
            }
            if n.get_graph() != *g {
                return Err(format!("{} reports another parent graph", at));
            }
            if n.get_global_id() != (i64_, j64) {
                return Err(format!("{} has global id {:?}", at, n.get_global_id()));
            }
            match g.get_node_by_id(j64) {
                Ok(n2) if n2 == *n => {}
                _ => return Err(format!("{}: get_node_by_id does not return it", at)),
            }
            match c.get_node_by_global_id((i64_, j64)) {
                Ok(n2) if n2 == *n => {}
                _ => return Err(format!("{}: get_node_by_global_id does not return it", at)),
            }
            for d in n.get_node_dependencies() {
                if d.get_graph() != *g {
                    return Err(format!("{} depends on a node of another graph", at));
                }
                let did = d.get_id();
                if did >= j64 {
                    return Err(format!("{} depends on node {} which does not precede it", at, did));
                }
                if nodes[did as usize] != d {
                    return Err(format!("{}: dependency {} is not the node stored at that id", at, did));
                }
            }
            let gds = n.get_graph_dependencies();
            if !gds.is_empty() && !matches!(n.get_operation(), Operation::Call | Operation::Iterate) {
                return Err(format!("{}: {} has graph dependencies", at, n.get_operation()));
            }
            for gd in gds {
                if gd.get_context() != *c {
                    return Err(format!("{} calls a graph of another context", at));
                }
                let gid = gd.get_id();
                if gid >= i64_ {
                    return Err(format!("{} calls graph {} which is not older than its own graph", at, gid));
                }
                if graphs[gid as usize] != gd {
                    return Err(format!("{}: called graph {} is not the graph stored at that id", at, gid));
                }
                if !gfinal[gid as usize] {
                    return Err(format!("{} calls graph {} which is not finalized", at, gid));
                }
            }
            match n.get_type() {
                Ok(t) => {
                    if !t.is_valid() {
                        return Err(format!("{}: inferred type {} is not valid", at, t));
                    }
                    // asking twice gives the same answer
                    match n.get_type() {
                        Ok(t2) if t2 == t => {}
                        _ => return Err(format!("{}: get_type is not stable", at)),
                    }
                }
                Err(e) => return Err(format!("{} ({}) has no inferred type: {}", at, n.get_operation(), e)),
            }
            match n.get_name() {
                Ok(Some(name)) => {
                    if !names.insert(name.clone()) {
                        return Err(format!("{}: name {:?} is used twice in graph {}", at, name, i));
                    }
                    match c.retrieve_node(g.clone(), &name) {
                        Ok(n2) if n2 == *n => {}
                        Ok(n2) => {
                            return Err(format!("{}: name {:?} resolves to node {:?}", at, name, n2.get_global_id()))
                        }
                        Err(e) => return Err(format!("{}: name {:?} does not resolve: {}", at, name, e)),
                    }
                    match c.get_node_name(n.clone()) {
                        Ok(Some(x)) if x == name => {}
                        _ => return Err(format!("{}: Context::get_node_name disagrees with Node::get_name", at)),
                    }
                }
                Ok(None) => {}
                Err(e) => return Err(format!("{}: get_name failed: {}", at, e)),
            }
            if let Err(e) = n.get_annotations() {
                return Err(format!("{}: get_annotations failed: {}", at, e));
            }
        }
        // output node
        let jout = &jgraphs[i]["output_node"];
        match g.get_output_node() {
            Ok(o) => {
                if o.get_graph() != *g {
                    return Err(format!("graph {}: output node belongs to another graph", i));
                }
                let oid = o.get_id();
                if oid as usize >= nodes.len() || nodes[oid as usize] != o {
                    return Err(format!("graph {}: output node {} is not a stored node", i, oid));
                }
                if as_u64(jout) != Some(oid) {
                    return Err(format!("graph {}: serialized output node {} != {}", i, jout, oid));
                }
            }
            Err(_) => {
                if gfinal[i] {
                    return Err(format!("graph {} is finalized without an output node", i));
                }
                if !jout.is_null() {
                    return Err(format!("graph {}: serialized output node {} but getter has none", i, jout));
                }
            }
        }
        if ctx_final && !gfinal[i] {
            return Err(format!("context is finalized but graph {} is not", i));
        }
        // graph name
        if let Ok(name) = g.get_name() {
            if let Some(prev) = graph_names.insert(name.clone(), i64_) {
                return Err(format!("graph name {:?} used by graphs {} and {}", name, prev, i));
            }
            match c.retrieve_graph(&name) {
                Ok(g2) if g2 == *g => {}
                Ok(g2) => return Err(format!("graph {}: name {:?} resolves to graph {}", i, name, g2.get_id())),
                Err(e) => return Err(format!("graph {}: name {:?} does not resolve: {}", i, name, e)),
            }
        }
        if let Err(e) = g.get_annotations() {
            return Err(format!("graph {}: get_annotations failed: {}", i, e));
        }
    }
    // main graph
    match c.get_main_graph() {
        Ok(m) => {
            if m.get_context() != *c {
                return Err("main graph belongs to another context".into());
            }
            let mid = m.get_id();
            if mid as usize >= graphs.len() || graphs[mid as usize] != m {
                return Err(format!("main graph {} is not a stored graph", mid));
            }
            if !gfinal[mid as usize] {
                return Err(format!("main graph {} is not finalized", mid));
            }
            if as_u64(&data["main_graph"]) != Some(mid) {
                return Err(format!("serialized main graph {} != {}", data["main_graph"], mid));
            }
        }
        Err(_) => {
            if ctx_final {
                return Err("context is finalized without a main graph".into());
            }
            if !data["main_graph"].is_null() {
                return Err("serialized main graph set but getter has none".into());
            }
        }
    }
    // tables: every entry must refer to an existing object and agree with the getters
    let node_exists = |gid: u64, nid: u64| -> bool {
        (gid as usize) < graphs.len() && nid < graphs[gid as usize].get_num_nodes()
    };
    let mut seen_keys: BTreeSet<(u64, u64)> = BTreeSet::new();
    for e in data["nodes_names"].as_array().ok_or("no nodes_names")? {
        let (gid, nid) = (as_u64(&e[0][0]).ok_or("bad key")?, as_u64(&e[0][1]).ok_or("bad key")?);
        if !node_exists(gid, nid) {
            return Err(format!("nodes_names has an entry for non-existent node ({},{})", gid, nid));
        }
        if !seen_keys.insert((gid, nid)) {
            return Err(format!("nodes_names has two entries for node ({},{})", gid, nid));
        }
        let n = graphs[gid as usize].get_node_by_id(nid).map_err(|e| e.to_string())?;
        let got = n.get_name().map_err(|e| e.to_string())?;
        if got.as_deref() != e[1].as_str() {
            return Err(format!("nodes_names entry ({},{})={} but get_name gives {:?}", gid, nid, e[1], got));
        }
    }
    let named_nodes: usize = graphs
        .iter()
        .map(|g| g.get_nodes().iter().filter(|n| matches!(n.get_name(), Ok(Some(_)))).count())
        .sum();
    if named_nodes != seen_keys.len() {
        return Err(format!("{} nodes report a name but nodes_names has {} entries", named_nodes, seen_keys.len()));
    }
    let mut seen_g: BTreeSet<u64> = BTreeSet::new();
    for e in data["graphs_names"].as_array().ok_or("no graphs_names")? {
        let gid = as_u64(&e[0]).ok_or("bad key")?;
        if gid as usize >= graphs.len() {
            return Err(format!("graphs_names has an entry for non-existent graph {}", gid));
        }
        if !seen_g.insert(gid) {
            return Err(format!("graphs_names has two entries for graph {}", gid));
        }
        let got = graphs[gid as usize].get_name().ok();
        if got.as_deref() != e[1].as_str() {
            return Err(format!("graphs_names entry {}={} but get_name gives {:?}", gid, e[1], got));
        }
    }
    if graph_names.len() != seen_g.len() {
        return Err(format!("{} graphs report a name but graphs_names has {} entries", graph_names.len(), seen_g.len()));
    }
    for e in data["nodes_annotations"].as_array().ok_or("no nodes_annotations")? {
        let (gid, nid) = (as_u64(&e[0][0]).ok_or("bad key")?, as_u64(&e[0][1]).ok_or("bad key")?);
        if !node_exists(gid, nid) {
            return Err(format!("nodes_annotations has an entry for non-existent node ({},{})", gid, nid));
        }
        let n = graphs[gid as usize].get_node_by_id(nid).map_err(|e| e.to_string())?;
        let got = serde_json::to_value(n.get_annotations().map_err(|e| e.to_string())?).map_err(|e| e.to_string())?;
        if got != e[1] {
            return Err(format!("nodes_annotations entry ({},{})={} but getter gives {}", gid, nid, e[1], got));
        }
    }
    for e in data["graphs_annotations"].as_array().ok_or("no graphs_annotations")? {
        let gid = as_u64(&e[0]).ok_or("bad key")?;
        if gid as usize >= graphs.len() {
            return Err(format!("graphs_annotations has an entry for non-existent graph {}", gid));
        }
        let got = serde_json::to_value(graphs[gid as usize].get_annotations().map_err(|e| e.to_string())?)
            .map_err(|e| e.to_string())?;
        if got != e[1] {
            return Err(format!("graphs_annotations entry {}={} but getter gives {}", gid, e[1], got));
        }
    }
    Ok(())
}
