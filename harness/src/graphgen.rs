//! Graph recipes (DESIGN §2.2): plain-data descriptions of graphs, and the interpreter that builds a
//! ciphercore context from one through the public builder API. Steps that the builder rejects are
//! skipped and counted (construction over rejection: parameters are constructed to fit the picked
//! operands).
use crate::gen::pick;
use crate::hv::*;
use ciphercore_base::custom_ops::{CustomOperation, Not, Or};
use ciphercore_base::data_types::{
    array_type, scalar_type, vector_type, ScalarType, Type, BIT, UINT64,
};
use ciphercore_base::data_values::Value;
use ciphercore_base::graphs::{create_context, Context, Graph, Node, SliceElement};
use ciphercore_base::ops::adder::BinaryAdd;
use ciphercore_base::ops::clip::Clip2K;
use ciphercore_base::ops::comparisons::{
    Equal, GreaterThan, GreaterThanEqualTo, LessThan, LessThanEqualTo, NotEqual,
};
use ciphercore_base::ops::min_max::{Max, Min};
use ciphercore_base::ops::multiplexer::Mux;
use proptest::prelude::*;
use serde::{Deserialize, Serialize};

#[derive(Clone, Copy, Debug, Serialize, Deserialize, PartialEq, Eq, Hash, PartialOrd, Ord)]
pub enum K {
    Input,
    InputBits,
    Const,
    Zeros,
    Ones,
    Add,
    Sub,
    Mul,
    MixedMul,
    Dot,
    Matmul,
    Gemm,
    Sum,
    CumSum,
    Permute,
    Get,
    Slice,
    Reshape,
    Stack,
    Concat,
    Repeat,
    MkTuple,
    MkNamed,
    MkVector,
    TupleGet,
    NamedGet,
    VectorGet,
    Zip,
    A2V,
    V2A,
    A2B,
    B2A,
    Trunc,
    Sort,
    ApplyPerm,
    Cmp,
    MinMax,
    Mux,
    Not,
    Or,
    BinAdd,
    Clip,
    Call,
    Iterate,
    Nop,
    Random,
    RandomPerm,
    Prf,
    PermPrf,
    Dup,
    InputSmallBit,
    InputSmallByte,
    Trunc2k,
    ApplyPermPublic,
    SortSmall,
    CuckooToPerm,
    DecomposeSwitch,
    DupSwap,
    SortWide,
}

#[derive(Clone, Debug, Serialize, Deserialize, PartialEq, Eq, Hash)]
pub struct Step {
    pub k: K,
    pub a: u16,
    pub b: u16,
    pub c: u16,
    pub p: [u16; 4],
}

#[derive(Clone, Debug, Serialize, Deserialize, PartialEq, Eq, Hash)]
pub struct Sub {
    /// parameters of the sub-graph's inputs (for an Iterate body: exactly [state, element])
    pub ins: Vec<[u16; 4]>,
    pub steps: Vec<Step>,
    pub iter: bool,
    pub out: u16,
}

#[derive(Clone, Debug, Serialize, Deserialize, PartialEq, Eq, Hash)]
pub struct Recipe {
    pub subs: Vec<Sub>,
    pub steps: Vec<Step>,
    pub out: u16,
    /// value pool: (kind, raw); element j of input i is vals[(i*31 + j*7 + 3) % len]
    pub vals: Vec<(u8, u128)>,
}

#[derive(Clone, Debug, PartialEq, Eq)]
pub enum InKind {
    Plain,
    Perm,
}

pub struct Built {
    pub context: Context,
    pub main: Graph,
    pub inputs: Vec<(Node, Type, InKind)>,
    pub applied: Vec<String>,
    pub skipped: usize,
    pub n_ops: usize,
}

pub fn splitmix(x: &mut u64) -> u64 {
    *x = x.wrapping_add(0x9E37_79B9_7F4A_7C15);
    let mut z = *x;
    z = (z ^ (z >> 30)).wrapping_mul(0xBF58_476D_1CE4_E5B9);
    z = (z ^ (z >> 27)).wrapping_mul(0x94D0_49BB_1331_11EB);
    z ^ (z >> 31)
}

fn elem_from(kind: u8, raw: u128, st: ScalarType) -> u128 {
    let b = bits(st);
    let m = mask(st);
    if b == 1 {
        return (raw ^ kind as u128) & 1;
    }
    match kind % 10 {
        0 => 0,
        1 => 1,
        2 => m,
        3 => 1u128 << (b - 1),
        4 => (1u128 << (b - 1)) - 1,
        5 => (raw % 16) & m,
        6 => (raw % 16).wrapping_neg() & m,
        _ => raw & m,
    }
}

fn const_elems(seed: u64, n: usize, st: ScalarType) -> Vec<u128> {
    let mut s = seed;
    (0..n)
        .map(|_| {
            let k = splitmix(&mut s);
            let r = ((splitmix(&mut s) as u128) << 64) | splitmix(&mut s) as u128;
            elem_from((k % 10) as u8, r, st)
        })
        .collect()
}

pub fn st_from(p: u16) -> ScalarType {
    // BIT and the narrow types are weighted up (cheaper protocols, more cases per second)
    const TABLE: [usize; 20] = [0, 0, 1, 2, 3, 4, 5, 6, 7, 8, 9, 10, 1, 2, 5, 6, 7, 8, 0, 3];
    ALL_ST[TABLE[(p % 20) as usize]]
}

pub fn shape_from(p1: u16, p2: u16) -> Vec<u64> {
    let rank = match p1 % 8 {
        0 => 0,
        1 | 2 | 3 => 1,
        4 | 5 | 6 => 2,
        _ => 3,
    };
    let mut dims = vec![];
    let mut q = p2 as u64;
    for _ in 0..rank {
        dims.push(1 + q % 4);
        q /= 4;
    }
    dims
}

pub fn leaf_type(st: ScalarType, shape: &[u64]) -> Type {
    if shape.is_empty() {
        scalar_type(st)
    } else {
        array_type(shape.to_vec(), st)
    }
}

pub fn type_from_params(p: &[u16; 4]) -> Type {
    let st = st_from(p[0]);
    leaf_type(st, &shape_from(p[1], p[2]))
}

/// numpy broadcasting compatibility
pub fn broadcastable(a: &[u64], b: &[u64]) -> bool {
    let n = a.len().max(b.len());
    for i in 0..n {
        let x = if i < n - a.len() { 1 } else { a[i - (n - a.len())] };
        let y = if i < n - b.len() { 1 } else { b[i - (n - b.len())] };
        if x != y && x != 1 && y != 1 {
            return false;
        }
    }
    true
}

struct Pool {
    g: Graph,
    nodes: Vec<Node>,
    types: Vec<Type>,
}

impl Pool {
    fn push(&mut self, n: Node) -> usize {
        let t = n.get_type().expect("node without type");
        self.nodes.push(n);
        self.types.push(t);
        self.nodes.len() - 1
    }
    fn pick_where<F: Fn(&Type) -> bool>(&self, sel: u16, pred: F) -> Option<usize> {
        let cands: Vec<usize> = (0..self.nodes.len()).filter(|i| pred(&self.types[*i])).collect();
        if cands.is_empty() {
            None
        } else {
            // prefer recent nodes: sel==0 -> the most recent candidate
            Some(cands[cands.len() - 1 - pick(sel, cands.len())])
        }
    }
}

pub struct Builder<'a> {
    recipe: &'a Recipe,
    context: Context,
    subs: Vec<Option<(Graph, Vec<Type>, Type, bool)>>, // graph, input types, output type, iter
    pub inputs: Vec<(Node, Type, InKind)>,
    pub applied: Vec<String>,
    pub skipped: usize,
    /// when false, partners that are not in the pool become constants instead of new inputs
    allow_inputs: bool,
    pub max_elems: u64,
}

fn is_arr(t: &Type) -> bool {
    is_leaf(t)
}
fn shape_of(t: &Type) -> Vec<u64> {
    leaf_shape(t)
}
fn elems_of(t: &Type) -> u64 {
    shape_of(t).iter().product::<u64>()
}

impl<'a> Builder<'a> {
    fn mk_const(&self, g: &Graph, t: &Type, seed: u64) -> Option<Node> {
        let st = leaf_st(t);
        let xs = const_elems(seed, type_elems(t), st);
        g.constant(t.clone(), Value::from_bytes(encode_leaf(&xs, st))).ok()
    }

    /// a fresh operand of type t: a new input (main graph) or a constant
    fn fresh(&mut self, pool: &mut Pool, t: &Type, seed: u64, want_input: bool) -> Option<usize> {
        if want_input && self.allow_inputs && self.inputs.len() < 6 {
            let n = pool.g.input(t.clone()).ok()?;
            self.inputs.push((n.clone(), t.clone(), InKind::Plain));
            Some(pool.push(n))
        } else {
            let n = self.mk_const(&pool.g, t, seed)?;
            Some(pool.push(n))
        }
    }

    fn partner(
        &mut self,
        pool: &mut Pool,
        sel: u16,
        mode: u16,
        seed: u64,
        want: &Type,
        pred: &dyn Fn(&Type) -> bool,
    ) -> Option<usize> {
        // mode: 0,1 -> from the pool if possible; 2 -> fresh input; 3 -> constant
        if mode % 4 <= 1 {
            if let Some(i) = pool.pick_where(sel, pred) {
                return Some(i);
            }
        }
        self.fresh(pool, want, seed, mode % 4 != 3)
    }

    fn step(&mut self, pool: &mut Pool, s: &Step, depth: usize) -> Option<usize> {
        let g = pool.g.clone();
        let seed = (s.p[3] as u64) << 32 | (s.p[2] as u64) << 16 | s.c as u64;
        let cap = self.max_elems;
        match s.k {
            K::Input | K::InputBits => {
                if !self.allow_inputs || self.inputs.len() >= 6 {
                    return None;
                }
                let t = if s.k == K::InputBits {
                    // bit array whose last dimension is a B2A-able width or a small key width
                    let w = [8u64, 16, 32, 64, 3, 5, 1, 2][(s.p[0] % 8) as usize];
                    let mut sh = shape_from(s.p[1], s.p[2]);
                    sh.truncate(2);
                    sh.push(w);
                    array_type(sh, BIT)
                } else {
                    type_from_params(&s.p)
                };
                let n = g.input(t.clone()).ok()?;
                self.inputs.push((n.clone(), t, InKind::Plain));
                Some(pool.push(n))
            }
            K::InputSmallBit | K::InputSmallByte => {
                if !self.allow_inputs || self.inputs.len() >= 6 {
                    return None;
                }
                let st = if s.k == K::InputSmallBit { BIT } else if s.p[1] & 1 == 0 { ScalarType::U8 } else { ScalarType::I8 };
                let max = if s.k == K::InputSmallBit { 3 } else { 2 };
                let t = match s.p[0] % 4 {
                    0 => scalar_type(st),
                    k => array_type(vec![(k as u64).min(max)], st),
                };
                let n = g.input(t.clone()).ok()?;
                self.inputs.push((n.clone(), t, InKind::Plain));
                Some(pool.push(n))
            }
            K::Trunc2k => {
                let ia = pool.pick_where(s.a, |t| is_arr(t) && leaf_st(t) != BIT)?;
                let w = bits(leaf_st(&pool.types[ia])) as u16;
                let k = 1 + s.p[0] % (w - 2).max(1);
                g.truncate(pool.nodes[ia].clone(), 1u128 << k).ok().map(|n| pool.push(n))
            }
            K::Const => {
                let t = type_from_params(&s.p);
                let n = self.mk_const(&g, &t, seed ^ s.a as u64)?;
                Some(pool.push(n))
            }
            K::Zeros => g.zeros(type_from_params(&s.p)).ok().map(|n| pool.push(n)),
            K::Ones => g.ones(type_from_params(&s.p)).ok().map(|n| pool.push(n)),
            K::Add | K::Sub | K::Mul => {
                let ia = pool.pick_where(s.a, is_arr)?;
                let ta = pool.types[ia].clone();
                let st = leaf_st(&ta);
                let sa = shape_of(&ta);
                // broadcasting variant of a's shape for a fresh partner
                let mut sv = sa.clone();
                if !sv.is_empty() {
                    match s.p[1] % 4 {
                        0 => {
                            let k = (s.p[2] as usize) % sv.len();
                            sv[k] = 1;
                        }
                        1 => {
                            let k = (s.p[2] as usize) % sv.len();
                            sv = sv[k..].to_vec();
                        }
                        2 if std::env::var("VH_NO_LARGER_PARTNER").is_err() => {
                            // a LARGER partner: a is the operand that gets broadcast
                            let grow = 2 + (s.p[2] as u64 >> 4) % 3;
                            if let Some(k) = sv.iter().position(|d| *d == 1) {
                                sv[k] = grow;
                            } else if sv.len() < 4 {
                                sv.insert(0, grow);
                            }
                        }
                        _ => {}
                    }
                } else if s.p[1] % 4 == 2 && std::env::var("VH_NO_LARGER_PARTNER").is_err() {
                    sv = vec![2 + (s.p[2] as u64 >> 4) % 3];
                }
                let want = leaf_type(st, &sv);
                let ib = self.partner(pool, s.b, s.p[0], seed, &want, &|t: &Type| {
                    is_arr(t) && leaf_st(t) == st && broadcastable(&shape_of(t), &sa)
                })?;
                let (a, b) = (pool.nodes[ia].clone(), pool.nodes[ib].clone());
                let (a, b) = if s.p[1] & 8 != 0 { (b, a) } else { (a, b) };
                let r = match s.k {
                    K::Add => g.add(a, b),
                    K::Sub => g.subtract(a, b),
                    _ => g.multiply(a, b),
                };
                r.ok().map(|n| pool.push(n))
            }
            K::MixedMul => {
                let ia = pool.pick_where(s.a, |t| is_arr(t) && leaf_st(t) != BIT)?;
                let sa = shape_of(&pool.types[ia]);
                let want = leaf_type(BIT, &sa);
                let ib = self.partner(pool, s.b, s.p[0], seed, &want, &|t: &Type| {
                    is_arr(t) && leaf_st(t) == BIT && broadcastable(&shape_of(t), &sa)
                })?;
                g.mixed_multiply(pool.nodes[ia].clone(), pool.nodes[ib].clone())
                    .ok()
                    .map(|n| pool.push(n))
            }
            K::Dot | K::Matmul | K::Gemm => {
                let ia = pool.pick_where(s.a, |t| is_arr(t) && (s.k == K::Dot || !shape_of(t).is_empty()) && (s.k != K::Gemm || shape_of(t).len() >= 2))?;
                let ta = pool.types[ia].clone();
                let st = leaf_st(&ta);
                let sa = shape_of(&ta);
                let m = 1 + (s.p[1] % 3) as u64;
                let (ta_flag, tb_flag) = (s.p[2] & 1 != 0, s.p[2] & 2 != 0);
                let sb: Vec<u64> = match s.k {
                    K::Dot => {
                        if sa.is_empty() {
                            shape_from(s.p[1], s.p[2])
                        } else {
                            let n = *sa.last().unwrap();
                            match s.p[1] % 3 {
                                0 => vec![n],
                                1 => vec![n, m],
                                _ => vec![2, n, m],
                            }
                        }
                    }
                    K::Matmul => {
                        let n = *sa.last().unwrap();
                        match s.p[1] % 4 {
                            0 => vec![n],
                            1 => vec![n, m],
                            2 => {
                                let mut b: Vec<u64> = if sa.len() > 2 { sa[..sa.len() - 2].to_vec() } else { vec![2] };
                                if !b.is_empty() && s.p[2] & 4 != 0 {
                                    b[0] = 1;
                                }
                                b.push(n);
                                b.push(m);
                                b
                            }
                            _ => vec![1, n, m],
                        }
                    }
                    _ => {
                        let (r, c) = (sa[sa.len() - 2], sa[sa.len() - 1]);
                        let inner = if ta_flag { r } else { c };
                        let mut b: Vec<u64> = if s.p[1] % 2 == 0 { vec![] } else { sa[..sa.len() - 2].to_vec() };
                        if tb_flag {
                            b.push(m);
                            b.push(inner);
                        } else {
                            b.push(inner);
                            b.push(m);
                        }
                        b
                    }
                };
                if sb.iter().product::<u64>() > cap {
                    return None;
                }
                let want = leaf_type(st, &sb);
                let want2 = want.clone();
                let ib = self.partner(pool, s.b, s.p[0], seed, &want, &|t: &Type| *t == want2)?;
                let (a, b) = (pool.nodes[ia].clone(), pool.nodes[ib].clone());
                let r = match s.k {
                    K::Dot => g.dot(a, b),
                    K::Matmul => g.matmul(a, b),
                    _ => g.gemm(a, b, ta_flag, tb_flag),
                };
                r.ok().map(|n| pool.push(n))
            }
            K::Sum => {
                let ia = pool.pick_where(s.a, |t| t.is_array())?;
                let rank = shape_of(&pool.types[ia]).len();
                let axes: Vec<u64> = (0..rank as u64).filter(|i| (s.p[0] >> i) & 1 == 1).collect();
                g.sum(pool.nodes[ia].clone(), axes).ok().map(|n| pool.push(n))
            }
            K::CumSum => {
                let ia = pool.pick_where(s.a, |t| t.is_array())?;
                let rank = shape_of(&pool.types[ia]).len() as u64;
                g.cum_sum(pool.nodes[ia].clone(), s.p[0] as u64 % rank).ok().map(|n| pool.push(n))
            }
            K::Permute => {
                let ia = pool.pick_where(s.a, |t| t.is_array())?;
                let rank = shape_of(&pool.types[ia]).len();
                let mut perm: Vec<u64> = (0..rank as u64).collect();
                let mut q = s.p[0] as usize;
                for i in (1..rank).rev() {
                    perm.swap(i, q % (i + 1));
                    q /= i + 1;
                }
                g.permute_axes(pool.nodes[ia].clone(), perm).ok().map(|n| pool.push(n))
            }
            K::Get => {
                let ia = pool.pick_where(s.a, |t| t.is_array())?;
                let sh = shape_of(&pool.types[ia]);
                let len = 1 + (s.p[0] as usize) % sh.len();
                let idx: Vec<u64> = (0..len).map(|i| (s.p[1 + i % 3] as u64 >> i) % sh[i]).collect();
                g.get(pool.nodes[ia].clone(), idx).ok().map(|n| pool.push(n))
            }
            K::Slice => {
                let ia = pool.pick_where(s.a, |t| t.is_array())?;
                let sh = shape_of(&pool.types[ia]);
                let mut q = seed ^ ((s.p[0] as u64) << 48) ^ ((s.p[1] as u64) << 20);
                let mut sl = vec![];
                let mut ell = false;
                for d in &sh {
                    let r = splitmix(&mut q);
                    let d = *d as i64;
                    match r % 8 {
                        0 => sl.push(SliceElement::SingleIndex(((r >> 8) as i64).rem_euclid(2 * d) - d)),
                        1 if !ell => {
                            ell = true;
                            sl.push(SliceElement::Ellipsis);
                            break;
                        }
                        2 => sl.push(SliceElement::SubArray(None, None, Some(-1))),
                        3 => sl.push(SliceElement::SubArray(None, None, None)),
                        _ => {
                            let a = ((r >> 8) as i64).rem_euclid(2 * d + 2) - d - 1;
                            let b = ((r >> 20) as i64).rem_euclid(2 * d + 2) - d - 1;
                            let st = [1i64, 2, -1, -2, 3][((r >> 32) % 5) as usize];
                            sl.push(SliceElement::SubArray(
                                if (r >> 40) & 1 == 1 { Some(a) } else { None },
                                if (r >> 41) & 1 == 1 { Some(b) } else { None },
                                Some(st),
                            ));
                        }
                    }
                }
                g.get_slice(pool.nodes[ia].clone(), sl).ok().map(|n| pool.push(n))
            }
            K::Reshape => {
                let ia = pool.pick_where(s.a, |t| t.is_array())?;
                let t = pool.types[ia].clone();
                let n = elems_of(&t);
                // re-factor the element count
                let mut dims = vec![];
                let mut rest = n;
                let mut q = s.p[0] as u64;
                for f in [2u64, 3, 2, 5, 2, 3] {
                    if rest % f == 0 && q & 1 == 1 {
                        dims.push(f);
                        rest /= f;
                    }
                    q >>= 1;
                }
                dims.push(rest);
                if s.p[1] & 1 == 1 {
                    dims.reverse();
                }
                if s.p[1] & 2 == 2 {
                    dims.insert((s.p[1] as usize >> 2) % (dims.len() + 1), 1);
                }
                g.reshape(pool.nodes[ia].clone(), array_type(dims, leaf_st(&t))).ok().map(|n| pool.push(n))
            }
            K::Stack => {
                let ia = pool.pick_where(s.a, is_arr)?;
                let ta = pool.types[ia].clone();
                let st = leaf_st(&ta);
                let sa = shape_of(&ta);
                let k = 1 + (s.p[0] % 3) as usize;
                let mut parts = vec![pool.nodes[ia].clone()];
                for j in 1..k {
                    let sel = if j == 1 { s.b } else { s.c };
                    let ib = pool
                        .pick_where(sel, |t| is_arr(t) && leaf_st(t) == st && broadcastable(&shape_of(t), &sa))
                        .unwrap_or(ia);
                    parts.push(pool.nodes[ib].clone());
                }
                let outer = match (k, s.p[1] % 3) {
                    (_, 0) => vec![k as u64],
                    (_, 1) => vec![1, k as u64],
                    _ => vec![k as u64, 1],
                };
                g.stack(parts, outer).ok().map(|n| pool.push(n))
            }
            K::Concat => {
                let ia = pool.pick_where(s.a, |t| t.is_array())?;
                let ta = pool.types[ia].clone();
                let st = leaf_st(&ta);
                let sa = shape_of(&ta);
                let axis = (s.p[0] as usize) % sa.len();
                let ok = |t: &Type| {
                    t.is_array() && leaf_st(t) == st && {
                        let sb = shape_of(t);
                        sb.len() == sa.len() && (0..sa.len()).all(|i| i == axis || sa[i] == sb[i])
                    }
                };
                let k = 1 + (s.p[1] % 3) as usize;
                let mut parts = vec![pool.nodes[ia].clone()];
                for j in 1..k {
                    let sel = if j == 1 { s.b } else { s.c };
                    let ib = pool.pick_where(sel, ok).unwrap_or(ia);
                    parts.push(pool.nodes[ib].clone());
                }
                g.concatenate(parts, axis as u64).ok().map(|n| pool.push(n))
            }
            K::Repeat => {
                let ia = pool.pick_where(s.a, |_| true)?;
                g.repeat(pool.nodes[ia].clone(), 1 + (s.p[0] % 3) as u64).ok().map(|n| pool.push(n))
            }
            K::MkTuple | K::MkNamed => {
                let k = (s.p[0] % 4) as usize;
                let sels = [s.a, s.b, s.c];
                let mut parts = vec![];
                for j in 0..k.min(3) {
                    let i = pool.pick_where(sels[j], |_| true)?;
                    parts.push(pool.nodes[i].clone());
                }
                if s.k == K::MkTuple {
                    g.create_tuple(parts).ok().map(|n| pool.push(n))
                } else {
                    if parts.is_empty() {
                        return None;
                    }
                    let names = ["x", "y", "z"];
                    g.create_named_tuple(parts.into_iter().enumerate().map(|(i, n)| (names[i].to_string(), n)).collect())
                        .ok()
                        .map(|n| pool.push(n))
                }
            }
            K::MkVector => {
                let ia = pool.pick_where(s.a, |_| true)?;
                let ta = pool.types[ia].clone();
                let k = (s.p[0] % 4) as usize;
                let sels = [s.a, s.b, s.c];
                let mut parts = vec![];
                if s.p[1] & 1 == 1 {
                    // the k most recent DISTINCT nodes of this type (e.g. several products gathered
                    // into one container, which is then reshared / revealed as a whole)
                    let cands: Vec<usize> = (0..pool.nodes.len()).rev().filter(|i| pool.types[*i] == ta).collect();
                    let start = cands.iter().position(|i| *i == ia).unwrap_or(0);
                    for j in 0..k.min(3) {
                        if let Some(i) = cands.get(start + j) {
                            parts.push(pool.nodes[*i].clone());
                        }
                    }
                } else {
                    for j in 0..k.min(3) {
                        let i = if j == 0 { ia } else { pool.pick_where(sels[j], |t| *t == ta).unwrap_or(ia) };
                        parts.push(pool.nodes[i].clone());
                    }
                }
                g.create_vector(ta, parts).ok().map(|n| pool.push(n))
            }
            K::TupleGet => {
                let ia = pool.pick_where(s.a, |t| matches!(t, Type::Tuple(ts) if !ts.is_empty()))?;
                let n = children_types(&pool.types[ia]).len();
                g.tuple_get(pool.nodes[ia].clone(), (s.p[0] as usize % n) as u64).ok().map(|n| pool.push(n))
            }
            K::NamedGet => {
                let ia = pool.pick_where(s.a, |t| matches!(t, Type::NamedTuple(ts) if !ts.is_empty()))?;
                let names: Vec<String> = match &pool.types[ia] {
                    Type::NamedTuple(ts) => ts.iter().map(|(n, _)| n.clone()).collect(),
                    _ => unreachable!(),
                };
                let nm = names[s.p[0] as usize % names.len()].clone();
                g.named_tuple_get(pool.nodes[ia].clone(), nm).ok().map(|n| pool.push(n))
            }
            K::VectorGet => {
                let ia = pool.pick_where(s.a, |t| matches!(t, Type::Vector(n, _) if *n > 0))?;
                let n = match &pool.types[ia] {
                    Type::Vector(n, _) => *n,
                    _ => unreachable!(),
                };
                let idx = s.p[0] as u64 % n;
                let st = [UINT64, ScalarType::U32, ScalarType::U8, UINT64][(s.p[1] % 4) as usize];
                let c = g
                    .constant(scalar_type(st), Value::from_bytes(encode_leaf(&[idx as u128], st)))
                    .ok()?;
                g.vector_get(pool.nodes[ia].clone(), c).ok().map(|n| pool.push(n))
            }
            K::Zip => {
                let ia = pool.pick_where(s.a, |t| matches!(t, Type::Vector(_, _)))?;
                let n = match &pool.types[ia] {
                    Type::Vector(n, _) => *n,
                    _ => unreachable!(),
                };
                let ib = pool.pick_where(s.b, |t| matches!(t, Type::Vector(m, _) if *m == n)).unwrap_or(ia);
                g.zip(vec![pool.nodes[ia].clone(), pool.nodes[ib].clone()]).ok().map(|n| pool.push(n))
            }
            K::A2V => {
                let ia = pool.pick_where(s.a, |t| t.is_array())?;
                g.array_to_vector(pool.nodes[ia].clone()).ok().map(|n| pool.push(n))
            }
            K::V2A => {
                let ia = pool.pick_where(s.a, |t| matches!(t, Type::Vector(n, et) if *n > 0 && is_leaf(et)))?;
                g.vector_to_array(pool.nodes[ia].clone()).ok().map(|n| pool.push(n))
            }
            K::A2B => {
                let ia = pool.pick_where(s.a, |t| is_arr(t) && leaf_st(t) != BIT && elems_of(t) * bits(leaf_st(t)) as u64 <= cap * 8)?;
                g.a2b(pool.nodes[ia].clone()).ok().map(|n| pool.push(n))
            }
            K::B2A => {
                let ia = pool.pick_where(s.a, |t| {
                    t.is_array() && leaf_st(t) == BIT && matches!(shape_of(t).last(), Some(8 | 16 | 32 | 64 | 128))
                })?;
                let w = *shape_of(&pool.types[ia]).last().unwrap();
                let signed = s.p[0] & 1 == 1;
                let st = ALL_ST.iter().copied().find(|x| bits(*x) as u64 == w && is_signed(*x) == signed)?;
                g.b2a(pool.nodes[ia].clone(), st).ok().map(|n| pool.push(n))
            }
            K::Trunc => {
                let ia = pool.pick_where(s.a, |t| is_arr(t) && leaf_st(t) != BIT)?;
                let scale = match s.p[0] % 4 {
                    0 => 1u128 << (s.p[1] % 7),
                    1 => 3,
                    2 => 10,
                    _ => 1 + s.p[1] as u128,
                };
                g.truncate(pool.nodes[ia].clone(), scale).ok().map(|n| pool.push(n))
            }
            K::Sort | K::SortSmall | K::SortWide => {
                // key column: a rank-2 BIT array [n,b]; payload: arrays with the same first dimension
                let want = if s.k == K::SortWide {
                    // two rows, key of 5 or 6 bits: the radix loop (2-bit chunks) runs more than once
                    array_type(vec![2, 5 + (s.p[2] % 2) as u64], BIT)
                } else if s.k == K::SortSmall {
                    array_type(vec![2 + (s.p[1] % 2) as u64, 1 + (s.p[2] % 2) as u64], BIT)
                } else {
                    array_type(vec![2 + (s.p[1] % 4) as u64, 1 + (s.p[2] % 6) as u64], BIT)
                };
                let mode = if s.k == K::SortWide { 2 } else { s.p[0] };
                let want2 = want.clone();
                let wide = s.k == K::SortWide;
                let ik = self.partner(pool, s.a, mode, seed, &want, &|t: &Type| {
                    if wide {
                        return *t == want2;
                    }
                    t.is_array() && leaf_st(t) == BIT && shape_of(t).len() == 2 && shape_of(t)[1] <= 12 && shape_of(t)[0] <= 8
                })?;
                let n = shape_of(&pool.types[ik])[0];
                let mut cols = vec![("key".to_string(), pool.nodes[ik].clone())];
                if let Some(i) = pool.pick_where(s.b, |t| t.is_array() && shape_of(t)[0] == n) {
                    if i != ik || s.p[3] & 1 == 1 {
                        cols.push(("c1".to_string(), pool.nodes[i].clone()));
                    }
                }
                if s.p[3] & 2 == 2 {
                    if let Some(i) = pool.pick_where(s.c, |t| t.is_array() && shape_of(t)[0] == n) {
                        cols.push(("c2".to_string(), pool.nodes[i].clone()));
                    }
                }
                if s.p[3] & 4 == 4 {
                    cols.rotate_left(1);
                }
                let nt = g.create_named_tuple(cols).ok()?;
                let r = g.sort(nt, "key".to_string()).ok()?;
                Some(pool.push(r))
            }
            K::ApplyPerm | K::ApplyPermPublic => {
                let ia = pool.pick_where(s.a, |t| t.is_array() && shape_of(t)[0] <= 8)?;
                let n = shape_of(&pool.types[ia])[0];
                let st = [UINT64, ScalarType::U32, ScalarType::U16, ScalarType::U8][(s.p[1] % 4) as usize];
                let pt = array_type(vec![n], st);
                let ip = if s.k == K::ApplyPerm && s.p[0] % 3 != 0 && self.allow_inputs && self.inputs.len() < 6 {
                    let node = g.input(pt.clone()).ok()?;
                    self.inputs.push((node.clone(), pt, InKind::Perm));
                    pool.push(node)
                } else {
                    // public permutation constant
                    let mut perm: Vec<u128> = (0..n as u128).collect();
                    let mut q = seed;
                    for i in (1..n as usize).rev() {
                        perm.swap(i, (splitmix(&mut q) % (i as u64 + 1)) as usize);
                    }
                    let c = g.constant(pt, Value::from_bytes(encode_leaf(&perm, st))).ok()?;
                    pool.push(c)
                };
                let r = if s.p[2] & 1 == 1 {
                    g.apply_inverse_permutation(pool.nodes[ia].clone(), pool.nodes[ip].clone())
                } else {
                    g.apply_permutation(pool.nodes[ia].clone(), pool.nodes[ip].clone())
                };
                r.ok().map(|n| pool.push(n))
            }
            K::Cmp | K::MinMax | K::Or | K::BinAdd => {
                let ia = pool.pick_where(s.a, |t| t.is_array() && leaf_st(t) == BIT && *shape_of(t).last().unwrap() <= 64)?;
                let ta = pool.types[ia].clone();
                let sa = shape_of(&ta);
                let ib = pool
                    .pick_where(s.b, |t| {
                        t.is_array() && leaf_st(t) == BIT && shape_of(t).last() == sa.last() && broadcastable(&shape_of(t), &sa)
                    })
                    .unwrap_or(ia);
                let sg = s.p[1] & 1 == 1;
                let op = match s.k {
                    K::Cmp => match s.p[0] % 6 {
                        0 => CustomOperation::new(Equal {}),
                        1 => CustomOperation::new(NotEqual {}),
                        2 => CustomOperation::new(LessThan { signed_comparison: sg }),
                        3 => CustomOperation::new(LessThanEqualTo { signed_comparison: sg }),
                        4 => CustomOperation::new(GreaterThan { signed_comparison: sg }),
                        _ => CustomOperation::new(GreaterThanEqualTo { signed_comparison: sg }),
                    },
                    K::MinMax => {
                        if s.p[0] & 1 == 0 {
                            CustomOperation::new(Min { signed_comparison: sg })
                        } else {
                            CustomOperation::new(Max { signed_comparison: sg })
                        }
                    }
                    K::Or => CustomOperation::new(Or {}),
                    _ => CustomOperation::new(BinaryAdd { overflow_bit: sg }),
                };
                g.custom_op(op, vec![pool.nodes[ia].clone(), pool.nodes[ib].clone()]).ok().map(|n| pool.push(n))
            }
            K::Not => {
                let ia = pool.pick_where(s.a, |t| is_arr(t) && leaf_st(t) == BIT)?;
                g.custom_op(CustomOperation::new(Not {}), vec![pool.nodes[ia].clone()]).ok().map(|n| pool.push(n))
            }
            K::Mux => {
                let ix = pool.pick_where(s.a, |t| is_arr(t) && leaf_st(t) == BIT)?;
                let sx = shape_of(&pool.types[ix]);
                let iy = pool.pick_where(s.b, |t| is_arr(t) && leaf_st(t) == BIT && broadcastable(&shape_of(t), &sx)).unwrap_or(ix);
                let ic = pool.pick_where(s.c, |t| is_arr(t) && leaf_st(t) == BIT && broadcastable(&shape_of(t), &sx)).unwrap_or(ix);
                g.custom_op(
                    CustomOperation::new(Mux {}),
                    vec![pool.nodes[ic].clone(), pool.nodes[ix].clone(), pool.nodes[iy].clone()],
                )
                .ok()
                .map(|n| pool.push(n))
            }
            K::Clip => {
                let ia = pool.pick_where(s.a, |t| t.is_array() && leaf_st(t) == BIT && *shape_of(t).last().unwrap() >= 4 && *shape_of(t).last().unwrap() <= 64)?;
                let w = *shape_of(&pool.types[ia]).last().unwrap();
                let k = s.p[0] as u64 % (w - 1);
                g.custom_op(CustomOperation::new(Clip2K { k }), vec![pool.nodes[ia].clone()]).ok().map(|n| pool.push(n))
            }
            K::Call => {
                if depth > 0 && self.subs.is_empty() {
                    return None;
                }
                let avail: Vec<usize> = (0..self.subs.len()).filter(|i| matches!(&self.subs[*i], Some((_, _, _, false)))).collect();
                if avail.is_empty() {
                    return None;
                }
                let si = avail[pick(s.p[0], avail.len())];
                let (sg, ins, _, _) = self.subs[si].clone().unwrap();
                let sels = [s.a, s.b, s.c];
                let mut args = vec![];
                for (j, t) in ins.iter().enumerate() {
                    let tt = t.clone();
                    let i = self.partner(pool, sels[j % 3], s.p[1] >> (2 * j), seed ^ j as u64, t, &|x: &Type| *x == tt)?;
                    args.push(pool.nodes[i].clone());
                }
                g.call(sg, args).ok().map(|n| pool.push(n))
            }
            K::Iterate => {
                let avail: Vec<usize> = (0..self.subs.len()).filter(|i| matches!(&self.subs[*i], Some((_, _, _, true)))).collect();
                if avail.is_empty() {
                    return None;
                }
                let si = avail[pick(s.p[0], avail.len())];
                let (sg, ins, _, _) = self.subs[si].clone().unwrap();
                let st_t = ins[0].clone();
                let st_t2 = st_t.clone();
                let is_ = self.partner(pool, s.a, s.p[1], seed, &st_t, &|x: &Type| *x == st_t2)?;
                let len = (s.p[2] % 5) as u64;
                let vt = vector_type(len, ins[1].clone());
                let vt2 = vt.clone();
                let iv = match pool.pick_where(s.b, |x| *x == vt2) {
                    Some(i) => i,
                    None => {
                        // build the input vector from `len` elements
                        let et = ins[1].clone();
                        let mut parts = vec![];
                        for j in 0..len {
                            let et2 = et.clone();
                            let i = self.partner(pool, s.c.wrapping_add(j as u16 * 7919), s.p[1] >> 2, seed ^ (j + 17), &et, &|x: &Type| *x == et2)?;
                            parts.push(pool.nodes[i].clone());
                        }
                        let v = g.create_vector(et, parts).ok()?;
                        pool.push(v)
                    }
                };
                let _ = vt;
                g.iterate(sg, pool.nodes[is_].clone(), pool.nodes[iv].clone()).ok().map(|n| pool.push(n))
            }
            K::Nop => {
                let ia = pool.pick_where(s.a, |_| true)?;
                pool.nodes[ia].nop().ok().map(|n| pool.push(n))
            }
            K::Random => g.random(type_from_params(&s.p)).ok().map(|n| pool.push(n)),
            K::RandomPerm => g.random_permutation(1 + (s.p[0] % 6) as u64).ok().map(|n| pool.push(n)),
            K::Prf | K::PermPrf => {
                // keys are 128-bit BIT arrays derived from Random (or Input) nodes
                let key_t = array_type(vec![128], BIT);
                let kt = key_t.clone();
                // never a Constant-derived key: only Random / Input nodes (or a NOP directly on one)
                let is_key_source = |n: &Node| {
                    let direct = |m: &Node| matches!(m.get_operation(), ciphercore_base::graphs::Operation::Random(_) | ciphercore_base::graphs::Operation::Input(_));
                    direct(n) || (matches!(n.get_operation(), ciphercore_base::graphs::Operation::NOP) && direct(&n.get_node_dependencies()[0]))
                };
                let cands: Vec<usize> = (0..pool.nodes.len()).filter(|i| pool.types[*i] == kt && is_key_source(&pool.nodes[*i])).collect();
                let picked = if cands.is_empty() { None } else { Some(cands[cands.len() - 1 - pick(s.a, cands.len())]) };
                let ik = match picked {
                    Some(i) if s.p[1] % 4 != 0 => i,
                    _ => {
                        let n = g.random(key_t).ok()?;
                        pool.push(n)
                    }
                };
                let iv = (s.p[0] % 4) as u64; // small counters: collisions between nodes are likely
                if s.k == K::Prf {
                    pool.nodes[ik].prf(iv, type_from_params(&[s.p[2], s.p[3], s.b, 0])).ok().map(|n| pool.push(n))
                } else {
                    pool.nodes[ik].permutation_from_prf(iv, 1 + (s.p[2] % 6) as u64).ok().map(|n| pool.push(n))
                }
            }
            K::CuckooToPerm => {
                // a valid cuckoo table (constant): distinct indices < n-d plus d dummies (u64::MAX);
                // CuckooToPermutation fills the dummies with a random arrangement of the rest
                let n = 2 + (s.p[0] % 5) as usize;
                let d = (s.p[1] as usize) % (n + 1);
                let mut q = seed ^ 0xC0C0;
                let mut idx: Vec<u128> = (0..(n - d) as u128).collect();
                for i in (1..idx.len()).rev() {
                    idx.swap(i, (splitmix(&mut q) % (i as u64 + 1)) as usize);
                }
                let mut table = vec![u64::MAX as u128; n];
                let mut pos: Vec<usize> = (0..n).collect();
                for i in (1..n).rev() {
                    pos.swap(i, (splitmix(&mut q) % (i as u64 + 1)) as usize);
                }
                for (k, v) in idx.iter().enumerate() {
                    table[pos[k]] = *v;
                }
                let t = array_type(vec![n as u64], UINT64);
                let c = g.constant(t, Value::from_bytes(encode_leaf(&table, UINT64))).ok()?;
                let ic = pool.push(c);
                g.cuckoo_to_permutation(pool.nodes[ic].clone()).ok().map(|n| pool.push(n))
            }
            K::DecomposeSwitch => {
                let n = 2 + (s.p[0] % 5) as u64;
                let m = 1 + (s.p[1] as u64) % n;
                let mut q = seed ^ 0xD5;
                let map: Vec<u128> = (0..m).map(|_| (splitmix(&mut q) % n) as u128).collect();
                let t = array_type(vec![m], UINT64);
                let c = g.constant(t, Value::from_bytes(encode_leaf(&map, UINT64))).ok()?;
                let ic = pool.push(c);
                g.decompose_switching_map(pool.nodes[ic].clone(), n).ok().map(|n| pool.push(n))
            }
            K::DupSwap => {
                // re-add an existing two-operand node with its operands SWAPPED (Subtract, Dot,
                // Matmul, Gemm, MixedMultiply ... are not commutative: an optimiser must not treat
                // the two as duplicates); skipped when the swapped form does not type-check
                let cands: Vec<usize> = (0..pool.nodes.len())
                    .filter(|i| {
                        let n = &pool.nodes[*i];
                        let d = n.get_node_dependencies();
                        // ApplyPermutation is left out: swapping would make a data operand (possibly
                        // private) the permutation, which is open finding F-C01-1 and is excluded
                        // by construction everywhere else (only the pinned case exercises it)
                        d.len() == 2
                            && d[0] != d[1]
                            && n.get_graph_dependencies().is_empty()
                            && !matches!(n.get_operation(), ciphercore_base::graphs::Operation::ApplyPermutation(_))
                    })
                    .collect();
                if cands.is_empty() {
                    return None;
                }
                let n = pool.nodes[cands[cands.len() - 1 - pick(s.a, cands.len())]].clone();
                let d = n.get_node_dependencies();
                g.add_node(vec![d[1].clone(), d[0].clone()], vec![], n.get_operation())
                    .ok()
                    .map(|n| pool.push(n))
            }
            K::Dup => {
                // re-add an existing node: same operation, same dependencies
                let ia = pool.pick_where(s.a, |_| true)?;
                let n = pool.nodes[ia].clone();
                if n.get_operation().is_input() {
                    return None;
                }
                g.add_node(n.get_node_dependencies(), n.get_graph_dependencies(), n.get_operation())
                    .ok()
                    .map(|n| pool.push(n))
            }
        }
    }

    fn run_steps(&mut self, pool: &mut Pool, steps: &[Step], depth: usize) {
        for s in steps {
            let before = pool.nodes.len();
            match self.step(pool, s, depth) {
                Some(_) => self.applied.push(format!("{:?}", s.k)),
                None => {
                    self.skipped += 1;
                    // a rejected builder call may have left helper nodes (constants) behind; they
                    // stay as dangling nodes, which is fine
                    let _ = before;
                }
            }
        }
    }
}

/// Builds the context described by a recipe. Returns None if no output node could be built.
pub fn build(recipe: &Recipe, max_elems: u64) -> Option<Built> {
    let context = create_context().ok()?;
    let mut b = Builder {
        recipe,
        context: context.clone(),
        subs: vec![],
        inputs: vec![],
        applied: vec![],
        skipped: 0,
        allow_inputs: false,
        max_elems,
    };
    // sub-graphs first (callee graphs must be older than their callers)
    for sub in &recipe.subs {
        let g = context.create_graph().ok()?;
        let mut pool = Pool { g: g.clone(), nodes: vec![], types: vec![] };
        let mut in_types: Vec<Type> = vec![];
        let n_in = if sub.iter { 2 } else { sub.ins.len().clamp(1, 3) };
        for j in 0..n_in {
            let p = sub.ins.get(j).copied().unwrap_or([0, 1, 1, 0]);
            let mut t = type_from_params(&p);
            if sub.iter && j == 1 && p[3] % 4 != 0 {
                t = in_types[0].clone(); // element type == state type (most of the time)
            }
            let n = g.input(t.clone()).ok()?;
            pool.push(n);
            in_types.push(t);
        }
        b.allow_inputs = false;
        b.run_steps(&mut pool, &sub.steps, 1);
        let out = if sub.iter {
            let st = in_types[0].clone();
            let is_ = pool.pick_where(sub.out, |t| *t == st)?;
            let io = pool.pick_where(sub.out >> 3, |_| true)?;
            g.create_tuple(vec![pool.nodes[is_].clone(), pool.nodes[io].clone()]).ok()?
        } else {
            let io = pool.pick_where(sub.out, |_| true)?;
            pool.nodes[io].clone()
        };
        let ok = g.set_output_node(out.clone()).is_ok() && g.finalize().is_ok();
        if ok {
            b.subs.push(Some((g, in_types, out.get_type().ok()?, sub.iter)));
        } else {
            b.subs.push(None);
        }
    }
    let g = context.create_graph().ok()?;
    let mut pool = Pool { g: g.clone(), nodes: vec![], types: vec![] };
    b.allow_inputs = true;
    b.run_steps(&mut pool, &recipe.steps, 0);
    if pool.nodes.is_empty() {
        return None;
    }
    let io = pool.pick_where(recipe.out, |_| true)?;
    g.set_output_node(pool.nodes[io].clone()).ok()?;
    g.finalize().ok()?;
    context.set_main_graph(g.clone()).ok()?;
    context.finalize().ok()?;
    let n_ops = b.applied.iter().filter(|k| !matches!(k.as_str(), "Input" | "InputBits" | "Const" | "Zeros" | "Ones")).count();
    let _ = b.recipe;
    let _ = &b.context;
    Some(Built {
        context,
        main: g,
        inputs: b.inputs,
        applied: b.applied,
        skipped: b.skipped,
        n_ops,
    })
}

/// input values of a recipe, as harness values
pub fn input_values(recipe: &Recipe, inputs: &[(Node, Type, InKind)], salt: u64) -> Vec<HVal> {
    let len = recipe.vals.len().max(1);
    let get = |k: usize| -> (u8, u128) {
        if recipe.vals.is_empty() {
            (0, 0)
        } else {
            recipe.vals[k % len]
        }
    };
    inputs
        .iter()
        .enumerate()
        .map(|(i, (_, t, kind))| {
            let st = leaf_st(t);
            let n = type_elems(t);
            let off = (salt as usize).wrapping_mul(13);
            match kind {
                InKind::Plain => HVal::A((0..n).map(|j| { let (k, r) = get(i * 31 + j * 7 + 3 + off); elem_from(k, r, st) }).collect()),
                InKind::Perm => {
                    // a true permutation: order indices by the pooled raw values
                    let mut idx: Vec<usize> = (0..n).collect();
                    idx.sort_by_key(|j| (get(i * 31 + j * 7 + 3 + off).1, *j));
                    let mut perm = vec![0u128; n];
                    for (pos, j) in idx.iter().enumerate() {
                        perm[*j] = pos as u128;
                    }
                    HVal::A(perm)
                }
            }
        })
        .collect()
}

// ---------------------------------------------------------------------------------------------
// strategies

pub fn arb_step(kinds: Vec<(u32, K)>) -> BoxedStrategy<Step> {
    let ks: Vec<(u32, BoxedStrategy<K>)> = kinds.into_iter().map(|(w, k)| (w, Just(k).boxed())).collect();
    (
        proptest::strategy::Union::new_weighted(ks),
        any::<u16>(),
        any::<u16>(),
        any::<u16>(),
        any::<[u16; 4]>(),
    )
        .prop_map(|(k, a, b, c, p)| Step { k, a, b, c, p })
        .boxed()
}

pub fn arb_vals() -> BoxedStrategy<Vec<(u8, u128)>> {
    proptest::collection::vec((0u8..10, any::<u128>()), 8..40).boxed()
}

/// kinds compilable by the MPC compiler (without private truncation, joins)
pub fn mpc_kinds() -> Vec<(u32, K)> {
    vec![
        (6, K::Input),
        (3, K::InputBits),
        (3, K::Const),
        (1, K::Zeros),
        (1, K::Ones),
        (8, K::Add),
        (6, K::Sub),
        (10, K::Mul),
        (5, K::MixedMul),
        (4, K::Dot),
        (4, K::Matmul),
        (3, K::Gemm),
        (4, K::Sum),
        (3, K::CumSum),
        (3, K::Permute),
        (3, K::Get),
        (4, K::Slice),
        (3, K::Reshape),
        (3, K::Stack),
        (3, K::Concat),
        (2, K::Repeat),
        (3, K::MkTuple),
        (2, K::MkNamed),
        (2, K::MkVector),
        (3, K::TupleGet),
        (2, K::NamedGet),
        (3, K::VectorGet),
        (2, K::Zip),
        (2, K::A2V),
        (2, K::V2A),
        (5, K::A2B),
        (5, K::B2A),
        (1, K::Sort),
        (2, K::ApplyPerm),
        (2, K::Cmp),
        (1, K::MinMax),
        (1, K::Mux),
        (1, K::Not),
        (1, K::Or),
        (1, K::BinAdd),
        (1, K::Clip),
        (3, K::Call),
        (2, K::Iterate),
        // duplicated nodes and the same operation with swapped operands (dot(a,b) next to dot(b,a)):
        // what the optimiser rounds of the compile pipeline may or may not merge
        (1, K::Dup),
        (2, K::DupSwap),
    ]
}

pub fn arb_sub(kinds: Vec<(u32, K)>, max_steps: usize) -> BoxedStrategy<Sub> {
    // inside sub-graphs: no inputs-on-demand, no calls (kept flat)
    let inner: Vec<(u32, K)> = kinds
        .into_iter()
        .filter(|(_, k)| !matches!(k, K::Input | K::InputBits | K::Call | K::Iterate | K::Sort | K::ApplyPerm))
        .collect();
    (
        proptest::collection::vec(any::<[u16; 4]>(), 1..3),
        proptest::collection::vec(arb_step(inner), 1..=max_steps),
        any::<bool>(),
        any::<u16>(),
    )
        .prop_map(|(ins, steps, iter, out)| Sub { ins, steps, iter, out })
        .boxed()
}

pub fn arb_recipe(kinds: Vec<(u32, K)>, min_steps: usize, max_steps: usize, max_subs: usize) -> BoxedStrategy<Recipe> {
    let first = arb_step(vec![(3, K::Input), (1, K::InputBits)]);
    (
        proptest::collection::vec(arb_sub(kinds.clone(), 4), 0..=max_subs),
        proptest::collection::vec(first, 1..3),
        proptest::collection::vec(arb_step(kinds), min_steps..=max_steps),
        prop_oneof![3 => Just(0u16), 1 => any::<u16>()],
        arb_vals(),
    )
        .prop_map(|(subs, mut head, steps, out, vals)| {
            head.extend(steps);
            Recipe { subs, steps: head, out, vals }
        })
        .boxed()
}
