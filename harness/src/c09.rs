//! C09 — type inference is sound for evaluation; well-typed programs never crash.
//!
//! Generated recipes over ALL primitive operations (parameters from the fitting range and just
//! outside it) are replayed through the public builder; every builder call runs under
//! `util::catch` (Ok/Err, never a panic). Every finalised graph is evaluated node by node (own
//! recursive walker, so that the nodes of called graphs are checked too) and by the stock
//! `evaluate_graph`: every node value must satisfy `check_type(node.get_type())` and the harness's
//! own strict layout decoder; evaluation returns Ok or a documented data-dependent runtime error.
use crate::c09_util::*;
use crate::core::{replay_with, Env, Outcome};
use crate::hv::*;
use ciphercore_base::custom_ops::run_instantiation_pass;
use ciphercore_base::data_types::Type;
use ciphercore_base::data_values::Value;
use ciphercore_base::evaluators::simple_evaluator::SimpleEvaluator;
use ciphercore_base::evaluators::Evaluator;
use ciphercore_base::graphs::{Context, Graph, JoinType, Operation};
use proptest::prelude::*;
use serde::{Deserialize, Serialize};
use serde_json::Value as J;

pub const RULE: &str = "recipes over all primitive operations (55 step kinds incl. Gather, CuckooHash, SegmentCumSum, InversePermutation, CuckooToPermutation, DecomposeSwitchingMap, Shard*, Join*, Print/Assert, Random*/PRF*, Call/Iterate sub-graphs, raw add_node with wrong arity, a few custom ops) with parameters constructed to fit (e=0), just outside the fitting range (near-miss variants per operation) or with operands picked regardless of type (wild); inputs of the declared types with extremes, index-like inputs valid and invalid; \
oracle: every builder call under catch_unwind is Ok/Err; a near-miss variant that the documentation says does not fit must be rejected (table must_reject); the inferred type of every accepted node equals the type given by an independent model of the documented (NumPy-style) shape rules where the model has an opinion; every finalised graph whose types are small enough is evaluated by a recursive node-by-node walker and by the stock evaluate_graph: each node value check_type(node type) and strict harness layout decode, result Ok or a white-listed data-dependent runtime error, never a panic, never a type-related Err; \
non-trivial = graph with >= 3 non-input nodes whose evaluation returned Ok (both evaluators); caps: <= 14 steps, <= 8 inputs, evaluation only if every node type <= 2^18 bits and <= 5000 values";

#[derive(Clone, Debug, Serialize, Deserialize)]
pub struct Case {
    pub r: R9,
    pub seed: [u8; 16],
}

// ---------------------------------------------------------------------------------------------
// classification

/// signature of a panic: file:line of the panic site inside ciphercore; for the generic accessor
/// files (data_types.rs, data_values.rs: one panic line serves many callers) the operation is added
pub fn panic_sig(op: &str, msg: &str) -> String {
    let (m, loc) = msg.rsplit_once(" @ ").unwrap_or((msg, ""));
    let base = loc.rsplit('/').next().unwrap_or(loc);
    let fam = op.split(|c| c == ':' || c == '/').next().unwrap_or(op);
    if op.contains(JOIN_CLASH) {
        return "join-full-key-name-clash".to_string();
    }
    if loc.contains("ciphercore") {
        if base.starts_with("data_types.rs") || base.starts_with("data_values.rs") || base.starts_with("bytes.rs") {
            format!("panic:{}:{}", fam, base)
        } else {
            format!("panic:{}", base)
        }
    } else {
        let short: String = m.chars().filter(|c| c.is_ascii_alphanumeric() || *c == ' ').take(40).collect();
        format!("panic:{}:{}@{}", fam, short.trim().replace(' ', "_"), base)
    }
}

pub const JOIN_CLASH: &str = "!full-name-clash";

pub enum ErrClass {
    Documented(&'static str),
    TypeRelated(&'static str),
    Unclassified,
}

/// white-list of documented data-dependent runtime errors of the evaluator, and the list of
/// messages that can only mean "the accepted graph does not fit its own types"
pub fn classify_err(msg: &str) -> ErrClass {
    let m = msg.to_lowercase();
    const DOC: [(&str, &str); 10] = [
        ("index out of range", "index-out-of-range"),
        ("valid permutation", "invalid-permutation"),
        ("switching map has incorrect indices", "incorrect-switching-map"),
        ("contains duplicate indices", "duplicate-indices"),
        ("indices are incorrect", "incorrect-indices"),
        ("incorrect index", "incorrect-index"),
        ("cuckoo hashing failed", "cuckoo-failure"),
        ("assertion failed", "assertion-failed"),
        ("invalid permutation", "invalid-permutation"),
        ("duplicate", "duplicate-indices"),
    ];
    for (pat, name) in DOC {
        if m.contains(pat) {
            return ErrClass::Documented(name);
        }
    }
    const TYPE: [&str; 27] = [
        "should contain",
        "should be",
        "should have",
        "not implemented",
        "type and value mismatch",
        "not a vector",
        "not a scalar",
        "not an array",
        "doesn't match type",
        "cannot check type",
        "inconsisten",
        "incompatible vector and scalar type",
        "different lengths",
        "input is not a bit",
        "wrong type",
        "index is too",
        "negative index",
        "invalid type",
        "invalid input type",
        "cannot convert type",
        "is not supported",
        "can't get",
        "out of bound",
        "shouldn't be here",
        "should not be here",
        "trying to",
        "slice",
    ];
    for pat in TYPE {
        if m.contains(pat) {
            return ErrClass::TypeRelated(pat);
        }
    }
    ErrClass::Unclassified
}

fn op_name(op: &Operation) -> String {
    let s = format!("{}", op);
    s.split('(').next().unwrap_or("").to_string()
}

// ---------------------------------------------------------------------------------------------
// reference typing rules (written from the doc comments of graphs.rs and the NumPy pages they
// cite; independent of type_inference.rs). None = no opinion.

fn lt(st: ciphercore_base::data_types::ScalarType, sh: Vec<u64>) -> Type {
    if sh.is_empty() {
        ciphercore_base::data_types::scalar_type(st)
    } else {
        ciphercore_base::data_types::array_type(sh, st)
    }
}

fn np_broadcast(a: &[u64], b: &[u64]) -> Option<Vec<u64>> {
    let n = a.len().max(b.len());
    let mut out = vec![0u64; n];
    for i in 0..n {
        let x = if i + a.len() >= n { a[i + a.len() - n] } else { 1 };
        let y = if i + b.len() >= n { b[i + b.len() - n] } else { 1 };
        out[i] = if x == y || y == 1 { x } else if x == 1 { y } else { return None };
    }
    Some(out)
}

/// number of elements selected by a Python slice on a dimension of length d (no clamping needed
/// for slices the builder accepts: it rejects out-of-range bounds); None = empty/not representable
fn py_slice_len(d: u64, b: Option<i64>, e: Option<i64>, st: Option<i64>) -> Option<u64> {
    let d = d as i128;
    let step = st.unwrap_or(1) as i128;
    if step == 0 {
        return None;
    }
    let norm = |x: i64| if x < 0 { x as i128 + d } else { x as i128 };
    let begin = b.map(norm).unwrap_or(if step > 0 { 0 } else { d - 1 });
    let end = e.map(norm).unwrap_or(if step > 0 { d } else { -1 });
    let n = if step > 0 {
        if end <= begin { 0 } else { (end - begin + step - 1) / step }
    } else if end >= begin {
        0
    } else {
        (begin - end + (-step) - 1) / (-step)
    };
    if n <= 0 { None } else { Some(n as u64) }
}

pub fn ref_type(node: &ciphercore_base::graphs::Node) -> Option<Type> {
    use ciphercore_base::data_types::{vector_type, BIT};
    use ciphercore_base::graphs::SliceElement;
    let deps: Vec<Type> = node.get_node_dependencies().iter().map(|d| d.get_type().ok()).collect::<Option<Vec<_>>>()?;
    let leaf = |i: usize| -> Option<(ciphercore_base::data_types::ScalarType, Vec<u64>)> {
        let t = deps.get(i)?;
        if is_leaf(t) { Some((leaf_st(t), leaf_shape(t))) } else { None }
    };
    match node.get_operation() {
        Operation::Add | Operation::Subtract | Operation::Multiply => {
            let (sa, a) = leaf(0)?;
            let (_, b) = leaf(1)?;
            Some(lt(sa, np_broadcast(&a, &b)?))
        }
        Operation::MixedMultiply => {
            let (sa, a) = leaf(0)?;
            let (_, b) = leaf(1)?;
            Some(lt(sa, np_broadcast(&a, &b)?))
        }
        Operation::Dot => {
            let (st, a) = leaf(0)?;
            let (_, b) = leaf(1)?;
            if a.is_empty() {
                return Some(lt(st, b));
            }
            if b.is_empty() {
                return Some(lt(st, a));
            }
            let mut r = a[..a.len() - 1].to_vec();
            if b.len() >= 2 {
                r.extend_from_slice(&b[..b.len() - 2]);
                r.push(b[b.len() - 1]);
            }
            Some(lt(st, r))
        }
        Operation::Matmul => {
            let (st, a) = leaf(0)?;
            let (_, b) = leaf(1)?;
            if a.is_empty() || b.is_empty() {
                return None;
            }
            let a2 = if a.len() == 1 { vec![1, a[0]] } else { a.clone() };
            let b2 = if b.len() == 1 { vec![b[0], 1] } else { b.clone() };
            let mut r = np_broadcast(&a2[..a2.len() - 2], &b2[..b2.len() - 2])?;
            if a.len() > 1 {
                r.push(a2[a2.len() - 2]);
            }
            if b.len() > 1 {
                r.push(b2[b2.len() - 1]);
            }
            Some(lt(st, r))
        }
        Operation::Gemm(ta, tb) => {
            let (st, mut a) = leaf(0)?;
            let (_, mut b) = leaf(1)?;
            if a.len() < 2 || b.len() < 2 {
                return None;
            }
            let (la, lb) = (a.len(), b.len());
            if ta {
                a.swap(la - 1, la - 2);
            }
            if tb {
                b.swap(lb - 1, lb - 2);
            }
            let mut r = np_broadcast(&a[..la - 2], &b[..lb - 2])?;
            r.push(a[la - 2]);
            r.push(b[lb - 1]);
            Some(lt(st, r))
        }
        Operation::Sum(axes) => {
            let (st, a) = leaf(0)?;
            Some(lt(st, a.iter().enumerate().filter(|(i, _)| !axes.contains(&(*i as u64))).map(|(_, d)| *d).collect()))
        }
        Operation::CumSum(_) | Operation::Truncate(_) | Operation::NOP | Operation::Print(_) | Operation::InversePermutation | Operation::CuckooToPermutation => deps.first().cloned(),
        Operation::ApplyPermutation(_) | Operation::Sort(_) => deps.first().cloned(),
        Operation::Assert(_) => deps.get(1).cloned(),
        Operation::PermuteAxes(p) => {
            let (st, a) = leaf(0)?;
            Some(lt(st, p.iter().map(|i| a.get(*i as usize).copied()).collect::<Option<Vec<u64>>>()?))
        }
        Operation::Get(idx) => {
            let (st, a) = leaf(0)?;
            Some(lt(st, a.get(idx.len()..)?.to_vec()))
        }
        Operation::GetSlice(sl) => {
            let (st, a) = leaf(0)?;
            let n_ell = sl.iter().filter(|x| matches!(x, SliceElement::Ellipsis)).count();
            if n_ell > 1 {
                return None;
            }
            let explicit = sl.len() - n_ell;
            if explicit > a.len() {
                return None;
            }
            let mut full = vec![];
            for x in sl.iter() {
                if let SliceElement::Ellipsis = x {
                    for _ in 0..a.len() - explicit {
                        full.push(SliceElement::SubArray(None, None, None));
                    }
                } else {
                    full.push(x.clone());
                }
            }
            let mut r = vec![];
            for (i, d) in a.iter().enumerate() {
                match full.get(i) {
                    None => r.push(*d),
                    Some(SliceElement::SingleIndex(_)) => {}
                    Some(SliceElement::SubArray(b, e, s)) => r.push(py_slice_len(*d, *b, *e, *s)?),
                    Some(SliceElement::Ellipsis) => return None,
                }
            }
            Some(lt(st, r))
        }
        Operation::Concatenate(axis) => {
            let (st, mut a) = leaf(0)?;
            let ax = axis as usize;
            let mut total = 0u64;
            for i in 0..deps.len() {
                total = total.checked_add(*leaf(i)?.1.get(ax)?)?;
            }
            *a.get_mut(ax)? = total;
            Some(lt(st, a))
        }
        Operation::Stack(outer) => {
            let (st, mut inner) = leaf(0)?;
            for i in 1..deps.len() {
                inner = np_broadcast(&inner, &leaf(i)?.1)?;
            }
            let mut r = outer.clone();
            r.extend(inner);
            Some(lt(st, r))
        }
        Operation::A2B => {
            let (st, mut a) = leaf(0)?;
            a.push(bits(st) as u64);
            Some(lt(BIT, a))
        }
        Operation::B2A(st) => {
            let (_, mut a) = leaf(0)?;
            a.pop()?;
            Some(lt(st, a))
        }
        Operation::Repeat(n) => Some(vector_type(n, deps.first()?.clone())),
        Operation::ArrayToVector => {
            let (st, a) = leaf(0)?;
            Some(vector_type(*a.first()?, lt(st, a[1..].to_vec())))
        }
        Operation::VectorToArray => match deps.first()? {
            Type::Vector(n, e) if is_leaf(e) => {
                let mut r = vec![*n];
                r.extend(leaf_shape(e));
                Some(lt(leaf_st(e), r))
            }
            _ => None,
        },
        Operation::Gather(axis) => {
            let (st, a) = leaf(0)?;
            let (_, i) = leaf(1)?;
            let ax = axis as usize;
            let mut r = a.get(..ax)?.to_vec();
            r.extend(i);
            r.extend_from_slice(a.get(ax + 1..)?);
            Some(lt(st, r))
        }
        Operation::SegmentCumSum => {
            let (st, mut a) = leaf(0)?;
            *a.first_mut()? += 1;
            Some(lt(st, a))
        }
        Operation::Input(t) | Operation::Zeros(t) | Operation::Ones(t) | Operation::Random(t) | Operation::Constant(t, _) | Operation::PRF(_, t) | Operation::Reshape(t) => Some(t),
        Operation::RandomPermutation(n) | Operation::PermutationFromPRF(_, n) => Some(lt(ciphercore_base::data_types::UINT64, vec![n])),
        Operation::CreateTuple => Some(ciphercore_base::data_types::tuple_type(deps)),
        Operation::CreateVector(t) => Some(vector_type(deps.len() as u64, t)),
        Operation::VectorGet => match deps.first()? {
            Type::Vector(_, e) => Some((**e).clone()),
            _ => None,
        },
        Operation::TupleGet(i) => match deps.first()? {
            Type::Tuple(ts) => ts.get(i as usize).map(|x| (**x).clone()),
            Type::NamedTuple(ts) => ts.get(i as usize).map(|x| (*x.1).clone()),
            _ => None,
        },
        _ => None,
    }
}

/// every node of every graph: inferred type == documented type (where the reference has an opinion)
fn check_ref_types(ctx: &Context) -> Result<usize, (String, String)> {
    let mut n = 0;
    for g in ctx.get_graphs() {
        for node in g.get_nodes() {
            if let (Some(want), Ok(got)) = (ref_type(&node), node.get_type()) {
                n += 1;
                if want != got {
                    let deps: Vec<String> = node.get_node_dependencies().iter().map(|d| d.get_type().map(|t| t.to_string()).unwrap_or_default()).collect();
                    return Err((op_name(&node.get_operation()), format!("{:?} on {:?}: inferred {} but the documented rule gives {}", node.get_operation(), deps, got, want)));
                }
            }
        }
    }
    Ok(n)
}

// ---------------------------------------------------------------------------------------------
// walker

pub enum Stop {
    Err(String, String),
    Panic(String, String),
    Mismatch(String, String),
}

#[derive(Default)]
pub struct WalkStats {
    pub nodes: usize,
    pub stray_bits: bool,
    pub sub_nodes: usize,
}

fn check_value(opn: &str, v: &Value, t: &Type, st: &mut WalkStats) -> Result<(), Stop> {
    let tt = t.clone();
    match crate::util::catch(|| v.check_type(tt)) {
        Ok(Ok(true)) => {}
        Ok(Ok(false)) => return Err(Stop::Mismatch(opn.to_string(), format!("value does not satisfy check_type({})", t))),
        Ok(Err(e)) => return Err(Stop::Mismatch(opn.to_string(), format!("check_type({}) failed: {}", t, e))),
        Err(p) => return Err(Stop::Panic(format!("{}/check_type", opn), p)),
    }
    if let Err(e) = decode(v, t) {
        return Err(Stop::Mismatch(opn.to_string(), format!("strict layout decode against {} failed: {}", t, e)));
    }
    if has_stray_bits(v, t) {
        st.stray_bits = true;
    }
    Ok(())
}

/// evaluates `graph` node by node, checking every node value (also inside called graphs)
pub fn walk9(ev: &mut SimpleEvaluator, graph: &Graph, inputs: &[Value], st: &mut WalkStats, depth: usize) -> Result<Value, Stop> {
    let nodes = graph.get_nodes();
    let mut vals: Vec<Value> = Vec::with_capacity(nodes.len());
    let mut next_input = 0usize;
    for node in nodes.iter() {
        let op = node.get_operation();
        let mut opn = op_name(&op);
        if let Operation::Join(JoinType::Full, h) | Operation::JoinWithColumnMasks(JoinType::Full, h) = &op {
            // first table has a non-key column named like a key column of the second table
            if let Ok(Type::NamedTuple(cols)) = node.get_node_dependencies()[0].get_type() {
                if cols.iter().any(|(n, _)| !h.contains_key(n) && h.values().any(|v| v == n)) {
                    opn.push_str(JOIN_CLASH);
                }
            }
        }
        let deps: Vec<Value> = node.get_node_dependencies().iter().map(|d| vals[d.get_id() as usize].clone()).collect();
        let t = match crate::util::catch(|| node.get_type()) {
            Ok(Ok(t)) => t,
            Ok(Err(e)) => return Err(Stop::Mismatch(opn, format!("node of a finalised graph has no type: {}", e))),
            Err(p) => return Err(Stop::Panic(format!("{}/get_type", opn), p)),
        };
        let v = match &op {
            Operation::Input(_) => {
                let v = match inputs.get(next_input) {
                    Some(v) => v.clone(),
                    None => return Err(Stop::Mismatch(opn, "harness: too few inputs".to_string())),
                };
                next_input += 1;
                v
            }
            Operation::Call => {
                let g = node.get_graph_dependencies()[0].clone();
                walk9(ev, &g, &deps, st, depth + 1)?
            }
            Operation::Iterate => {
                let g = node.get_graph_dependencies()[0].clone();
                let mut state = deps[0].clone();
                let seq = match deps[1].to_vector() {
                    Ok(s) => s,
                    Err(e) => return Err(Stop::Err(opn, e.to_string())),
                };
                let mut outs = vec![];
                for x in seq {
                    let r = walk9(ev, &g, &[state.clone(), x], st, depth + 1)?;
                    let r = match r.to_vector() {
                        Ok(r) if r.len() == 2 => r,
                        Ok(_) => return Err(Stop::Mismatch(opn, "Iterate body did not return a pair".to_string())),
                        Err(e) => return Err(Stop::Err(opn, e.to_string())),
                    };
                    state = r[0].clone();
                    outs.push(r[1].clone());
                }
                Value::from_vector(vec![state, Value::from_vector(outs)])
            }
            _ => {
                let n2 = node.clone();
                match crate::util::catch(|| ev.evaluate_node(n2, deps)) {
                    Ok(Ok(v)) => v,
                    Ok(Err(e)) => return Err(Stop::Err(opn, e.to_string())),
                    Err(p) => return Err(Stop::Panic(opn, p)),
                }
            }
        };
        check_value(&opn, &v, &t, st)?;
        if depth == 0 {
            st.nodes += 1;
        } else {
            st.sub_nodes += 1;
        }
        vals.push(v);
    }
    let out = match graph.get_output_node() {
        Ok(o) => o,
        Err(e) => return Err(Stop::Mismatch("output".to_string(), e.to_string())),
    };
    Ok(vals[out.get_id() as usize].clone())
}

fn all_types_evaluable(ctx: &Context) -> Result<bool, String> {
    for g in ctx.get_graphs() {
        for n in g.get_nodes() {
            let t = n.get_type().map_err(|e| e.to_string())?;
            if !evaluable(&t) {
                return Ok(false);
            }
            if let Operation::DecomposeSwitchingMap(k) = n.get_operation() {
                if k > 1 << 20 {
                    return Ok(false);
                }
            }
        }
    }
    Ok(true)
}

fn bucket(n: usize) -> &'static str {
    match n {
        0 => "0",
        1..=2 => "1-2",
        3..=5 => "3-5",
        6..=10 => "6-10",
        _ => ">10",
    }
}

fn collect_st(t: &Type, out: &mut std::collections::BTreeSet<String>) {
    if is_leaf(t) {
        out.insert(format!("in-st:{:?}", leaf_st(t)));
        out.insert(format!("in-rank:{}", leaf_shape(t).len()));
    } else {
        out.insert("in-container".to_string());
        for c in children_types(t) {
            if let Type::Vector(0, _) = t {
                break;
            }
            collect_st(&c, out);
        }
        if matches!(t, Type::Vector(0, _)) {
            out.insert("in-vector0".to_string());
        }
    }
}

pub fn oracle(c: &Case) -> Outcome {
    let b = match build9(&c.r) {
        BuildOut::Ok(b) => b,
        BuildOut::Panic(op, msg, _) => {
            return Outcome::fail(&panic_sig(&op, &msg), format!("builder call {} panicked: {}", op, msg));
        }
        BuildOut::Nothing(why, labels) => return Outcome::skip(why).labels(labels),
    };
    if std::env::var("VH_C09_DEBUG").is_ok() {
        for g in b.ctx.get_graphs() {
            println!("graph {}", g.get_id());
            for n in g.get_nodes() {
                let deps: Vec<u64> = n.get_node_dependencies().iter().map(|d| d.get_id()).collect();
                println!("  {:>3} {:?} deps={:?} : {}", n.get_id(), n.get_operation(), deps, n.get_type().map(|t| t.to_string()).unwrap_or_default());
            }
        }
        let hv = input_values9(&c.r, &b.inputs);
        for (i, h) in hv.iter().enumerate() {
            println!("  input {} = {:?}", i, h);
        }
    }
    let mut labels: Vec<String> = b.labels.iter().cloned().collect();
    labels.push(format!("rejections:{}", bucket(b.n_rejected)));
    labels.push(format!("inputs:{}", b.inputs.len()));
    let mut sts = std::collections::BTreeSet::new();
    for (t, k) in &b.inputs {
        collect_st(t, &mut sts);
        match k {
            InKind::Plain => {}
            InKind::Perm { exact } => {
                sts.insert(format!("in-perm:{}", if *exact { "valid" } else { "near" }));
            }
            InKind::Index { ok, .. } => {
                sts.insert(format!("in-index:{}", if *ok { "valid" } else { "any" }));
            }
            InKind::Cuckoo { ok } => {
                sts.insert(format!("in-cuckoo:{}", if *ok { "valid" } else { "any" }));
            }
            InKind::Small { .. } => {
                sts.insert("in-small".to_string());
            }
        }
    }
    labels.extend(sts);
    if let Some(m) = &b.misfit {
        return Outcome::fail(&format!("accepted-misfit:{}", m), format!("near-miss variant {} (parameters that do not fit according to the documentation) was accepted by the builder", m));
    }
    match crate::util::catch(|| check_ref_types(&b.ctx)) {
        Ok(Ok(n)) => labels.push(format!("ref-typed-nodes:{}", bucket(n))),
        Ok(Err((opn, d))) => return Outcome::fail(&format!("inferred-type-differs:{}", opn), d),
        Err(p) => return Outcome::fail("harness-panic-ref", p),
    }
    // which context is evaluated: custom operations need the instantiation pass first
    let ctx = if b.has_custom {
        let c0 = b.ctx.clone();
        match crate::util::catch(|| run_instantiation_pass(c0)) {
            Ok(Ok(m)) => m.get_context(),
            Ok(Err(e)) => {
                return Outcome::pass(false).labels(labels).label(format!("instantiation-err:{}", e.to_string().chars().take(60).collect::<String>()));
            }
            Err(p) => return Outcome::fail(&panic_sig("instantiation", &p), format!("run_instantiation_pass panicked on an accepted graph: {}", p)),
        }
    } else {
        b.ctx.clone()
    };
    match crate::util::catch(|| all_types_evaluable(&ctx)) {
        Ok(Ok(true)) => {}
        Ok(Ok(false)) => return Outcome::pass(false).labels(labels).label("not-evaluated:huge-type"),
        Ok(Err(e)) => return Outcome::fail("untyped-node", format!("node of a finalised context has no type: {}", e)),
        Err(p) => return Outcome::fail(&panic_sig("get_type", &p), format!("get_type panicked on a finalised context: {}", p)),
    }
    let main = match ctx.get_main_graph() {
        Ok(g) => g,
        Err(e) => return Outcome::fail("harness-error", format!("no main graph: {}", e)),
    };
    let in_h = input_values9(&c.r, &b.inputs);
    let in_vals: Vec<Value> = in_h.iter().zip(b.inputs.iter()).map(|(h, (t, _))| encode(h, t)).collect();
    let n_ops = main.get_nodes().iter().filter(|n| !n.get_operation().is_input()).count();
    labels.push(format!("ops:{}", bucket(n_ops)));
    // (1) node-by-node walker
    let mut st = WalkStats::default();
    let mut ev = match SimpleEvaluator::new(Some(c.seed)) {
        Ok(e) => e,
        Err(e) => return Outcome::fail("harness-error", e.to_string()),
    };
    let walked = walk9(&mut ev, &main, &in_vals, &mut st, 0);
    // (2) stock evaluator, same seed
    let stock = crate::util::catch(|| -> Result<Value, String> {
        let mut ev2 = SimpleEvaluator::new(Some(c.seed)).map_err(|e| e.to_string())?;
        ev2.preprocess(&ctx).map_err(|e| format!("preprocess: {}", e))?;
        ev2.evaluate_graph(main.clone(), in_vals.clone()).map_err(|e| e.to_string())
    });
    if st.stray_bits {
        labels.push("stray-bits-seen".to_string());
    }
    if st.sub_nodes > 0 {
        labels.push("sub-graph-nodes-checked".to_string());
    }
    let judge_err = |opn: &str, msg: &str, labels: Vec<String>| -> Outcome {
        if opn.contains(JOIN_CLASH) {
            return Outcome::fail("join-full-key-name-clash", format!("accepted Full join fails at evaluation: {}", msg.chars().take(300).collect::<String>()));
        }
        let opn = opn.trim_end_matches("WithColumnMasks");
        match classify_err(msg) {
            ErrClass::Documented(name) => Outcome::pass(false).labels(labels).label(format!("eval-err:{}", name)),
            ErrClass::TypeRelated(pat) => Outcome::fail(
                &format!("type-err:{}:{}", opn, pat.replace(' ', "-")),
                format!("accepted graph fails at evaluation of {} with a type-related error: {}", opn, msg.chars().take(300).collect::<String>()),
            ),
            ErrClass::Unclassified => Outcome::pass(false)
                .labels(labels)
                .label(format!("unclassified_error:{}:{}", opn, msg.chars().take(70).collect::<String>())),
        }
    };
    let out_t = match main.get_output_node().and_then(|n| n.get_type()) {
        Ok(t) => t,
        Err(e) => return Outcome::fail("harness-error", e.to_string()),
    };
    match walked {
        Err(Stop::Panic(opn, p)) => Outcome::fail(&panic_sig(&opn, &p), format!("evaluation of {} panicked: {}", opn, p)),
        Err(Stop::Mismatch(opn, d)) => {
            let sig = if opn.contains(JOIN_CLASH) { "join-full-key-name-clash".to_string() } else { format!("value-type-mismatch:{}", opn) };
            Outcome::fail(&sig, format!("node {}: {}", opn, d))
        }
        Err(Stop::Err(opn, msg)) => {
            // the stock evaluator must not panic either
            if let Err(p) = &stock {
                return Outcome::fail(&panic_sig(&opn, p), format!("stock evaluate_graph panicked: {}", p));
            }
            judge_err(&opn, &msg, labels)
        }
        Ok(v) => match stock {
            Err(p) => Outcome::fail(&panic_sig("stock", &p), format!("stock evaluate_graph panicked (walker was fine): {}", p)),
            Ok(Err(msg)) => judge_err("stock", &msg, labels).label("stock-err-walker-ok"),
            Ok(Ok(v2)) => {
                let mut dummy = WalkStats::default();
                if let Err(Stop::Mismatch(_, d)) | Err(Stop::Panic(_, d)) = check_value("stock-output", &v2, &out_t, &mut dummy) {
                    return Outcome::fail("value-type-mismatch:stock-output", d);
                }
                let same = decode(&v, &out_t).ok() == decode(&v2, &out_t).ok();
                if !same {
                    labels.push("stock-output-differs".to_string());
                }
                Outcome::pass(n_ops >= 3).labels(labels).label("eval:ok")
            }
        },
    }
}

// ---------------------------------------------------------------------------------------------
// strategies

pub fn all_kinds() -> Vec<(u32, O)> {
    vec![
        (6, O::Input),
        (3, O::Const),
        (2, O::Zeros),
        (2, O::Ones),
        (2, O::Random),
        (2, O::RandomPerm),
        (4, O::Add),
        (3, O::Sub),
        (4, O::Mul),
        (3, O::MixedMul),
        (5, O::Dot),
        (6, O::Matmul),
        (6, O::Gemm),
        (5, O::Sum),
        (3, O::CumSum),
        (4, O::Permute),
        (5, O::Get),
        (7, O::Slice),
        (6, O::Reshape),
        (4, O::Truncate),
        (3, O::Repeat),
        (3, O::A2B),
        (3, O::B2A),
        (3, O::A2V),
        (3, O::V2A),
        (1, O::Nop),
        (2, O::Print),
        (2, O::Assert),
        (3, O::MkTuple),
        (2, O::MkNamed),
        (3, O::MkVector),
        (3, O::TupleGet),
        (2, O::NamedGet),
        (4, O::VectorGet),
        (3, O::Zip),
        (5, O::Stack),
        (5, O::Concat),
        (5, O::Gather),
        (4, O::CuckooHash),
        (4, O::SegmentCumSum),
        (3, O::InvPerm),
        (4, O::CuckooToPerm),
        (4, O::DecomposeSM),
        (1, O::Shard),
        (1, O::ShardMasks),
        (3, O::ApplyPerm),
        (3, O::Sort),
        (2, O::Join),
        (2, O::JoinMasks),
        (2, O::Prf),
        (2, O::PermPrf),
        (3, O::Call),
        (3, O::Iterate),
        (2, O::Custom),
        (2, O::RawArity),
    ]
}

/// kinds whose type inference is O(rank) also on huge dimensions
pub fn huge_kinds() -> Vec<(u32, O)> {
    let ok = [
        O::Add, O::Sub, O::Mul, O::MixedMul, O::Sum, O::CumSum, O::Get, O::Truncate, O::A2B, O::B2A, O::A2V, O::Nop, O::Print, O::MkTuple,
        O::MkNamed, O::MkVector, O::TupleGet, O::Stack, O::Concat, O::Gather, O::Repeat, O::Zeros, O::Random, O::Input, O::Prf,
    ];
    all_kinds().into_iter().filter(|(_, k)| ok.contains(k)).collect()
}

pub fn arb_step9(kinds: Vec<(u32, O)>, prof: (u32, u32, u32)) -> BoxedStrategy<Step9> {
    let ks: Vec<(u32, BoxedStrategy<O>)> = kinds.into_iter().map(|(w, k)| (w, Just(k).boxed())).collect();
    let e = prop_oneof![prof.0 => Just(0u8), prof.1 => 1u8..=200, prof.2 => 201u8..=255];
    (proptest::strategy::Union::new_weighted(ks), any::<u16>(), any::<u16>(), any::<u16>(), any::<[u16; 4]>(), e)
        .prop_map(|(o, a, b, c, p, e)| Step9 { o, a, b, c, p, e })
        .boxed()
}

pub fn arb_sub9(kinds: Vec<(u32, O)>, prof: (u32, u32, u32)) -> BoxedStrategy<Sub9> {
    let inner: Vec<(u32, O)> = kinds.into_iter().filter(|(_, k)| !matches!(k, O::Input | O::Call | O::Iterate | O::Join | O::JoinMasks)).collect();
    (
        proptest::collection::vec(any::<[u16; 4]>(), 1..3),
        proptest::collection::vec(arb_step9(inner, prof), 1..=4),
        any::<bool>(),
        any::<u16>(),
    )
        .prop_map(|(ins, steps, iter, out)| Sub9 { ins, steps, iter, out })
        .boxed()
}

pub fn arb_case(kinds: Vec<(u32, O)>, min_steps: usize, max_steps: usize, max_subs: usize, prof: (u32, u32, u32)) -> BoxedStrategy<Case> {
    (
        proptest::collection::vec(arb_sub9(kinds.clone(), prof), 0..=max_subs),
        proptest::collection::vec(arb_step9(kinds, prof), min_steps..=max_steps),
        prop_oneof![3 => Just(0u16), 1 => any::<u16>()],
        crate::graphgen::arb_vals(),
        any::<[u8; 16]>(),
    )
        .prop_map(|(subs, steps, out, vals, seed)| Case { r: R9 { subs, steps, out, vals }, seed })
        .boxed()
}

/// a few huge-dimension sources followed by type-level operations (never evaluated)
pub fn arb_huge_case() -> BoxedStrategy<Case> {
    let src = (prop_oneof![Just(O::Input), Just(O::Zeros), Just(O::Random)], any::<u16>(), any::<[u16; 4]>(), prop_oneof![Just(3u8), Just(6u8), Just(0u8)])
        .prop_map(|(o, a, p, e)| Step9 { o, a, b: 0, c: 0, p, e });
    (
        proptest::collection::vec(src, 1..=3),
        proptest::collection::vec(arb_step9(huge_kinds(), (6, 3, 0)), 1..=6),
        any::<u16>(),
        crate::graphgen::arb_vals(),
        any::<[u8; 16]>(),
    )
        .prop_map(|(mut head, steps, out, vals, seed)| {
            head.extend(steps);
            Case { r: R9 { subs: vec![], steps: head, out, vals }, seed }
        })
        .boxed()
}

pub fn run(env: &Env) {
    env.assume("panics caused by arithmetic overflow count as crashes (harness profile: overflow-checks and debug-assertions on, as in a debug build of ciphercore)");
    env.assume("Err messages outside the white-list and outside the type-related list are counted as unclassified_error and not judged");
    env.assume("graphs containing a node type above 2^18 bits / 5000 values are checked at the builder only (not evaluated)");
    env.set_shrink_iters(3000);
    env.campaign(
        "graphs",
        "3-14 steps over all kinds, 0-2 sub-graphs; per step 60% fitting / 30% near-miss / 10% wild",
        env.n(600_000, 12_000_000),
        || arb_case(all_kinds(), 3, 14, 2, (6, 3, 1)),
        oracle,
    );
    env.campaign(
        "near-miss",
        "1-4 steps on an almost empty pool (operands are fresh inputs of constructed types); per step 20% fitting / 70% near-miss / 10% wild",
        env.n(500_000, 10_000_000),
        || arb_case(all_kinds(), 1, 4, 1, (2, 7, 1)),
        oracle,
    );
    env.campaign(
        "huge-dims",
        "1-3 sources with dimensions 2^20..2^64-1 followed by 1-6 type-level operations; builder only",
        env.n(120_000, 2_400_000),
        arb_huge_case,
        oracle,
    );
    for (name, case) in pinned_cases() {
        env.pinned(name, &case, oracle);
    }
}

pub fn pinned_cases() -> Vec<(&'static str, Case)> {
    // minimal recipes found by the campaigns (one per root cause)
    let raw: Vec<(&'static str, &'static str)> = vec![
        ("shard-not-implemented", r#"{"r":{"out":0,"steps":[{"a":0,"b":0,"c":0,"e":0,"o":"Add","p":[0,0,0,0]},{"a":0,"b":0,"c":0,"e":0,"o":"Input","p":[0,0,0,0]},{"a":0,"b":0,"c":0,"e":0,"o":"Shard","p":[0,0,0,0]}],"subs":[],"vals":[[0,0],[0,0],[0,0],[0,0],[0,0],[0,0],[0,0],[0,0]]},"seed":[0,0,0,0,0,0,0,0,0,0,0,0,0,0,0,0]}"#),
        ("shard-size-overflow", r#"{"r":{"out":0,"steps":[{"a":0,"b":0,"c":0,"e":0,"o":"Input","p":[0,0,0,0]},{"a":0,"b":0,"c":0,"e":175,"o":"Shard","p":[0,0,0,0]},{"a":0,"b":0,"c":0,"e":0,"o":"Input","p":[0,0,0,0]}],"subs":[],"vals":[[0,0],[0,0],[0,0],[0,0],[0,0],[0,0],[0,0],[0,0]]},"seed":[0,0,0,0,0,0,0,0,0,0,0,0,0,0,0,0]}"#),
        ("slice-step-overflow", r#"{"r":{"out":0,"steps":[{"a":0,"b":0,"c":0,"e":133,"o":"Slice","p":[0,0,133,0]},{"a":0,"b":0,"c":0,"e":0,"o":"Input","p":[0,0,0,0]},{"a":0,"b":0,"c":0,"e":0,"o":"Input","p":[0,0,0,0]}],"subs":[],"vals":[[0,0],[0,0],[0,0],[0,0],[0,0],[0,0],[0,0],[0,0]]},"seed":[0,0,0,0,0,0,0,0,0,0,0,0,0,0,0,0]}"#),
        ("shardmasks-scalar-mask", r#"{"r":{"out":0,"steps":[{"a":0,"b":0,"c":0,"e":124,"o":"ShardMasks","p":[0,0,0,0]},{"a":0,"b":0,"c":0,"e":0,"o":"Input","p":[0,0,0,0]},{"a":0,"b":0,"c":0,"e":0,"o":"Input","p":[0,0,0,0]}],"subs":[],"vals":[[0,0],[0,0],[0,0],[0,0],[0,0],[0,0],[0,0],[0,0]]},"seed":[0,0,0,0,0,0,0,0,0,0,0,0,0,0,0,0]}"#),
        ("shardmasks-tuple-mask", r#"{"r":{"out":0,"steps":[{"a":0,"b":0,"c":0,"e":143,"o":"ShardMasks","p":[0,0,0,0]},{"a":0,"b":0,"c":0,"e":0,"o":"Input","p":[0,0,0,0]},{"a":0,"b":0,"c":0,"e":0,"o":"Input","p":[0,0,0,0]}],"subs":[],"vals":[[0,0],[0,0],[0,0],[0,0],[0,0],[0,0],[0,0],[0,0]]},"seed":[0,0,0,0,0,0,0,0,0,0,0,0,0,0,0,0]}"#),
        ("joinmasks-scalar-mask", r#"{"r":{"out":0,"steps":[{"a":0,"b":0,"c":0,"e":174,"o":"JoinMasks","p":[0,0,0,0]},{"a":0,"b":0,"c":0,"e":0,"o":"Input","p":[0,0,0,0]},{"a":0,"b":0,"c":0,"e":0,"o":"Input","p":[0,0,0,0]}],"subs":[],"vals":[[0,0],[0,0],[0,0],[0,0],[0,0],[0,0],[0,0],[0,0]]},"seed":[0,0,0,0,0,0,0,0,0,0,0,0,0,0,0,0]}"#),
        ("decompose-switching-map-rank2", r#"{"r":{"out":0,"steps":[{"a":0,"b":0,"c":0,"e":72,"o":"DecomposeSM","p":[0,0,0,0]},{"a":0,"b":0,"c":0,"e":0,"o":"Input","p":[0,0,0,0]},{"a":0,"b":0,"c":0,"e":0,"o":"Input","p":[0,0,0,0]}],"subs":[],"vals":[[0,0],[0,74622826405082462199682812141240797886],[0,0],[0,4892857996469245212036896564070386850],[0,0],[0,0],[0,0],[0,0],[0,0]]},"seed":[0,0,0,0,0,0,0,0,0,0,0,0,0,0,0,0]}"#),
        ("join-full-key-name-clash", r#"{"r":{"out":0,"steps":[{"a":0,"b":0,"c":0,"e":0,"o":"Join","p":[0,1944,35468,34841]},{"a":0,"b":0,"c":0,"e":0,"o":"A2B","p":[0,0,0,0]},{"a":0,"b":0,"c":0,"e":0,"o":"Input","p":[0,0,0,0]}],"subs":[],"vals":[[0,33615434494128844708143026228500009039],[0,0],[0,0],[0,0],[0,0],[0,0],[0,6235131270391979236606817731519627147],[0,0]]},"seed":[0,0,0,0,0,0,0,0,0,0,0,0,0,0,0,0]}"#),
        ("join-full-first-column-not-null", r#"{"r":{"out":0,"steps":[{"a":0,"b":0,"c":0,"e":0,"o":"Join","p":[0,19288,14208,8352]},{"a":0,"b":0,"c":0,"e":0,"o":"Input","p":[0,0,0,0]},{"a":0,"b":0,"c":0,"e":0,"o":"A2B","p":[0,0,0,0]}],"subs":[],"vals":[[0,0],[0,0],[0,0],[0,0],[0,0],[0,0],[0,0],[0,0]]},"seed":[0,0,0,0,0,0,0,0,0,0,0,0,0,0,0,0]}"#),
        ("concat-dimension-overflow", r#"{"r":{"out":0,"steps":[{"a":26413,"b":0,"c":0,"e":3,"o":"Input","p":[458,0,0,0]},{"a":0,"b":0,"c":0,"e":0,"o":"Concat","p":[0,0,0,14252]}],"subs":[],"vals":[[0,0],[0,0],[0,0],[0,0],[0,0],[0,0],[0,0],[0,0]]},"seed":[0,0,0,0,0,0,0,0,0,0,0,0,0,0,0,0]}"#),
    ];
    raw.into_iter().map(|(n, j)| (n, serde_json::from_str::<Case>(j).expect("pinned case"))).collect()
}

pub fn replay(_check: &str, case: J) -> Outcome {
    replay_with::<Case, _>(case, oracle)
}
