//! C20 — approximate numeric operations stay close to the real function.
//!
//! One-op graphs (NewtonInversion, InverseSqrt, GoldschmidtDivision, TaylorExponent, ApproxExponent,
//! ApproxSigmoid, ApproxGelu, FixedMultiply) are evaluated on complete or dense grids of their
//! documented domains, one array per graph evaluation, and every element is compared with an
//! f64 / exact-integer evaluation of the real function. Tolerances are the ones the repository
//! itself claims (unit tests and source comments), see `judge`. A second family of cases compiles
//! the same one-op graph to the three-party protocol and compares the compiled evaluation with the
//! plaintext one up to the accumulated truncation error.
use crate::core::*;
use crate::gen::*;
use crate::util::catch;
use ciphercore_base::custom_ops::{run_instantiation_pass, CustomOperation};
use ciphercore_base::data_types::{array_type, ScalarType, INT128, INT64, UINT128, UINT64};
use ciphercore_base::data_values::Value;
use ciphercore_base::evaluators::simple_evaluator::SimpleEvaluator;
use ciphercore_base::evaluators::Evaluator;
use ciphercore_base::graphs::{create_context, Context, Operation};
use ciphercore_base::inline::inline_common::DepthOptimizationLevel;
use ciphercore_base::inline::inline_ops::{InlineConfig, InlineMode};
use ciphercore_base::mpc::mpc_compiler::{compile_context, IOStatus};
use ciphercore_base::ops::fixed_precision::fixed_multiply::FixedMultiply;
use ciphercore_base::ops::fixed_precision::fixed_precision_config::FixedPrecisionConfig;
use ciphercore_base::ops::goldschmidt_division::GoldschmidtDivision;
use ciphercore_base::ops::inverse_sqrt::InverseSqrt;
use ciphercore_base::ops::newton_inversion::NewtonInversion;
use ciphercore_base::ops::pwl::approx_exponent::ApproxExponent;
use ciphercore_base::ops::pwl::approx_gelu::ApproxGelu;
use ciphercore_base::ops::pwl::approx_sigmoid::ApproxSigmoid;
use ciphercore_base::ops::taylor_exponent::TaylorExponent;
use proptest::prelude::*;
use serde::{Deserialize, Serialize};
use serde_json::{json, Value as J};
use std::collections::BTreeMap;
use std::sync::Mutex;

pub const RULE: &str = "one approximation op per graph, evaluated on one array per case: complete grids of the documented domain at small precision \
(enumerate) + generated dense sweeps with boundary emphasis at larger precision (campaign) + compiled-vs-plaintext on coarse grids; oracle = exact real \
function (f64 / exact integers) with the repository's own claimed tolerance; non-trivial = the case's points contain a bucket boundary of the \
approximation (PWL control point, power of two / power of four where the bit-derived initial guess changes, integer boundary of the exponent split, \
a sign change or zero operand) or an end of the documented domain; distinct = distinct case";

// ---------------------------------------------------------------------------------------------
// case model

#[derive(Clone, Copy, Debug, Serialize, Deserialize, PartialEq, Eq, Hash)]
pub enum Op {
    Newton { cap: u64, iters: u64 },
    InvSqrt { cap: u64, iters: u64 },
    Gold { cap: u64, iters: u64 },
    Taylor { p: u64, terms: u64 },
    PwlExp { p: u64 },
    Sigmoid { p: u64, lb: u64 },
    Gelu { p: u64, lb: u64 },
    FixMul { p: u64, debug: bool },
}

/// initial approximation handed to the Newton-type ops (second / third argument)
#[derive(Clone, Copy, Debug, Serialize, Deserialize, PartialEq, Eq, Hash)]
pub enum Init {
    /// built-in bit-derived guess
    None,
    /// the power of two the repository's tests use
    Pow2,
    /// smallest admissible integer
    Low,
    /// largest integer of the range the tests exercise (product <= 2^cap)
    High,
    /// a generated member of [Low, High]
    Sel(u16),
    /// a generated member of the remaining documented range (2^cap < d*g < 2^(cap+1)); Newton and
    /// Goldschmidt only
    DocUpper(u16),
    /// a generated over-estimate from the lower half of that range (2^cap < d*g <= 1.5 * 2^cap):
    /// Newton's relative error squares per iteration, so the rule-of-thumb iteration counts
    /// converge from there (0.5^32 < 2^-16), unlike from the very top of the documented range
    DocMid(u16),
}

#[derive(Clone, Debug, Serialize, Deserialize, PartialEq, Eq, Hash)]
pub enum Xs {
    Range { lo: i64, step: i64, n: u64 },
    List(Vec<i64>),
}

#[derive(Clone, Copy, Debug, Serialize, Deserialize, PartialEq, Eq, Hash)]
pub enum Mode {
    Plain,
    /// compile to MPC (input owned by party 0, or public when `public_in`; output revealed to party 0)
    /// and compare with plaintext
    Compiled { seed: [u8; 16], inline: u8 },
}

#[derive(Clone, Debug, Serialize, Deserialize)]
pub struct Case {
    pub op: Op,
    pub st: ScalarType,
    /// main operand: the number to invert / divisor / exponent argument / first factor
    pub xs: Xs,
    /// second operand (dividend of Goldschmidt, second factor of FixedMultiply); the case evaluates
    /// the full product grid xs x ys. Empty for one-operand ops.
    pub ys: Vec<i64>,
    pub init: Init,
    pub mode: Mode,
}

impl Xs {
    fn to_vec(&self) -> Vec<i64> {
        match self {
            Xs::Range { lo, step, n } => (0..*n as i64).map(|i| lo + i * step).collect(),
            Xs::List(v) => v.clone(),
        }
    }
}

fn op_name(op: &Op) -> &'static str {
    match op {
        Op::Newton { .. } => "newton",
        Op::InvSqrt { .. } => "invsqrt",
        Op::Gold { .. } => "gold",
        Op::Taylor { .. } => "taylor",
        Op::PwlExp { .. } => "pwlexp",
        Op::Sigmoid { .. } => "sigmoid",
        Op::Gelu { .. } => "gelu",
        Op::FixMul { .. } => "fixmul",
    }
}

fn op_key(op: &Op) -> String {
    match op {
        Op::Newton { cap, iters } => format!("newton/cap{}/it{}", cap, iters),
        Op::InvSqrt { cap, iters } => format!("invsqrt/cap{}/it{}", cap, iters),
        Op::Gold { cap, iters } => format!("gold/cap{}/it{}", cap, iters),
        Op::Taylor { p, terms } => format!("taylor/p{}/t{}", p, terms),
        Op::PwlExp { p } => format!("pwlexp/p{}", p),
        Op::Sigmoid { p, lb } => format!("sigmoid/p{}/lb{}", p, lb),
        Op::Gelu { p, lb } => format!("gelu/p{}/lb{}", p, lb),
        Op::FixMul { p, debug } => format!("fixmul/p{}{}", p, if *debug { "/debug" } else { "" }),
    }
}

/// number of fractional bits of the op's output
fn out_bits(op: &Op) -> u64 {
    match *op {
        Op::Newton { cap, .. } | Op::InvSqrt { cap, .. } | Op::Gold { cap, .. } => cap,
        Op::Taylor { p, .. } | Op::PwlExp { p } | Op::Sigmoid { p, .. } | Op::Gelu { p, .. } | Op::FixMul { p, .. } => p,
    }
}

// ---------------------------------------------------------------------------------------------
// documented domains

/// inclusive domain of the main operand, in integer (fixed-point) units
fn domain_x(op: &Op) -> (i64, i64) {
    match *op {
        // "Input must be ... in (0, 2^(cap-1))" and "< 2^32"
        Op::Newton { cap, .. } | Op::Gold { cap, .. } => (1, ((1i64 << (cap - 1)) - 1).min((1i64 << 32) - 1)),
        // "(0, 2^(2cap-1))" and "< 2^21"
        Op::InvSqrt { cap, .. } => (1, ((1i64 << (2 * cap - 1).min(40)) - 1).min((1i64 << 21) - 1)),
        // TaylorExponent: [-10, 10] is the interval its tests sweep (the source bounds the exponent by
        // 31 - p binary digits, which contains it for every admitted p <= 15); below -10 the source
        // documents a result of 0, so the left tail (to -32) is part of the domain too
        // upper end: the source limits the exponent x*log2(e) by 31 - p binary digits
        Op::Taylor { p, .. } => (-(32i64 << p), ((((31 - p) as f64) * std::f64::consts::LN_2 * ((1u64 << p) as f64)) as i64 - 1).max(10i64 << p)),
        // ApproxExponent approximates on [-16, 16], flat on the left
        Op::PwlExp { p } => (-(32i64 << p), 16i64 << p),
        // sigmoid: flat on both sides
        Op::Sigmoid { p, .. } => (-(32i64 << p), 32i64 << p),
        // GeLU: flat on the left; on the right the last chord is extended linearly, for which no accuracy
        // is stated: followed only as far as the repository's tests sweep (4900 / 1024)
        Op::Gelu { p, .. } => (-(32i64 << p), (4900i64 << p) >> 10),
        // products stay below 2^56: clear of INT64 overflow and of the debug assertion (bit positions i + j < 56)
        Op::FixMul { .. } => (-(1i64 << 28), 1i64 << 28),
    }
}

fn domain_y(op: &Op) -> (i64, i64) {
    match *op {
        Op::Gold { cap, .. } => (1, (1i64 << (cap - 1)) - 1),
        Op::FixMul { .. } => (-(1i64 << 27), 1i64 << 27),
        _ => (0, 0),
    }
}

/// approximation interval [left, right] of the PWL ops, in real units
fn pwl_interval(op: &Op) -> Option<(i64, i64, u64)> {
    match *op {
        Op::PwlExp { .. } => Some((-16, 16, 6)),
        Op::Sigmoid { lb, .. } => Some((-8, 8, lb)),
        Op::Gelu { lb, .. } => Some((-4, 4, lb)),
        _ => None,
    }
}

/// "bucket boundaries" of an op in integer units, clipped to the domain: the points where the
/// implementation switches from one piece / one initial guess to the next
fn boundaries(op: &Op) -> Vec<i64> {
    let (lo, hi) = domain_x(op);
    let mut b: Vec<i64> = vec![];
    match *op {
        Op::Newton { cap, .. } | Op::Gold { cap, .. } => {
            for k in 0..cap {
                b.push(1i64 << k);
            }
        }
        Op::InvSqrt { cap, .. } => {
            for k in 0..(2 * cap).min(22) {
                b.push(1i64 << k);
            }
        }
        Op::Taylor { p, .. } => {
            // integer boundaries of x / ln 2, the cut-off and zero
            for k in -15i64..=15 {
                b.push(((k as f64) * std::f64::consts::LN_2 * (1u64 << p) as f64).round() as i64);
            }
            b.push(-(10i64 << p));
            b.push(0);
        }
        Op::PwlExp { p } | Op::Sigmoid { p, .. } | Op::Gelu { p, .. } => {
            let (l, r, lb) = pwl_interval(op).unwrap();
            let n = 1i64 << lb;
            for i in 0..=n {
                // (right-left) * 2^p / 2^lb is an integer for every generated (p, lb)
                b.push((l << p) + (((r - l) << p) >> lb) * i);
            }
        }
        Op::FixMul { p, .. } => {
            b.push(0);
            b.push(1i64 << p);
            b.push(-(1i64 << p));
        }
    }
    b.push(lo);
    b.push(hi);
    b.retain(|x| *x >= lo && *x <= hi);
    b.sort();
    b.dedup();
    b
}

// ---------------------------------------------------------------------------------------------
// exact functions

fn erf(z: f64) -> f64 {
    // Maclaurin series, accurate to ~1e-10 for |z| <= 4; |erf| = 1 - 1.6e-8 beyond
    if z.abs() > 4.0 {
        return z.signum();
    }
    let mut term = z;
    let mut sum = z;
    let z2 = z * z;
    for n in 1..200 {
        term *= -z2 / n as f64;
        let add = term / (2 * n + 1) as f64;
        sum += add;
        if add.abs() < 1e-17 {
            break;
        }
    }
    sum * 2.0 / std::f64::consts::PI.sqrt()
}
fn gelu_exact(x: f64) -> f64 {
    0.5 * x * (1.0 + erf(x / std::f64::consts::SQRT_2))
}
fn gelu_tanh(x: f64) -> f64 {
    let a = (2.0 / std::f64::consts::PI).sqrt() * (x + 0.044715 * x * x * x);
    0.5 * x * (1.0 + a.tanh())
}
fn sigmoid(x: f64) -> f64 {
    1.0 / (1.0 + (-x).exp())
}

/// floor(2^cap / sqrt(d)), exact
fn inv_sqrt_floor(cap: u64, d: u64) -> i128 {
    let target: u128 = 1u128 << (2 * cap); // m^2 * d <= 4^cap
    let mut m = ((1u128 << cap) as f64 / (d as f64).sqrt()) as u128;
    while m * m * (d as u128) > target {
        m -= 1;
    }
    while (m + 1) * (m + 1) * (d as u128) <= target {
        m += 1;
    }
    m as i128
}

// ---------------------------------------------------------------------------------------------
// initial approximations

/// the admissible integers g for divisor d: lower part 2^(cap-1) <= d*g <= 2^cap (what the tests use)
fn newton_init_range(cap: u64, d: i64) -> (i64, i64) {
    let d = d as i128;
    let lo = ((1i128 << (cap - 1)) + d - 1) / d;
    let hi = (1i128 << cap) / d;
    (lo as i64, hi.max(lo) as i64)
}
/// documented remainder 2^cap < d*g < 2^(cap+1)
fn newton_init_upper(cap: u64, d: i64) -> Option<(i64, i64)> {
    let d = d as i128;
    let lo = (1i128 << cap) / d + 1;
    let hi = ((1i128 << (cap + 1)) - 1) / d;
    if hi >= lo {
        Some((lo as i64, hi as i64))
    } else {
        None
    }
}
/// 2^(2cap-2) <= d*g*g <= 2^(2cap) (the relation the repository's test uses)
fn invsqrt_init_range(cap: u64, d: i64) -> (i64, i64) {
    let d = d as u128;
    let top = 1u128 << (2 * cap);
    let bot = 1u128 << (2 * cap - 2);
    let mut hi = ((1u128 << cap) as f64 / (d as f64).sqrt()) as u128 + 2;
    while hi * hi * d > top {
        hi -= 1;
    }
    let mut lo = hi;
    while lo > 1 && (lo - 1) * (lo - 1) * d >= bot {
        lo -= 1;
    }
    (lo as i64, hi as i64)
}

fn init_value(op: &Op, init: Init, d: i64) -> Option<i64> {
    match *op {
        Op::Newton { cap, .. } | Op::Gold { cap, .. } => {
            let (lo, hi) = newton_init_range(cap, d);
            match init {
                Init::None => None,
                Init::Pow2 => {
                    let mut g = 1i64;
                    while (g as i128) * (d as i128) * 2 < (1i128 << cap) {
                        g *= 2;
                    }
                    Some(g)
                }
                Init::Low => Some(lo),
                Init::High => Some(hi),
                Init::Sel(u) => Some(lo + pick(u, (hi - lo + 1) as usize) as i64),
                Init::DocUpper(u) => match newton_init_upper(cap, d) {
                    Some((l, h)) => Some(l + (((u as i128) * ((h - l + 1) as i128)) >> 16) as i64),
                    None => Some(hi),
                },
                Init::DocMid(u) => match newton_init_upper(cap, d) {
                    Some((l, _)) => {
                        let h = (((3i128 << cap) / 2) / (d as i128)) as i64;
                        if h >= l {
                            Some(l + (((u as i128) * ((h - l + 1) as i128)) >> 16) as i64)
                        } else {
                            Some(hi)
                        }
                    }
                    None => Some(hi),
                },
            }
        }
        Op::InvSqrt { cap, .. } => {
            let (lo, hi) = invsqrt_init_range(cap, d);
            match init {
                Init::None => None,
                Init::Pow2 => {
                    let mut g = 1i64;
                    while (g as i128) * (g as i128) * (d as i128) * 4 < (1i128 << (2 * cap)) {
                        g *= 2;
                    }
                    Some(g)
                }
                Init::Low => Some(lo),
                Init::High | Init::DocUpper(_) | Init::DocMid(_) => Some(hi),
                Init::Sel(u) => Some(lo + pick(u, (hi - lo + 1) as usize) as i64),
            }
        }
        _ => None,
    }
}

// ---------------------------------------------------------------------------------------------
// building and running the graph

type CResult<T> = ciphercore_base::errors::Result<T>;

fn build_context(op: &Op, st: ScalarType, n: u64, with_init: bool) -> CResult<Context> {
    let c = create_context()?;
    let g = c.create_graph()?;
    let t = array_type(vec![n], st);
    let o = match *op {
        Op::Newton { cap, iters } => {
            let mut args = vec![g.input(t.clone())?];
            if with_init {
                args.push(g.input(t.clone())?);
            }
            g.custom_op(
                CustomOperation::new(NewtonInversion {
                    iterations: iters,
                    denominator_cap_2k: cap,
                }),
                args,
            )?
        }
        Op::InvSqrt { cap, iters } => {
            let mut args = vec![g.input(t.clone())?];
            if with_init {
                args.push(g.input(t.clone())?);
            }
            g.custom_op(
                CustomOperation::new(InverseSqrt {
                    iterations: iters,
                    denominator_cap_2k: cap,
                }),
                args,
            )?
        }
        Op::Gold { cap, iters } => {
            let mut args = vec![g.input(t.clone())?, g.input(t.clone())?];
            if with_init {
                args.push(g.input(t.clone())?);
            }
            g.custom_op(
                CustomOperation::new(GoldschmidtDivision {
                    iterations: iters,
                    denominator_cap_2k: cap,
                }),
                args,
            )?
        }
        Op::Taylor { p, terms } => {
            let x = g.input(t.clone())?;
            g.custom_op(
                CustomOperation::new(TaylorExponent {
                    taylor_terms: terms,
                    fixed_precision_points: p,
                }),
                vec![x],
            )?
        }
        Op::PwlExp { p } => {
            let x = g.input(t.clone())?;
            g.custom_op(CustomOperation::new(ApproxExponent { precision: p }), vec![x])?
        }
        Op::Sigmoid { p, lb } => {
            let x = g.input(t.clone())?;
            g.custom_op(
                CustomOperation::new(ApproxSigmoid {
                    precision: p,
                    approximation_log_buckets: lb,
                }),
                vec![x],
            )?
        }
        Op::Gelu { p, lb } => {
            let x = g.input(t.clone())?;
            g.custom_op(
                CustomOperation::new(ApproxGelu {
                    precision: p,
                    approximation_log_buckets: lb,
                }),
                vec![x],
            )?
        }
        Op::FixMul { p, debug } => {
            let a = g.input(t.clone())?;
            let b = g.input(t.clone())?;
            g.custom_op(
                CustomOperation::new(FixedMultiply {
                    config: FixedPrecisionConfig {
                        fractional_bits: p,
                        debug,
                    },
                }),
                vec![a, b],
            )?
        }
    };
    o.set_as_output()?;
    g.finalize()?;
    g.set_as_main()?;
    c.finalize()?;
    Ok(c)
}

fn count_truncates(c: &Context) -> u64 {
    let mut n = 0;
    for g in c.get_graphs() {
        for node in g.get_nodes() {
            if let Operation::Truncate(_) = node.get_operation() {
                n += 1;
            }
        }
    }
    n
}

fn to_value(v: &[i64], st: ScalarType) -> CResult<Value> {
    let w: Vec<i128> = v.iter().map(|x| *x as i128).collect();
    Value::from_flattened_array(&w, st)
}

fn from_value(v: &Value, n: u64, st: ScalarType) -> CResult<Vec<i128>> {
    // to_flattened_array_u128 sign-extends signed element types to 128 bits
    Ok(v.to_flattened_array_u128(array_type(vec![n], st))?
        .into_iter()
        .map(|x| x as i128)
        .collect())
}

const PLAIN_SEED: [u8; 16] = *b"c20-plain-seed-0";

fn eval_context(c: &Context, inputs: Vec<Value>, seed: [u8; 16]) -> CResult<Value> {
    let mut ev = SimpleEvaluator::new(Some(seed))?;
    ev.preprocess(c)?;
    ev.evaluate_graph(c.get_main_graph()?, inputs)
}

// ---------------------------------------------------------------------------------------------
// judging one element

struct Verdict1 {
    ok: bool,
    /// |out - exact| in units of the last place
    err: f64,
    /// tolerance at this point, same unit
    tol: f64,
    /// exact value (ulps) for the message
    exact: f64,
    /// root-cause class for the signature
    class: &'static str,
}

/// classes of `judge` that name one specific, separately recorded root cause
const ROOT_CAUSE_CLASSES: [&str; 6] = ["cap-ge-30", "cap-31", "stall-small-result", "floor-bias-small-quotient", "cutoff", "lb5-central-bucket"];

const SIGMOID_ABS: [f64; 3] = [0.0163, 0.0045, 0.0012];
const GELU_ABS: [f64; 3] = [0.0232, 0.0059, 0.0015];
/// the source comments print the max-abs errors with four decimals: a value is consistent with the
/// printed claim while it is below the next printable value
const CLAIM_RESOLUTION: f64 = 0.0001;

/// Tolerances (all taken from the repository, none from measured output):
/// * NewtonInversion, InverseSqrt: `|out - floor(exact)| <= 1` (their unit tests).
/// * GoldschmidtDivision: the unit tests' predicate `(|out - q| * 100) / q <= 1` with
///   `q = floor(dividend * 2^cap / divisor)` in integer arithmetic, or `|out - q| <= 1`.
/// * TaylorExponent: the unit tests' `|out - exact| <= 0.01 * (1 + max(exact, out))`, plus one unit;
///   a result of exactly 0 is accepted below -10 (source comment).
/// * ApproxExponent: the unit tests' `|out - exact| <= 0.05 * (1 + max(exact, out))` on [-10, 10]
///   and the 22 % the source comment documents on the rest of [-16, 16], plus two units
///   (table and output quantisation).
/// * ApproxSigmoid / ApproxGelu: max-abs 0.0163 / 0.0045 / 0.0012 resp. 0.0232 / 0.0059 / 0.0015 for
///   4 / 5 / 6 log-buckets (source comments; read as printed with four decimals, i.e. "below the next
///   printable value"), plus two units; for GeLU the better of the erf form and
///   the tanh form (the reference the repository measured against).
/// * FixedMultiply: `|out - a*b/2^p| <= 1`.
fn judge(op: &Op, x: i64, y: i64, out: i128) -> Verdict1 {
    match *op {
        Op::Newton { cap, .. } => {
            let q = (1i128 << cap) / x as i128;
            let err = (out - q).abs() as f64;
            Verdict1 {
                ok: (out - q).abs() <= 1,
                err,
                tol: 1.0,
                exact: (1u128 << cap) as f64 / x as f64,
                // cap >= 30: the constant 2^(cap+1) is built from an i32 literal (known finding)
                class: if cap >= 30 { "cap-ge-30" } else { "ulp" },
            }
        }
        Op::InvSqrt { cap, .. } => {
            let q = inv_sqrt_floor(cap, x as u64);
            let err = (out - q).abs() as f64;
            // root cause "stall": once the iterate is 2 or 3 the floored update x*(3/2 - d*x*x/2) cannot
            // grow any more, so results of 4..5 come out as 2..3 (known finding); anything else is "ulp"
            let stall = (2..=3).contains(&out) && out - q == -2;
            Verdict1 {
                ok: (out - q).abs() <= 1,
                err,
                tol: 1.0,
                exact: (1u128 << cap) as f64 / (x as f64).sqrt(),
                class: if cap >= 31 {
                    "cap-31"
                } else if stall {
                    "stall-small-result"
                } else {
                    "ulp"
                },
            }
        }
        Op::Gold { cap, iters } => {
            // x = divisor, y = dividend
            let q = ((y as i128) << cap) / x as i128;
            let d = (out - q).abs();
            let ok = d <= 1 || (q > 0 && (d * 100) / q <= 1);
            // second line of defence behind the known finding "floor bias": every one of the
            // iterations-1 fixed-point products floors (at most one unit each, always downwards, the
            // error of b entering a with weight quotient * 2^-cap)
            let accum = (iters.saturating_sub(1)) as f64 * (1.0 + y as f64 / x as f64) + 1.0;
            let floor_bias = !ok && out <= q && (d as f64) <= accum;
            Verdict1 {
                ok,
                err: d as f64,
                tol: (q as f64 * 0.02).max(1.0),
                exact: (y as f64) * (1u128 << cap) as f64 / x as f64,
                class: if floor_bias { "floor-bias-small-quotient" } else { "rel" },
            }
        }
        Op::Taylor { p, .. } => {
            let s = (1u64 << p) as f64;
            let exact = (x as f64 / s).exp() * s;
            let o = out as f64;
            let err = (o - exact).abs();
            let tol = 0.01 * (1.0 + exact.max(o)) + 1.0;
            let below_cut = x < -(10i64 << p);
            let ok = err <= tol || (below_cut && out == 0);
            // the implementation zeroes the result where x / ln 2 < -10, i.e. on [-10, -6.93)
            let class = if !ok && out == 0 && x >= -(10i64 << p) {
                "cutoff"
            } else {
                "rel"
            };
            Verdict1 { ok, err, tol, exact, class }
        }
        Op::PwlExp { p } => {
            let s = (1u64 << p) as f64;
            let exact = (x as f64 / s).exp() * s;
            let o = out as f64;
            let err = (o - exact).abs();
            let inner = x >= -(10i64 << p) && x <= (10i64 << p);
            let frac = if inner { 0.05 } else { 0.22 };
            let tol = frac * (1.0 + exact.max(o)) + 2.0;
            Verdict1 {
                ok: err <= tol,
                err,
                tol,
                exact,
                class: if inner { "rel5" } else { "rel22" },
            }
        }
        Op::Sigmoid { p, lb } => {
            let s = (1u64 << p) as f64;
            let exact = sigmoid(x as f64 / s) * s;
            let err = (out as f64 - exact).abs();
            let tol = (SIGMOID_ABS[(lb - 4) as usize] + CLAIM_RESOLUTION) * s + 2.0;
            let inside = x.abs() <= (8i64 << p);
            Verdict1 {
                ok: err <= tol,
                err,
                tol,
                exact,
                class: if inside { "abs" } else { "tail" },
            }
        }
        Op::Gelu { p, lb } => {
            let s = (1u64 << p) as f64;
            let xr = x as f64 / s;
            let e1 = gelu_exact(xr) * s;
            let e2 = gelu_tanh(xr) * s;
            let o = out as f64;
            let (err, exact) = if (o - e1).abs() <= (o - e2).abs() {
                ((o - e1).abs(), e1)
            } else {
                ((o - e2).abs(), e2)
            };
            let tol = (GELU_ABS[(lb - 4) as usize] + CLAIM_RESOLUTION) * s + 2.0;
            // root cause "lb5 claim": the chord error of the two buckets next to 0 is f''(0) h^2 / 8 = 0.00617
            // for 32 buckets, the comment says 0.0059 (known finding); p >= 13 resolves the difference
            let central = lb == 5 && x.abs() < (1i64 << p) / 4 && err <= 0.0063 * s + 2.0;
            let class = if err > tol && central {
                "lb5-central-bucket"
            } else if x > (4i64 << p) {
                "right-tail"
            } else if x < -(4i64 << p) {
                "left-tail"
            } else {
                "abs"
            };
            Verdict1 {
                ok: err <= tol,
                err,
                tol,
                exact,
                class,
            }
        }
        Op::FixMul { p, .. } => {
            let prod = (x as i128) * (y as i128);
            // |out - prod / 2^p| <= 1  <=>  |out * 2^p - prod| <= 2^p, exact in integers
            let d = ((out << p) - prod).abs();
            Verdict1 {
                ok: d <= (1i128 << p),
                err: d as f64 / (1u64 << p) as f64,
                tol: 1.0,
                exact: prod as f64 / (1u64 << p) as f64,
                class: "ulp",
            }
        }
    }
}

// ---------------------------------------------------------------------------------------------
// arg-max bookkeeping (evidence: where each approximation is worst)

#[derive(Clone, Debug)]
struct Worst {
    ratio: f64,
    err: f64,
    tol: f64,
    x: i64,
    y: i64,
    out: i128,
    exact: f64,
    points: u64,
}
static WORST: Mutex<BTreeMap<String, Worst>> = Mutex::new(BTreeMap::new());

fn record_worst(key: String, w: Worst) {
    let mut m = WORST.lock().unwrap();
    match m.get_mut(&key) {
        Some(old) => {
            let pts = old.points + w.points;
            if w.ratio > old.ratio || (w.ratio == old.ratio && (w.x, w.y) < (old.x, old.y)) {
                *old = w;
            }
            old.points = pts;
        }
        None => {
            m.insert(key, w);
        }
    }
}

thread_local! {
    /// compiled protocols per (op, scalar type, padded length, init operand, inline mode); contexts are not
    /// Send, so one cache per worker thread
    static COMPILED: std::cell::RefCell<std::collections::HashMap<String, Context>> = std::cell::RefCell::new(std::collections::HashMap::new());
}

fn survey() -> bool {
    std::env::var("VH_C20_SURVEY").ok().as_deref() == Some("1")
}

// ---------------------------------------------------------------------------------------------
// the oracle

fn inline_cfg(i: u8) -> InlineConfig {
    InlineConfig {
        default_mode: match i % 3 {
            0 => InlineMode::Simple,
            1 => InlineMode::DepthOptimized(DepthOptimizationLevel::Default),
            _ => InlineMode::DepthOptimized(DepthOptimizationLevel::Extreme),
        },
        ..Default::default()
    }
}

/// how a unit error of an intermediate Truncate can be amplified on its way to the output: ops whose
/// later factors are bounded by 1 (Newton-type self-correcting iterations with result <= 2^cap,
/// sigmoid, the single final Truncate of FixedMultiply) keep it at one unit; the others multiply the
/// intermediate by a factor of the size of the result, so the unit is relative (2^-p of the result)
fn compiled_tol(op: &Op, truncates: u64, plain: i128) -> f64 {
    let rel = (plain.abs() as f64) / (1u128 << out_bits(op)) as f64;
    match op {
        Op::FixMul { .. } => 1.0,
        Op::Newton { .. } | Op::InvSqrt { .. } | Op::Sigmoid { .. } => truncates as f64,
        _ => truncates as f64 * (1.0 + rel),
    }
}

/// failure signature: `<op>-<class>`, except that every failure of a configuration with a recorded
/// configuration-wide root cause (constants built from i32 literals) carries that root cause's name
fn sig(op: &Op, class: &str) -> String {
    match *op {
        Op::Newton { cap, .. } if cap >= 30 => "newton-cap-ge-30".to_string(),
        Op::InvSqrt { cap, .. } if cap >= 31 => "invsqrt-cap-31".to_string(),
        _ => format!("{}-{}", op_name(op), class),
    }
}

pub fn oracle(c: &Case) -> Outcome {
    let op = &c.op;
    let name = op_name(op);
    let xs0 = c.xs.to_vec();
    if xs0.is_empty() {
        return Outcome::skip("empty");
    }
    let two = matches!(op, Op::Gold { .. } | Op::FixMul { .. });
    let (lo, hi) = domain_x(op);
    let (ylo, yhi) = domain_y(op);
    if xs0.iter().any(|x| *x < lo || *x > hi) || (two && c.ys.iter().any(|y| *y < ylo || *y > yhi)) {
        return Outcome::skip("outside-documented-domain");
    }
    if two && c.ys.is_empty() {
        return Outcome::skip("empty");
    }
    // product grid
    let (xs, ys): (Vec<i64>, Vec<i64>) = if two {
        let mut a = Vec::with_capacity(xs0.len() * c.ys.len());
        let mut b = Vec::with_capacity(xs0.len() * c.ys.len());
        for x in &xs0 {
            for y in &c.ys {
                a.push(*x);
                b.push(*y);
            }
        }
        (a, b)
    } else {
        (xs0.clone(), vec![])
    };
    // compiled cases are padded (with copies of the first element) to a multiple of 32 elements so that
    // the compiled protocol can be cached per (op, length, inline mode): compilation dominates the cost
    let judged = xs.len();
    let (mut xs, mut ys) = (xs, ys);
    if let Mode::Compiled { .. } = c.mode {
        while xs.len() % 32 != 0 {
            xs.push(xs[0]);
            if two {
                ys.push(ys[0]);
            }
        }
    }
    let (xs, ys) = (xs, ys);
    let n = xs.len() as u64;
    let newton_like = matches!(op, Op::Newton { .. } | Op::InvSqrt { .. } | Op::Gold { .. });
    let with_init = newton_like && c.init != Init::None;
    let inits: Vec<i64> = if with_init {
        xs.iter().map(|d| init_value(op, c.init, *d).unwrap_or(1)).collect()
    } else {
        vec![]
    };
    if let Op::FixMul { debug: true, .. } = op {
        // debug mode documents an overflow assertion; keep clear of it (bit positions i + j < 56)
        let bl = |v: i64| 64 - (if v < 0 { !v } else { v }).leading_zeros() as i64;
        if xs.iter().zip(ys.iter()).any(|(a, b)| bl(*a) + bl(*b) > 55) {
            return Outcome::skip("debug-overflow-assert-zone");
        }
    }

    // build, instantiate, evaluate in plaintext
    let ctx = match catch(|| build_context(op, c.st, n, with_init)) {
        Ok(Ok(c)) => c,
        Ok(Err(e)) => return Outcome::fail(&sig(op, "build-err"), format!("graph construction failed: {}", e)),
        Err(p) => return Outcome::fail(&sig(op, "build-panic"), p),
    };
    let inst = match catch(|| run_instantiation_pass(ctx.clone())) {
        Ok(Ok(m)) => m.get_context(),
        Ok(Err(e)) => return Outcome::fail(&sig(op, "instantiate-err"), format!("instantiation failed: {}", e)),
        Err(p) => return Outcome::fail(&sig(op, "instantiate-panic"), p),
    };
    let mk_inputs = || -> CResult<Vec<Value>> {
        let mut v = vec![];
        match op {
            Op::Gold { .. } => {
                v.push(to_value(&ys, c.st)?); // dividend
                v.push(to_value(&xs, c.st)?); // divisor
            }
            Op::FixMul { .. } => {
                v.push(to_value(&xs, c.st)?);
                v.push(to_value(&ys, c.st)?);
            }
            _ => v.push(to_value(&xs, c.st)?),
        }
        if with_init {
            v.push(to_value(&inits, c.st)?);
        }
        Ok(v)
    };
    let plain = match catch(|| -> CResult<Vec<i128>> {
        let v = eval_context(&inst, mk_inputs()?, PLAIN_SEED)?;
        from_value(&v, n, c.st)
    }) {
        Ok(Ok(v)) => v,
        Ok(Err(e)) => return Outcome::fail(&sig(op, "eval-err"), format!("plaintext evaluation failed: {}", e)),
        Err(p) => return Outcome::fail(&sig(op, "eval-panic"), p),
    };

    // classes reached
    let bnd = boundaries(op);
    let hits_boundary = xs0.iter().any(|x| bnd.binary_search(x).is_ok());
    let hits_end = xs0.iter().any(|x| *x == lo || *x == hi);
    let neg = xs0.iter().any(|x| *x < 0) || c.ys.iter().any(|y| *y < 0);
    let mut labels = vec![
        format!("op:{}", op_key(op)),
        format!("st:{}", c.st),
        format!(
            "init:{}",
            match c.init {
                Init::None => "none",
                Init::Pow2 => "pow2",
                Init::Low => "low",
                Init::High => "high",
                Init::Sel(_) => "sel",
                Init::DocUpper(_) => "doc-upper",
                Init::DocMid(_) => "doc-mid",
            }
        ),
        format!("points:{}", if n >= 4096 { ">=4096" } else if n >= 256 { "256-4095" } else if n >= 16 { "16-255" } else { "<16" }),
    ];
    if hits_boundary {
        labels.push(format!("{}:bucket-boundary", name));
    }
    if hits_end {
        labels.push(format!("{}:domain-end", name));
    }
    if neg {
        labels.push(format!("{}:negative-operand", name));
    }

    match c.mode {
        Mode::Plain => {
            let mut worst: Option<Worst> = None;
            let mut first_bad: Option<(usize, Verdict1)> = None;
            let mut nbad = 0u64;
            for i in 0..judged {
                let y = if two { ys[i] } else { 0 };
                let v = judge(op, xs[i], y, plain[i]);
                let ratio = if v.tol > 0.0 { v.err / v.tol } else { v.err };
                if worst.as_ref().map(|w| ratio > w.ratio).unwrap_or(true) {
                    worst = Some(Worst {
                        ratio,
                        err: v.err,
                        tol: v.tol,
                        x: xs[i],
                        y,
                        out: plain[i],
                        exact: v.exact,
                        points: 0,
                    });
                }
                if !v.ok {
                    nbad += 1;
                    // report an element whose class is not one of the dedicated root-cause classes if
                    // there is one, so that a recorded finding cannot mask a different failure
                    let replace = match &first_bad {
                        None => true,
                        Some((_, old)) => ROOT_CAUSE_CLASSES.contains(&old.class) && !ROOT_CAUSE_CLASSES.contains(&v.class),
                    };
                    if replace {
                        first_bad = Some((i, v));
                    }
                }
            }
            if let Some(mut w) = worst {
                w.points = n;
                let init_tag = match c.init {
                    Init::None => "",
                    Init::DocUpper(_) => "/init-doc-upper",
                    _ => "/init",
                };
                record_worst(format!("{}/{}{}", op_key(op), c.st, init_tag), w);
            }
            if let Some((i, v)) = first_bad {
                let mut class = v.class.to_string();
                if let Init::DocUpper(_) = c.init {
                    class = "init-doc-upper".into();
                }
                let sig = sig(op, &class);
                let msg = format!(
                    "{} {}: x={} (real {:.6}){}{} -> out={} but exact={:.4} ulps; |err|={:.4} > tol={:.4} ulps ({} of {} points of the case exceed)",
                    op_key(op),
                    c.st,
                    xs[i],
                    xs[i] as f64 / (1u64 << out_bits(op).min(62)) as f64,
                    if two { format!(" y={}", ys[i]) } else { String::new() },
                    if with_init { format!(" init={}", inits[i]) } else { String::new() },
                    plain[i],
                    v.exact,
                    v.err,
                    v.tol,
                    nbad,
                    judged
                );
                if survey() {
                    return Outcome::pass(false).labels(labels).label(format!("survey-violation:{}:{}", sig, op_key(op)));
                }
                return Outcome::fail(&sig, msg);
            }
            Outcome::pass(hits_boundary || hits_end).labels(labels)
        }
        Mode::Compiled { seed, inline } => {
            labels.push(format!("inline:{}", inline % 3));
            let truncs = count_truncates(&inst);
            let cfg = inline_cfg(inline);
            let n_inputs = if with_init { 1 } else { 0 } + if two { 2 } else { 1 };
            let key = format!("{:?}|{}|{}|{}|{}", op, c.st, n, with_init, inline % 3);
            let cached = COMPILED.with(|m| m.borrow().get(&key).cloned());
            let compiled = match cached {
                Some(cc) => cc,
                None => {
                    let cc = match catch(|| {
                        compile_context(
                            ctx.clone(),
                            vec![IOStatus::Party(0); n_inputs],
                            vec![IOStatus::Party(0)],
                            cfg,
                            // only used for constant folding, which is deterministic
                            || SimpleEvaluator::new(Some(PLAIN_SEED)),
                        )
                    }) {
                        Ok(Ok(m)) => m.get_context(),
                        Ok(Err(e)) => return Outcome::fail(&format!("{}-compile-err", name), format!("compile_context failed: {}", e)),
                        Err(p) => return Outcome::fail(&format!("{}-compile-panic", name), p),
                    };
                    COMPILED.with(|m| {
                        let mut m = m.borrow_mut();
                        if m.len() >= 48 {
                            m.clear();
                        }
                        m.insert(key.clone(), cc.clone());
                    });
                    cc
                }
            };
            let got = match catch(|| -> CResult<Vec<i128>> {
                let v = eval_context(&compiled, mk_inputs()?, seed)?;
                from_value(&v, n, c.st)
            }) {
                Ok(Ok(v)) => v,
                Ok(Err(e)) => return Outcome::fail(&format!("{}-compiled-eval-err", name), format!("evaluation of the compiled graph failed: {}", e)),
                Err(p) => return Outcome::fail(&format!("{}-compiled-eval-panic", name), p),
            };
            // piecewise-linear ops: the secure Truncate that computes the bucket index returns
            // floor + (1 with probability frac), so the compiled graph may evaluate the line of the
            // neighbouring bucket (known finding). Behind it the difference is still bounded by the rise
            // of the two buckets around the nearest control point, taken from a plaintext evaluation of
            // the control points.
            let ctrl: Option<(Vec<i64>, Vec<i128>)> = match pwl_interval(op) {
                Some((l, r, lb)) => {
                    let p = out_bits(op);
                    let h = ((r - l) << p) >> lb;
                    let pts: Vec<i64> = (-2..=(1i64 << lb) + 2).map(|i| (l << p) + h * i).collect();
                    match catch(|| -> CResult<Vec<i128>> {
                        let cc = build_context(op, c.st, pts.len() as u64, false)?;
                        let ci = run_instantiation_pass(cc)?.get_context();
                        let v = eval_context(&ci, vec![to_value(&pts, c.st)?], PLAIN_SEED)?;
                        from_value(&v, pts.len() as u64, c.st)
                    }) {
                        Ok(Ok(v)) => Some((pts, v)),
                        _ => None,
                    }
                }
                None => None,
            };
            let bucket_rise = |x: i64| -> f64 {
                match &ctrl {
                    Some((pts, vals)) => {
                        // lines of adjacent buckets meet at their common control point, so they differ at x
                        // by at most the rises of the two buckets around it; x's bucket has a common
                        // control point with its neighbour on either side
                        let h = pts[1] - pts[0];
                        let j0 = (x - pts[0]).div_euclid(h);
                        let mut worst = 0f64;
                        for j in [j0, j0 + 1] {
                            let j = j.clamp(1, pts.len() as i64 - 2) as usize;
                            let r = ((vals[j + 1] - vals[j]).abs() + (vals[j] - vals[j - 1]).abs()) as f64;
                            worst = worst.max(r);
                        }
                        worst
                    }
                    None => 0.0,
                }
            };
            let mut worst: Option<Worst> = None;
            // (index, err, tol, class)
            let mut first_bad: Option<(usize, f64, f64, &'static str)> = None;
            let mut nbad = 0;
            for i in 0..judged {
                let tol = compiled_tol(op, truncs, plain[i]);
                let err = (got[i] - plain[i]).abs() as f64;
                let ratio = err / tol;
                if worst.as_ref().map(|w| ratio > w.ratio).unwrap_or(true) {
                    worst = Some(Worst {
                        ratio,
                        err,
                        tol,
                        x: xs[i],
                        y: if two { ys[i] } else { 0 },
                        out: got[i],
                        exact: plain[i] as f64,
                        points: 0,
                    });
                }
                if err > tol {
                    nbad += 1;
                    let class = if ctrl.is_some() && err <= tol + bucket_rise(xs[i]) {
                        "pwl-neighbour-bucket"
                    } else {
                        "beyond-truncation-error"
                    };
                    let replace = match &first_bad {
                        None => true,
                        Some((_, _, _, old)) => *old == "pwl-neighbour-bucket" && class != "pwl-neighbour-bucket",
                    };
                    if replace {
                        first_bad = Some((i, err, tol, class));
                    }
                }
            }
            if let Some(mut w) = worst {
                w.points = n;
                record_worst(format!("compiled/{}", op_key(op)), w);
            }
            labels.push(format!("truncates:{}", truncs));
            if let Some((i, err, tol, class)) = first_bad {
                // one root cause for all three PWL ops
                let sig = if class == "pwl-neighbour-bucket" {
                    "compiled-pwl-neighbour-bucket".to_string()
                } else {
                    format!("{}-compiled-{}", name, class)
                };
                let msg = format!(
                    "{} {}: x={}{} -> compiled={} plaintext={} |diff|={} > {} (= accumulated truncation error of {} Truncate nodes); {} of {} points exceed",
                    op_key(op),
                    c.st,
                    xs[i],
                    if two { format!(" y={}", ys[i]) } else { String::new() },
                    got[i],
                    plain[i],
                    err,
                    tol,
                    truncs,
                    nbad,
                    judged
                );
                if survey() {
                    return Outcome::pass(false).labels(labels).label(format!("survey-violation:{}:{}", sig, op_key(op)));
                }
                return Outcome::fail(&sig, msg);
            }
            Outcome::pass(hits_boundary || hits_end).labels(labels)
        }
    }
}

// ---------------------------------------------------------------------------------------------
// grids and generators

const CHUNK: u64 = 4096;

fn range_chunks(op: Op, st: ScalarType, lo: i64, hi: i64, init: Init, out: &mut Vec<Case>) {
    let mut a = lo;
    while a <= hi {
        let n = ((hi - a + 1) as u64).min(CHUNK);
        out.push(Case {
            op,
            st,
            xs: Xs::Range { lo: a, step: 1, n },
            ys: vec![],
            init,
            mode: Mode::Plain,
        });
        a += n as i64;
    }
}

/// floor(1 + log2(cap)): the repository's rule of thumb for the iteration count, as an integer
fn rule_of_thumb(cap: u64) -> u64 {
    1 + (63 - cap.leading_zeros() as u64)
}

fn dedup_sorted(mut v: Vec<u64>) -> Vec<u64> {
    v.sort();
    v.dedup();
    v
}

const GRID_INITS: [Init; 4] = [Init::None, Init::Pow2, Init::Low, Init::High];

fn newton_grid(env: &Env) -> Vec<Case> {
    let mut v = vec![];
    let quick = env.tier == Tier::Quick;
    for cap in env.pick(vec![8u64, 10, 12, 16], vec![4u64, 6, 8, 9, 10, 11, 12, 14, 16, 18]) {
        for iters in dedup_sorted(vec![rule_of_thumb(cap), 5, 7]) {
            if iters < rule_of_thumb(cap) {
                continue;
            }
            for st in [UINT64, INT64] {
                for init in GRID_INITS {
                    // quick tier: the largest grid only in the rule-of-thumb configuration
                    if quick && cap >= 16 && (iters != rule_of_thumb(cap) || !matches!(init, Init::None | Init::Low) || (st == INT64 && init != Init::None)) {
                        continue;
                    }
                    if cap >= 18 && (iters != rule_of_thumb(cap) || (st == INT64 && init != Init::None)) {
                        continue;
                    }
                    let (lo, hi) = domain_x(&Op::Newton { cap, iters });
                    range_chunks(Op::Newton { cap, iters }, st, lo, hi, init, &mut v);
                }
            }
        }
    }
    v
}

fn invsqrt_grid(env: &Env) -> Vec<Case> {
    let mut v = vec![];
    let quick = env.tier == Tier::Quick;
    for cap in env.pick(vec![4u64, 6, 8], vec![2u64, 3, 4, 5, 6, 7, 8, 9, 10]) {
        for iters in env.pick(vec![5u64, 7], vec![5u64, 6, 8]) {
            for st in [UINT64, INT64] {
                for init in GRID_INITS {
                    if cap >= 9 && (!matches!(init, Init::None | Init::Low) || (cap >= 10 && (iters != 5 || (st == INT64 && init != Init::None)))) {
                        continue;
                    }
                    if quick && cap >= 8 && (iters != 5 || (st == INT64 && init != Init::None)) {
                        continue;
                    }
                    let (lo, hi) = domain_x(&Op::InvSqrt { cap, iters });
                    range_chunks(Op::InvSqrt { cap, iters }, st, lo, hi, init, &mut v);
                }
            }
        }
    }
    v
}

fn gold_grid(env: &Env) -> Vec<Case> {
    let mut v = vec![];
    for (cap, sts) in env.pick(
        vec![(8u64, vec![UINT64, INT64, INT128])],
        // cap 6 cannot reach 1 %: one unit of b is already 1.6 % (no claim of the repository covers it)
        vec![(8u64, vec![UINT64, INT64, INT128, UINT128]), (10, vec![UINT64, INT64])],
    ) {
        for iters in env.pick(vec![5u64], vec![5u64, 7]) {
            let op = Op::Gold { cap, iters };
            let (lo, hi) = domain_x(&op);
            for st in sts.iter() {
                for init in [Init::None, Init::Pow2, Init::High] {
                    if cap >= 10 && init != Init::None && iters != 5 {
                        continue;
                    }
                    if env.tier == Tier::Quick && init != Init::None && *st != UINT64 {
                        continue;
                    }
                    // all divisors x a block of dividends per case
                    let per = (CHUNK as i64 / (hi - lo + 1)).max(1);
                    let mut y = lo;
                    while y <= hi {
                        let ye = (y + per - 1).min(hi);
                        v.push(Case {
                            op,
                            st: *st,
                            xs: Xs::Range { lo, step: 1, n: (hi - lo + 1) as u64 },
                            ys: (y..=ye).collect(),
                            init,
                            mode: Mode::Plain,
                        });
                        y = ye + 1;
                    }
                }
            }
        }
    }
    v
}

fn taylor_grid(env: &Env) -> Vec<Case> {
    let mut v = vec![];
    // precisions below 10 are not covered by any claim of the repository (its tests use 10): the
    // quantisation of 1/ln 2 alone costs more than 1 % there
    for p in env.pick(vec![10u64], vec![10u64, 11, 12, 13, 15]) {
        for terms in env.pick(vec![5u64], vec![5u64, 6, 8]) {
            if p >= 13 && terms != 5 {
                continue;
            }
            let op = Op::Taylor { p, terms };
            let (mut lo, hi) = domain_x(&op);
            if p >= 13 {
                // the zero tail below -10 is covered completely at the smaller precisions
                lo = -(11i64 << p);
            }
            range_chunks(op, INT64, lo, hi, Init::None, &mut v);
        }
    }
    v
}

fn pwl_grid(env: &Env, which: u8) -> Vec<Case> {
    let mut v = vec![];
    for p in env.pick(vec![8u64, 10], vec![8u64, 9, 10, 12, 15]) {
        // quick tier: the second precision with the default bucket count only (sigmoid) / the finest (GeLU)
        let lbs: Vec<u64> = if env.tier == Tier::Quick && p > 8 {
            if which == 1 { vec![5] } else { vec![6] }
        } else {
            vec![4, 5, 6]
        };
        let ops: Vec<Op> = match which {
            0 => vec![Op::PwlExp { p }],
            1 => lbs.iter().map(|lb| Op::Sigmoid { p, lb: *lb }).collect(),
            _ => lbs.iter().map(|lb| Op::Gelu { p, lb: *lb }).collect(),
        };
        for op in ops {
            let (mut lo, mut hi) = domain_x(&op);
            if p >= 15 {
                // complete over the approximation interval and one unit beyond; the tails at this
                // precision are walked with a stride by `pwl-tails`
                let (l, r, _) = pwl_interval(&op).unwrap();
                lo = lo.max((l - 1) << p);
                hi = hi.min((r + 1) << p);
            }
            range_chunks(op, INT64, lo, hi, Init::None, &mut v);
        }
    }
    v
}

/// strided (stride 97) walk over the tails of the flat / linear extensions at the default precision 15,
/// where the extension's slope is resolved (at precision <= 10 the end buckets quantise to slope 0)
fn pwl_tails_grid() -> Vec<Case> {
    let mut v = vec![];
    let p = 15u64;
    for op in [Op::Sigmoid { p, lb: 5 }, Op::Sigmoid { p, lb: 6 }, Op::Gelu { p, lb: 6 }, Op::Gelu { p, lb: 5 }, Op::PwlExp { p }] {
        let (lo, hi) = domain_x(&op);
        let (l, r, _) = pwl_interval(&op).unwrap();
        let mut segs = vec![(lo, (l << p) + 64)];
        if hi > (r << p) {
            segs.push(((r << p) - 64, hi));
        }
        for (a, b) in segs {
            let total = ((b - a) / 97 + 1) as u64;
            let mut done = 0u64;
            while done < total {
                let n = (total - done).min(CHUNK);
                v.push(Case {
                    op,
                    st: INT64,
                    xs: Xs::Range { lo: a + 97 * done as i64, step: 97, n },
                    ys: vec![],
                    init: Init::None,
                    mode: Mode::Plain,
                });
                done += n;
            }
        }
    }
    v
}

fn interesting_factors(p: u64) -> Vec<i64> {
    let one = 1i64 << p;
    let mut v = vec![0, 1, -1, 2, -2, 3, -3, one, -one, one + 1, one - 1, -one - 1, -one + 1, 3 * one / 2, -3 * one / 2, one / 2, -(one / 2), 5 * one, -7 * one];
    for k in [3u32, 7, 11, 17, 23, 26] {
        v.push(1i64 << k);
        v.push(-(1i64 << k));
        v.push((1i64 << k) + 1);
        v.push(-(1i64 << k) - 1);
        v.push((1i64 << k) - 1);
    }
    v.sort();
    v.dedup();
    v
}

fn fixmul_grid(env: &Env) -> Vec<Case> {
    let mut v = vec![];
    for p in env.pick(vec![0u64, 8, 15], vec![0u64, 1, 4, 8, 10, 12, 15, 20]) {
        let f = interesting_factors(p);
        v.push(Case {
            op: Op::FixMul { p, debug: false },
            st: INT64,
            xs: Xs::List(f.clone()),
            ys: f.clone(),
            init: Init::None,
            mode: Mode::Plain,
        });
        // a complete small square around zero
        v.push(Case {
            op: Op::FixMul { p, debug: false },
            st: INT64,
            xs: Xs::Range { lo: -48, step: 1, n: 97 },
            ys: (-20..=20).collect(),
            init: Init::None,
            mode: Mode::Plain,
        });
        // debug mode builds 64 x 64 bit products per element: small blocks
        let nblk = if env.tier == Tier::Quick { 2 } else { 99 };
        for (k, blk) in f.chunks(12).enumerate().take(nblk) {
            v.push(Case {
                op: Op::FixMul { p, debug: true },
                st: INT64,
                xs: Xs::List(blk.to_vec()),
                ys: f.iter().cloned().skip(k % 3).step_by(5).collect(),
                init: Init::None,
                mode: Mode::Plain,
            });
        }
    }
    v
}

/// set from the known-findings file: while F "taylor-cutoff" is open the generated sweeps keep out of the
/// zeroed zone [-10, -10 ln 2) for precisions above 10 (points that fall into it are moved up by its width),
/// so that the search continues behind the finding; the pinned case keeps reproducing it
static AVOID_TAYLOR_CUTOFF: std::sync::atomic::AtomicBool = std::sync::atomic::AtomicBool::new(false);

/// a point of the domain with emphasis on bucket boundaries (+-2) and the domain ends
fn arb_point(op: Op) -> BoxedStrategy<i64> {
    let (lo, hi) = domain_x(&op);
    let b = boundaries(&op);
    let nb = b.len();
    let zone: Option<(i64, i64)> = match op {
        Op::Taylor { p, .. } if p > 10 && AVOID_TAYLOR_CUTOFF.load(std::sync::atomic::Ordering::Relaxed) => {
            let s = (1u64 << p) as f64;
            Some((-(10i64 << p), (-10.0 * std::f64::consts::LN_2 * s).ceil() as i64 + 2))
        }
        _ => None,
    };
    let remap = move |x: i64| match zone {
        Some((zl, zh)) if x >= zl && x < zh => x + (zh - zl),
        _ => x,
    };
    prop_oneof![
        3 => (any::<u16>(), -2i64..=2).prop_map(move |(i, d)| (b[pick(i, nb)] + d).clamp(lo, hi)),
        1 => (0i64..=3).prop_map(move |d| lo + d.min(hi - lo)),
        1 => (0i64..=3).prop_map(move |d| hi - d.min(hi - lo)),
        6 => lo..=hi,
    ]
    .prop_map(remap)
    .boxed()
}

fn arb_second(op: Op) -> BoxedStrategy<i64> {
    let (lo, hi) = domain_y(&op);
    match op {
        Op::FixMul { p, .. } => {
            let f = interesting_factors(p);
            let nf = f.len();
            prop_oneof![
                2 => any::<u16>().prop_map(move |i| f[pick(i, nf)]),
                3 => -(1i64 << 26)..=(1i64 << 26),
                2 => -(4i64 << p.min(24))..=(4i64 << p.min(24)),
            ]
            .boxed()
        }
        _ => prop_oneof![1 => Just(lo), 1 => Just(hi), 6 => lo..=hi].boxed(),
    }
}

fn sweep_ops(env: &Env) -> Vec<(Op, Vec<ScalarType>)> {
    let mut v: Vec<(Op, Vec<ScalarType>)> = vec![];
    let u = vec![UINT64, INT64];
    // caps >= 30 are excluded by construction (known finding newton-cap-ge-30, pinned below)
    for cap in env.pick(vec![16u64, 20, 28], vec![16u64, 20, 24, 28, 29]) {
        v.push((Op::Newton { cap, iters: rule_of_thumb(cap) }, u.clone()));
        v.push((Op::Newton { cap, iters: rule_of_thumb(cap) + 2 }, u.clone()));
    }
    for cap in env.pick(vec![10u64, 12, 16], vec![10u64, 11, 12, 14, 16, 20]) {
        v.push((Op::InvSqrt { cap, iters: 5 }, u.clone()));
        v.push((Op::InvSqrt { cap, iters: 7 }, u.clone()));
    }
    for cap in env.pick(vec![10u64, 16], vec![10u64, 12, 16, 20]) {
        v.push((Op::Gold { cap, iters: 5 }, vec![UINT64, INT64, INT128, UINT128]));
        v.push((Op::Gold { cap, iters: 7 }, vec![UINT64, INT64]));
    }
    for p in env.pick(vec![12u64, 15], vec![10u64, 11, 12, 13, 14, 15]) {
        v.push((Op::Taylor { p, terms: 5 }, vec![INT64]));
        v.push((Op::Taylor { p, terms: 7 }, vec![INT64]));
    }
    for p in env.pick(vec![10u64, 15], vec![10u64, 12, 13, 15]) {
        v.push((Op::PwlExp { p }, vec![INT64]));
        for lb in 4..=6 {
            v.push((Op::Sigmoid { p, lb }, vec![INT64]));
            v.push((Op::Gelu { p, lb }, vec![INT64]));
        }
    }
    for p in [10u64, 15] {
        v.push((Op::FixMul { p, debug: false }, vec![INT64]));
        v.push((Op::FixMul { p, debug: true }, vec![INT64]));
    }
    v
}

fn arb_init(op: Op) -> BoxedStrategy<Init> {
    match op {
        Op::Newton { .. } | Op::InvSqrt { .. } | Op::Gold { .. } => prop_oneof![
            4 => Just(Init::None),
            1 => Just(Init::Pow2),
            1 => Just(Init::Low),
            1 => Just(Init::High),
            3 => any::<u16>().prop_map(Init::Sel),
            3 => any::<u16>().prop_map(Init::DocMid),
        ]
        .boxed(),
        _ => Just(Init::None).boxed(),
    }
}

fn arb_sweep_case(ops: Vec<(Op, Vec<ScalarType>)>, points: usize) -> BoxedStrategy<Case> {
    let n = ops.len();
    (any::<u16>(), any::<u16>())
        .prop_flat_map(move |(i, j)| {
            let (op, sts) = ops[pick(i, n)].clone();
            let st = sts[pick(j, sts.len())];
            let two = matches!(op, Op::Gold { .. } | Op::FixMul { .. });
            let (nx, ny) = match op {
                Op::FixMul { debug: true, .. } => (8, 4usize),
                _ if two => (points / 8, 8usize),
                _ => (points, 0usize),
            };
            (
                proptest::collection::vec(arb_point(op), 1..=nx),
                proptest::collection::vec(arb_second(op), ny.min(1)..=ny),
                arb_init(op),
            )
                .prop_map(move |(xs, ys, init)| Case {
                    op,
                    st,
                    xs: Xs::List(xs),
                    ys,
                    init,
                    mode: Mode::Plain,
                })
        })
        .boxed()
}

fn compiled_ops(env: &Env) -> Vec<Op> {
    let mut v = vec![
        Op::Newton { cap: 8, iters: 4 },
        Op::InvSqrt { cap: 6, iters: 5 },
        Op::Gold { cap: 8, iters: 5 },
        Op::Taylor { p: 10, terms: 5 },
        Op::Sigmoid { p: 8, lb: 4 },
        Op::Gelu { p: 8, lb: 4 },
        Op::PwlExp { p: 8 },
        Op::FixMul { p: 8, debug: false },
    ];
    if env.tier == Tier::Thorough {
        v.extend(vec![
            Op::Newton { cap: 10, iters: 5 },
            Op::InvSqrt { cap: 10, iters: 5 },
            Op::Gold { cap: 10, iters: 5 },
            Op::Taylor { p: 12, terms: 6 },
            Op::Sigmoid { p: 10, lb: 5 },
            Op::Sigmoid { p: 15, lb: 5 },
            Op::Gelu { p: 10, lb: 5 },
            Op::Gelu { p: 15, lb: 6 },
            Op::PwlExp { p: 10 },
            Op::FixMul { p: 15, debug: false },
        ]);
    }
    v
}

/// coarse grid for the compiled comparison: every bucket boundary, the domain ends and generated points
fn arb_compiled_case(ops: Vec<Op>, extra: usize) -> BoxedStrategy<Case> {
    let n = ops.len();
    (any::<u16>(), arb_seed16(), 0u8..3)
        .prop_flat_map(move |(i, seed, inline)| {
            let op = ops[pick(i, n)];
            let two = matches!(op, Op::Gold { .. } | Op::FixMul { .. });
            let base: Vec<i64> = if two { vec![] } else { boundaries(&op) };
            let ny = if two { 4usize } else { 0 };
            let nx = if two { extra / 4 } else { extra };
            (
                proptest::collection::vec(arb_point(op), 1..=nx),
                proptest::collection::vec(arb_second(op), ny.min(1)..=ny),
                prop_oneof![Just(Init::None), any::<u16>().prop_map(Init::Sel)],
            )
                .prop_map(move |(mut xs, ys, init)| {
                    xs.extend(base.iter().cloned());
                    let newton_like = matches!(op, Op::Newton { .. } | Op::InvSqrt { .. } | Op::Gold { .. });
                    Case {
                        op,
                        // the secure Truncate supports signed types only
                        st: INT64,
                        xs: Xs::List(xs),
                        ys,
                        init: if newton_like { init } else { Init::None },
                        mode: Mode::Compiled { seed, inline },
                    }
                })
        })
        .boxed()
}

// ---------------------------------------------------------------------------------------------

/// development aid: VH_C20_ONLY=a,b restricts the run to the named sub-checks
fn only(name: &str) -> bool {
    match std::env::var("VH_C20_ONLY") {
        Ok(v) if !v.is_empty() => v.split(',').any(|x| x == name),
        _ => true,
    }
}

fn pinned_cases() -> Vec<(&'static str, Case)> {
    let plain = |op: Op, st: ScalarType, xs: Vec<i64>, ys: Vec<i64>, init: Init| Case {
        op,
        st,
        xs: Xs::List(xs),
        ys,
        init,
        mode: Mode::Plain,
    };
    vec![
        // F-C20-1: NewtonInversion builds 2^(cap+1) from an i32 literal
        ("newton-cap30", plain(Op::Newton { cap: 30, iters: 5 }, INT64, vec![1, 3, 1000], vec![], Init::None)),
        ("newton-cap31", plain(Op::Newton { cap: 31, iters: 5 }, UINT64, vec![3], vec![], Init::None)),
        // F-C20-2: InverseSqrt builds 3 * 2^(cap-1) from an i32 literal (cap = 31 is admitted by its own check)
        ("invsqrt-cap31", plain(Op::InvSqrt { cap: 31, iters: 6 }, INT64, vec![1, 4, 1000], vec![], Init::None)),
        // F-C20-3: InverseSqrt stalls at iterates 2..3
        ("invsqrt-stall", plain(Op::InvSqrt { cap: 10, iters: 5 }, UINT64, vec![65536], vec![], Init::None)),
        // F-C20-4: Goldschmidt floor bias, 17 / 68 at cap 8
        ("gold-floor-bias", plain(Op::Gold { cap: 8, iters: 5 }, UINT64, vec![68], vec![17], Init::None)),
        // F-C20-5: TaylorExponent zeroes [-10, -6.93) (cut-off compared in base-2 units)
        ("taylor-cutoff", plain(Op::Taylor { p: 15, terms: 5 }, INT64, vec![-7 << 15], vec![], Init::None)),
        // F-C20-6: documented range of the initial approximation reaches d*g -> 2^(cap+1), where Newton does not converge in the rule-of-thumb iterations
        ("newton-init-doc-upper", plain(Op::Newton { cap: 10, iters: 5 }, UINT64, vec![3], vec![], Init::DocUpper(65535))),
        ("gold-init-doc-upper", plain(Op::Gold { cap: 10, iters: 5 }, UINT64, vec![3], vec![100], Init::DocUpper(65535))),
        // F-C20-8: ApproxGelu with 32 buckets exceeds its documented 0.0059 next to 0
        ("gelu-lb5-claim", plain(Op::Gelu { p: 15, lb: 5 }, INT64, vec![-4137, 4137], vec![], Init::None)),
        // F-C20-7: compiled PWL evaluates the neighbouring bucket
        (
            "compiled-pwl",
            Case {
                op: Op::PwlExp { p: 8 },
                st: INT64,
                xs: Xs::Range { lo: 2305, step: 6, n: 40 },
                ys: vec![],
                init: Init::None,
                mode: Mode::Compiled { seed: *b"c20-pinned-seed0", inline: 0 },
            },
        ),
    ]
}

pub fn run(env: &Env) {
    env.assume("domains are the documented ones: NewtonInversion/Goldschmidt operands in (0, 2^(cap-1)); InverseSqrt input in (0, min(2^(2cap-1), 2^21)); \
TaylorExponent on [-10, 10] (the interval its tests sweep, inside the 31-p binary digits the source allows) plus the left tail where the source documents 0; \
ApproxExponent on [-16, 16] plus the flat left tail; ApproxSigmoid on [-8, 8] plus both flat tails to +-32, ApproxGelu on [-4, 4] plus the flat left tail to -32 and the linear right tail as far as its tests sweep (4.785); FixedMultiply operands with |a| <= 2^28, |b| <= 2^27 (below the overflow bound of its debug assertion)");
    env.assume("initial approximations are generated in the part of the documented range that the repository's tests exercise (2^(cap-1) <= d*g <= 2^cap; for InverseSqrt 2^(2cap-2) <= d*g*g <= 2^(2cap), the relation of its test - the doc comment omits the square); the rest of the documented range (d*g up to 2^(cap+1)) is probed by pinned cases");
    env.assume("iteration counts: the repository's rule of thumb floor(1 + log2(cap)) or more for NewtonInversion, 5 (as tested) or more for InverseSqrt and Goldschmidt; Taylor terms 5 ('typically enough') or more; TaylorExponent precision >= 10 (the tested one; below it no accuracy is claimed)");
    env.assume("the secure Truncate has a documented failure probability < 2^(l-64) for |value| < 2^l on non-power-of-two scales (TaylorExponent only, values < 2^26 at the compiled precisions): treated as impossible");

    let avoid = env.known.iter().any(|k| k.status == "open" && k.signature == "taylor-cutoff");
    AVOID_TAYLOR_CUTOFF.store(avoid, std::sync::atomic::Ordering::Relaxed);
    env.note(
        "excluded_by_construction",
        json!({"taylor-cutoff zone [-10, -6.93) at precision > 10 in generated sweeps": avoid}),
    );
    if only("pinned") {
        for (name, case) in pinned_cases() {
            env.pinned(name, &case, oracle);
        }
    }
    if only("newton-grid") {
        env.enumerate(
            "newton-grid",
            "NewtonInversion, every integer of (0, 2^(cap-1)), UINT64+INT64, iterations {rule of thumb, 5, 7}, init {built-in, tests' power of two, smallest, largest admissible}: |out - floor(2^cap/x)| <= 1",
            newton_grid(env),
            oracle,
        );
    }
    if only("invsqrt-grid") {
        env.enumerate(
            "invsqrt-grid",
            "InverseSqrt, every integer of (0, 2^(2cap-1)), UINT64+INT64, init variants: |out - floor(2^cap/sqrt(x))| <= 1",
            invsqrt_grid(env),
            oracle,
        );
    }
    if only("gold-grid") {
        env.enumerate(
            "gold-grid",
            "GoldschmidtDivision, every (dividend, divisor) pair of (0, 2^(cap-1))^2: the unit tests' 1 % predicate or one unit",
            gold_grid(env),
            oracle,
        );
    }
    if only("taylor-grid") {
        env.enumerate(
            "taylor-grid",
            "TaylorExponent, every fixed-point input of [-32, 10]: 1 % (tests' metric) + 1 unit; 0 accepted below -10",
            taylor_grid(env),
            oracle,
        );
    }
    if only("pwlexp-grid") {
        env.enumerate(
            "pwlexp-grid",
            "ApproxExponent, every fixed-point input of [-32, 16] (precision 15: [-17, 16]): 5 % on [-10, 10], 22 % elsewhere, + 2 units",
            pwl_grid(env, 0),
            oracle,
        );
    }
    if only("sigmoid-grid") {
        env.enumerate(
            "sigmoid-grid",
            "ApproxSigmoid, log-buckets 4/5/6, every fixed-point input of [-32, 32] (precision 15: [-9, 9]): documented max-abs error + 2 units",
            pwl_grid(env, 1),
            oracle,
        );
    }
    if only("gelu-grid") {
        env.enumerate(
            "gelu-grid",
            "ApproxGelu, log-buckets 4/5/6, every fixed-point input of [-32, 4.785] (precision 15: [-5, 4.785]): documented max-abs error + 2 units",
            pwl_grid(env, 2),
            oracle,
        );
    }
    if only("pwl-tails") {
        env.enumerate_opt(
            "pwl-tails",
            "ApproxSigmoid / ApproxGelu / ApproxExponent at precision 15: every 97th fixed-point input of the tails outside the approximation interval (to +-32), same tolerances",
            pwl_tails_grid(),
            false,
            oracle,
        );
    }
    if only("fixmul-grid") {
        env.enumerate_opt(
            "fixmul-grid",
            "FixedMultiply, operand grids with negatives, zero, +-1, +-2^k+-1, the fixed-point one; with and without debug: |out - a*b/2^p| <= 1",
            fixmul_grid(env),
            false,
            oracle,
        );
    }
    if only("sweep") {
        let ops = sweep_ops(env);
        env.campaign(
            "sweep",
            "generated dense sweeps at the larger precisions / caps: up to 128 points per case, 3/11 of them within +-2 of a bucket boundary, 2/11 at a domain end",
            env.n(384, 48_000),
            move || arb_sweep_case(ops.clone(), 128),
            oracle,
        );
    }
    if only("compiled") {
        let cops = compiled_ops(env);
        env.campaign(
            "compiled",
            "compile_context(input owner party 0, output to party 0), seeded evaluation of the compiled graph on the plaintext input vs plaintext evaluation; coarse grid = all bucket boundaries + domain ends + generated points; |diff| <= number of Truncate nodes (x (1 + |result|) where later factors exceed one)",
            env.n(96, 6_000),
            move || arb_compiled_case(cops.clone(), 24),
            oracle,
        );
    }

    // evidence: where each approximation is worst
    let worst = WORST.lock().unwrap();
    let mut m = serde_json::Map::new();
    for (k, w) in worst.iter() {
        m.insert(
            k.clone(),
            json!({
                "points": w.points,
                "argmax_x": w.x,
                "y": w.y,
                "out": w.out.to_string(),
                "exact_ulps": (w.exact * 1e4).round() / 1e4,
                "err_ulps": (w.err * 1e4).round() / 1e4,
                "tol_ulps": (w.tol * 1e4).round() / 1e4,
                "err_over_tol": (w.ratio * 1e4).round() / 1e4,
            }),
        );
    }
    env.note("argmax_error_per_op", J::Object(m));
}

pub fn replay(_check: &str, case: J) -> Outcome {
    replay_with::<Case, _>(case, oracle)
}
