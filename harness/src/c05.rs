//! C05 — secure truncation stays within its documented error.
//!
//! One-op source graphs `Truncate(scale)` on a scalar/array input, compiled with every owner /
//! output-party / inline-mode configuration, executed (a) by one global `SimpleEvaluator` under
//! several random tapes and (b) by the three-party executor `walk::run3`.
//!
//! Oracle (harness integer arithmetic on i128/u128, independent of ciphercore):
//!   * private input, scale = 2^k (protocol TruncateMPC2K, documented in mpc_truncate.rs:135-184):
//!     `out - floor(x / 2^k)  (mod 2^w)  in {0, 1}` with the MATHEMATICAL floor (also for x < 0);
//!   * private input, general scale on a signed type (protocol TruncateMPC, mpc_truncate.rs:11-26):
//!     `out - trunc_toward_zero(x / scale) in {-1, 0, 1}`, or the documented "additive error in
//!     MSBs" (wrap-around of the share sum): `out - q in +M/scale + {-2..1}` or
//!     `-M/scale + {-1..2}` — recognised, counted as `documented-wrap`, not a violation;
//!   * public input: exactly the plaintext quotient (signed: toward zero; unsigned: floor).
use crate::c01::{eval_compiled, eval_plain};
use crate::core::*;
use crate::graphgen::splitmix;
use crate::hv::*;
use crate::mpcx::*;
use crate::walk::{run3, sends_of};
use ciphercore_base::data_types::{array_type, scalar_type, tuple_type, ScalarType, Type};
use ciphercore_base::graphs::{create_context, Context};
use proptest::prelude::*;
use serde::{Deserialize, Serialize};
use serde_json::Value as J;

pub const RULE: &str = "one-op source graphs Truncate(scale) on a scalar/array input; \
pow2: all 10 integer scalar types x every k in 1..w-2; general: signed types x non-power-of-two scales (small, 2^j+-1, 3*2^j, uniform, near 2^(w-1)), unsigned general scales only to count the documented rejection / public exactness; \
inputs only from the documented range ([-M/4, M/4) signed, [0, M/2) unsigned) with boundaries forced in (range ends, 0, +-1, scale-1/scale/scale+1, multiples of the scale +-1, largest/smallest multiple, 2^j+-1); owner in {party 0/1/2, shared, public} x all 16 output-party lists (ordered subsets, empty = stays shared) x 3 inline modes x 3 global-evaluator tapes + 2 three-party runs (own tape per party, junk for non-owners); \
oracle (harness i128 arithmetic): pow2 private: out - floor(x/2^k) in {0,1}; general private: out - trunc0(x/scale) in {-1,0,1} or the documented MSB wrap (+floor(M/scale)+{-2..1} / -floor(M/scale)+{-1..2}; counted as documented-wrap); public: exact; plaintext evaluator must equal the harness quotient; \
non-trivial = private input (party or shared), scale >= 2, the compiled graph has >= 1 Send, and >= 1 element of the array is a boundary value (range end or its neighbour, 0, +-1, or within 1 of a multiple of the scale); distinct = distinct cases";

#[derive(Clone, Debug, Serialize, Deserialize)]
pub struct Case {
    pub st: ScalarType,
    pub scale: u128,
    /// empty = scalar input
    pub shape: Vec<u64>,
    /// elements reduced modulo 2^w (row-major); must lie in the documented range
    pub xs: Vec<u128>,
    /// 0,1,2 = party; 3 = public; 4 = shared
    pub owner: u8,
    /// output parties in order; empty = output stays secret-shared
    pub outs: Vec<u8>,
    pub mode: u8,
    pub compile_seed: [u8; 16],
    /// random tapes of the global evaluator (the bound must hold for every tape)
    pub seeds: Vec<[u8; 16]>,
    /// random tapes of the three parties
    pub seeds3: [[u8; 16]; 3],
    pub share_seed: u64,
    pub junk_seed: u64,
}

// ------------------------------------------------------------------------------------------------
// documented domain and the reference quotients

fn int_types() -> Vec<ScalarType> {
    ALL_ST[1..].to_vec()
}
fn signed_types() -> Vec<ScalarType> {
    ALL_ST[1..].iter().copied().filter(|s| is_signed(*s)).collect()
}

/// documented input range as mathematical integers, both ends inclusive
/// (signed: [-M/4, M/4-1]; unsigned: [0, M/2-1]); everything fits i128
pub fn range(st: ScalarType) -> (i128, i128) {
    let w = bits(st);
    if is_signed(st) {
        (-(1i128 << (w - 2)), (1i128 << (w - 2)) - 1)
    } else if w == 128 {
        (0, i128::MAX)
    } else {
        (0, (1i128 << (w - 1)) - 1)
    }
}

/// mathematical value of a reduced element, None when outside the documented range
pub fn value_in_domain(x: u128, st: ScalarType) -> Option<i128> {
    if x & !mask(st) != 0 {
        return None;
    }
    let (lo, hi) = range(st);
    let v = if is_signed(st) {
        to_signed(x, st)
    } else {
        if x > i128::MAX as u128 {
            return None;
        }
        x as i128
    };
    if v < lo || v > hi {
        None
    } else {
        Some(v)
    }
}

fn reduce(v: i128, st: ScalarType) -> u128 {
    (v as u128) & mask(st)
}

/// (out - q) mod 2^w
fn diff_mod(out: u128, q: i128, st: ScalarType) -> u128 {
    out.wrapping_sub(q as u128) & mask(st)
}

/// floor(2^w / scale) for a scale that is not a power of two
fn modulus_over(scale: u128, st: ScalarType) -> u128 {
    let w = bits(st);
    if w == 128 {
        u128::MAX / scale // scale does not divide 2^128, so floor((2^128-1)/s) == floor(2^128/s)
    } else {
        (1u128 << w) / scale
    }
}

#[derive(Clone, Copy, PartialEq, Eq, Debug)]
pub enum Ev {
    Exact,
    Plus1,
    Minus1,
    Wrap,
}

/// the verdict for one element
pub fn judge(st: ScalarType, scale: u128, private: bool, x: u128, out: u128) -> Result<Ev, (&'static str, String)> {
    let v = value_in_domain(x, st).expect("judge: element outside the documented range");
    let m = mask(st);
    let signed = is_signed(st);
    // scale as i128 (scale <= i128::MAX is a precondition for signed types; for unsigned types a
    // scale > i128::MAX exceeds every in-range value, quotient 0)
    let s = if scale > i128::MAX as u128 { None } else { Some(scale as i128) };
    let q_floor = match s {
        Some(s) => v.div_euclid(s),
        None => 0,
    };
    let q_zero = match s {
        Some(s) => v / s,
        None => 0,
    };
    if out & !m != 0 {
        return Err(("out-not-reduced", format!("output element {:#x} is not reduced modulo 2^{}", out, bits(st))));
    }
    if !private {
        let want = if signed { q_zero } else { q_floor };
        return if out == reduce(want, st) {
            Ok(Ev::Exact)
        } else {
            Err((
                "public-inexact",
                format!("public input x={} scale={}: got {} (as unsigned), want exactly {}", v, scale, out, want),
            ))
        };
    }
    if scale.is_power_of_two() {
        let d = diff_mod(out, q_floor, st);
        return match d {
            0 => Ok(Ev::Exact),
            1 => Ok(Ev::Plus1),
            _ => Err((
                "pow2-out-of-band",
                format!(
                    "x={} k={}: out={} (signed view {}), floor(x/2^k)={}, out-floor mod 2^w = {:#x} not in {{0,1}}",
                    v,
                    scale.trailing_zeros(),
                    out,
                    to_signed(out, st),
                    q_floor,
                    d
                ),
            )),
        };
    }
    // general protocol (signed types only)
    let d = diff_mod(out, q_zero, st);
    if d == 0 {
        return Ok(Ev::Exact);
    }
    if d == 1 {
        return Ok(Ev::Plus1);
    }
    if d == m {
        return Ok(Ev::Minus1);
    }
    let mo = modulus_over(scale, st);
    for e in [-2i128, -1, 0, 1] {
        if d == (mo.wrapping_add(e as u128)) & m {
            return Ok(Ev::Wrap);
        }
    }
    for e in [-1i128, 0, 1, 2] {
        if d == (mo.wrapping_neg().wrapping_add(e as u128)) & m {
            return Ok(Ev::Wrap);
        }
    }
    Err((
        "general-out-of-band",
        format!(
            "x={} scale={}: out={} (signed view {}), trunc0(x/scale)={}, out-q mod 2^w = {:#x} is neither in {{-1,0,1}} nor the documented wrap +-floor(M/scale)={} (+-2)",
            v,
            scale,
            out,
            to_signed(out, st),
            q_zero,
            d,
            mo
        ),
    ))
}

/// boundary classes of one in-range element (labels and the non-trivial rule)
fn boundary_classes(v: i128, st: ScalarType, scale: u128) -> Vec<&'static str> {
    let (lo, hi) = range(st);
    let mut out = vec![];
    if v == lo {
        out.push("lo");
    }
    if v == lo + 1 {
        out.push("lo+1");
    }
    if v == hi {
        out.push("hi");
    }
    if v == hi - 1 {
        out.push("hi-1");
    }
    if v == 0 {
        out.push("zero");
    }
    if v == 1 {
        out.push("one");
    }
    if v == -1 {
        out.push("minus-one");
    }
    if scale <= i128::MAX as u128 {
        let s = scale as i128;
        let r = v.rem_euclid(s);
        if r == 0 && v != 0 {
            out.push(if v > 0 { "pos-multiple" } else { "neg-multiple" });
        }
        if r == 1 && v != 1 {
            out.push("multiple+1");
        }
        if r == s - 1 && v != -1 {
            out.push("multiple-1");
        }
        if v.unsigned_abs() >= scale && (hi - v < s || v - lo < s) {
            out.push("last-multiple-zone");
        }
    }
    out
}

// ------------------------------------------------------------------------------------------------
// generators

fn clamp(v: i128, st: ScalarType) -> i128 {
    let (lo, hi) = range(st);
    v.max(lo).min(hi)
}

/// the fixed boundary values of (st, scale), all inside the documented range
pub fn boundary_values(st: ScalarType, scale: u128) -> Vec<i128> {
    let (lo, hi) = range(st);
    let mut c: Vec<i128> = vec![lo, lo + 1, lo + 2, hi, hi - 1, hi - 2, 0, 1, 2, hi / 2, hi / 2 + 1];
    if is_signed(st) {
        c.extend([-1, -2, lo / 2, lo / 2 - 1]);
    }
    if scale <= i128::MAX as u128 {
        let s = scale as i128;
        for mult in [1i128, 2, 3] {
            if let Some(b) = s.checked_mul(mult) {
                for off in [-1i128, 0, 1] {
                    if let Some(x) = b.checked_add(off) {
                        c.push(x);
                        c.push(-x);
                    }
                }
            }
        }
        // largest multiple <= hi and smallest multiple >= lo, with neighbours
        let top = hi.div_euclid(s) * s;
        let bot = -((-lo).div_euclid(s) * s);
        for b in [top, bot, top - s, bot.saturating_add(s)] {
            for off in [-1i128, 0, 1] {
                c.push(b.saturating_add(off));
            }
        }
    }
    let mut out: Vec<i128> = c.into_iter().filter(|x| *x >= lo && *x <= hi).collect();
    out.sort();
    out.dedup();
    out
}

fn uniform_in_range(raw: u128, st: ScalarType) -> i128 {
    let (lo, _) = range(st);
    // the range has exactly 2^(w-1) values for both signed and unsigned types
    let span_mask = mask_bits(bits(st) - 1);
    lo + (raw & span_mask) as i128
}

fn arb_x(st: ScalarType, scale: u128) -> BoxedStrategy<u128> {
    let bv = boundary_values(st, scale);
    let w = bits(st);
    let signed = is_signed(st);
    prop_oneof![
        5 => proptest::sample::select(bv),
        // multiples of the scale +-1 anywhere in the range
        4 => (any::<u128>(), -1i128..=1).prop_map(move |(raw, off)| {
            let u = uniform_in_range(raw, st);
            if scale > i128::MAX as u128 {
                return u;
            }
            let s = scale as i128;
            clamp((u.div_euclid(s)).saturating_mul(s).saturating_add(off), st)
        }),
        // small multiples
        2 => (-40i128..=40, -1i128..=1).prop_map(move |(mult, off)| {
            if scale > i128::MAX as u128 {
                return clamp(mult, st);
            }
            let mult = if signed { mult } else { mult.abs() };
            clamp((scale as i128).saturating_mul(mult).saturating_add(off), st)
        }),
        // small magnitudes
        2 => (-300i128..=300).prop_map(move |v| clamp(if signed { v } else { v.abs() }, st)),
        // 2^j +- 1, both signs
        2 => (0..w - 1, -1i128..=1, any::<bool>()).prop_map(move |(j, off, neg)| {
            let p = (1i128 << j.min(126)) + off;
            clamp(if neg && signed { -p } else { p }, st)
        }),
        5 => any::<u128>().prop_map(move |raw| uniform_in_range(raw, st)),
    ]
    .prop_map(move |v| reduce(v, st))
    .boxed()
}

fn arb_shape_c05() -> BoxedStrategy<Vec<u64>> {
    prop_oneof![
        4 => Just(vec![16u64]),
        2 => Just(vec![4u64, 4]),
        1 => Just(vec![2u64, 2, 4]),
        1 => Just(vec![16u64, 1]),
        3 => (1u64..=24).prop_map(|n| vec![n]),
        2 => (1u64..=5, 1u64..=5).prop_map(|(a, b)| vec![a, b]),
        1 => Just(vec![]),
    ]
    .boxed()
}

fn arb_outs() -> BoxedStrategy<Vec<u8>> {
    proptest::sample::subsequence(vec![0u8, 1, 2], 0..=3).prop_shuffle().boxed()
}

fn arb_owner() -> BoxedStrategy<u8> {
    prop_oneof![2 => Just(0u8), 2 => Just(1u8), 2 => Just(2u8), 4 => Just(4u8), 1 => Just(3u8)].boxed()
}

fn arb_k(w: u32) -> BoxedStrategy<u32> {
    prop_oneof![
        6 => 1..=w - 2,
        1 => Just(1u32),
        1 => Just(w - 2),
        1 => Just(w - 3),
        1 => Just(w / 2),
    ]
    .boxed()
}

fn arb_general_scale(st: ScalarType) -> BoxedStrategy<u128> {
    let w = bits(st);
    let top = 1u128 << (w - 1); // scales stay below 2^(w-1) (positive in the signed type) ...
    prop_oneof![
        5 => proptest::sample::select(vec![3u128, 5, 6, 7, 9, 10, 11, 12, 13, 15, 24, 100, 1000, 1_000_000]),
        3 => (2..=w - 2, any::<bool>()).prop_map(|(j, plus)| if plus { (1u128 << j) + 1 } else { (1u128 << j) - 1 }),
        2 => (0..=w - 4, proptest::sample::select(vec![3u128, 5, 7])).prop_map(|(j, f)| f << j),
        3 => (any::<u128>(), 2..=w - 2).prop_map(|(raw, b)| (raw & mask_bits(b)) | 1 | (1u128 << (b - 1))),
        1 => (1u128..=8).prop_map(move |d| top - d),
    ]
    // ... except the small constants on narrow types (1000 on INT8): quotient 0, still documented
    .prop_map(|s| if s.is_power_of_two() || s < 3 { 3 } else { s })
    .boxed()
}

#[allow(clippy::too_many_arguments)]
fn arb_case_for(st: BoxedStrategy<ScalarType>, pow2: bool, owner: BoxedStrategy<u8>) -> BoxedStrategy<Case> {
    st.prop_flat_map(move |st| {
        let scale: BoxedStrategy<u128> = if pow2 { arb_k(bits(st)).prop_map(|k| 1u128 << k).boxed() } else { arb_general_scale(st) };
        (Just(st), scale, arb_shape_c05())
    })
    .prop_flat_map(move |(st, scale, shape)| {
        let n = num_elems(&shape);
        (
            Just(st),
            Just(scale),
            Just(shape),
            proptest::collection::vec(arb_x(st, scale), n),
            owner.clone(),
            arb_outs(),
            0u8..3,
            any::<[u8; 16]>(),
            proptest::collection::vec(any::<[u8; 16]>(), 3),
            any::<[[u8; 16]; 3]>(),
            any::<(u64, u64)>(),
        )
    })
    .prop_map(|(st, scale, shape, xs, owner, outs, mode, compile_seed, seeds, seeds3, (share_seed, junk_seed))| Case {
        st,
        scale,
        shape,
        xs,
        owner,
        outs,
        mode,
        compile_seed,
        seeds,
        seeds3,
        share_seed,
        junk_seed,
    })
    .boxed()
}

pub fn arb_pow2_case() -> BoxedStrategy<Case> {
    arb_case_for(proptest::sample::select(int_types()).boxed(), true, arb_owner())
}

pub fn arb_general_case() -> BoxedStrategy<Case> {
    prop_oneof![
        12 => arb_case_for(proptest::sample::select(signed_types()).boxed(), false, arb_owner()),
        // unsigned general scale: private = documented rejection (counted), public = exact
        1 => arb_case_for(
            proptest::sample::select(int_types().into_iter().filter(|s| !is_signed(*s)).collect::<Vec<_>>()).boxed(),
            false,
            prop_oneof![Just(3u8), Just(0u8), Just(4u8)].boxed()
        ),
    ]
    .boxed()
}

// ------------------------------------------------------------------------------------------------
// oracle

fn input_type(c: &Case) -> Type {
    if c.shape.is_empty() {
        scalar_type(c.st)
    } else {
        array_type(c.shape.clone(), c.st)
    }
}

fn build_source(c: &Case) -> Result<Context, String> {
    let t = input_type(c);
    let scale = c.scale;
    match crate::util::catch(move || -> ciphercore_base::errors::Result<Context> {
        let ctx = create_context()?;
        let g = ctx.create_graph()?;
        let i = g.input(t)?;
        let o = g.truncate(i, scale)?;
        o.set_as_output()?;
        g.finalize()?;
        ctx.set_main_graph(g)?;
        ctx.finalize()?;
        Ok(ctx)
    }) {
        Ok(Ok(c)) => Ok(c),
        Ok(Err(e)) => Err(format!("{}", e)),
        Err(p) => Err(format!("PANIC {}", p)),
    }
}

fn k_bucket(k: u32, w: u32) -> &'static str {
    if k == 1 {
        "1"
    } else if k == w - 2 {
        "w-2"
    } else if k == w - 3 {
        "w-3"
    } else if k < w / 2 {
        "2..w/2"
    } else {
        "w/2..w-4"
    }
}

fn scale_class(scale: u128, st: ScalarType) -> String {
    let w = bits(st);
    if scale.is_power_of_two() {
        return format!("k:{}", k_bucket(scale.trailing_zeros(), w));
    }
    let m = if w == 128 { u128::MAX } else { (1u128 << w) - 1 };
    let c = if scale > m {
        ">=M"
    } else if scale >= 1u128 << (w - 2) {
        "M/4..M/2"
    } else if (scale + 1).is_power_of_two() || (scale - 1).is_power_of_two() {
        "2^j+-1"
    } else if scale < 16 {
        "small<16"
    } else if scale < 1u128 << (w / 2) {
        "16..sqrtM"
    } else {
        "sqrtM..M/4"
    };
    format!("scale:{}", c)
}

struct Tally {
    exact: u64,
    plus1: u64,
    minus1: u64,
    wrap: u64,
    w1_on_multiple: u64,
}

impl Tally {
    fn add(&mut self, e: Ev, v: i128, scale: u128) {
        match e {
            Ev::Exact => self.exact += 1,
            Ev::Plus1 => {
                self.plus1 += 1;
                if scale <= i128::MAX as u128 && v.rem_euclid(scale as i128) == 0 {
                    self.w1_on_multiple += 1;
                }
            }
            Ev::Minus1 => self.minus1 += 1,
            Ev::Wrap => self.wrap += 1,
        }
    }
}

fn judge_all(c: &Case, private: bool, out: &HVal, tally: &mut Tally, whom: &str) -> Result<(), Outcome> {
    let ys = match out {
        HVal::A(ys) => ys,
        _ => return Err(Outcome::fail("output-shape", format!("{}: output is not a leaf", whom))),
    };
    if ys.len() != c.xs.len() {
        return Err(Outcome::fail("output-shape", format!("{}: {} output elements for {} inputs", whom, ys.len(), c.xs.len())));
    }
    for (i, (x, y)) in c.xs.iter().zip(ys.iter()).enumerate() {
        match judge(c.st, c.scale, private, *x, *y) {
            Ok(e) => tally.add(e, value_in_domain(*x, c.st).unwrap(), c.scale),
            Err((sig, msg)) => {
                return Err(Outcome::fail(
                    sig,
                    format!("{} [{} owner={} outs={:?} mode={}] element {}: {}", whom, c.st, c.owner, c.outs, c.mode % 3, i, msg),
                ))
            }
        }
    }
    Ok(())
}

pub fn oracle(c: &Case) -> Outcome {
    // ---- domain (the generators construct it; replayed / hand-edited cases are re-validated)
    let w = bits(c.st);
    if w == 1 || c.scale < 2 || c.owner > 4 || c.outs.iter().any(|p| *p > 2) || c.seeds.is_empty() {
        return Outcome::skip("out-of-domain");
    }
    let mut o2 = c.outs.clone();
    o2.sort();
    o2.dedup();
    if o2.len() != c.outs.len() || c.xs.len() != num_elems(&c.shape) || c.xs.is_empty() {
        return Outcome::skip("out-of-domain");
    }
    let pow2 = c.scale.is_power_of_two();
    if pow2 {
        let k = c.scale.trailing_zeros();
        if k < 1 || k > w - 2 {
            return Outcome::skip("out-of-domain");
        }
    } else if c.scale < 3 || (is_signed(c.st) && c.scale > i128::MAX as u128) {
        return Outcome::skip("out-of-domain");
    }
    let vals: Vec<i128> = match c.xs.iter().map(|x| value_in_domain(*x, c.st)).collect::<Option<Vec<_>>>() {
        Some(v) => v,
        None => return Outcome::skip("out-of-domain"),
    };
    let private = c.owner != 3;

    let t = input_type(c);
    let ctx = match build_source(c) {
        Ok(x) => x,
        Err(e) => return Outcome::fail("source-graph", format!("cannot build Truncate({}) on {}: {}", c.scale, t, e)),
    };
    let xin = HVal::A(c.xs.clone());

    // ---- labels
    let mut labels: Vec<String> = vec![
        format!("st:{}", c.st),
        format!("{}:{}", if pow2 { "pow2" } else { "general" }, if is_signed(c.st) { "signed" } else { "unsigned" }),
        scale_class(c.scale, c.st),
        format!(
            "owner:{}",
            match c.owner {
                0..=2 => "party",
                3 => "public",
                _ => "shared",
            }
        ),
        format!("outs:{:?}", c.outs),
        format!("mode:{}", mode_name(c.mode)),
        format!("rank:{}", c.shape.len()),
    ];
    if pow2 {
        labels.push(format!("width-k:{}:{}", w, k_bucket(c.scale.trailing_zeros(), w)));
    }
    let mut classes: Vec<&'static str> = vals.iter().flat_map(|v| boundary_classes(*v, c.st, c.scale)).collect();
    classes.sort();
    classes.dedup();
    let has_boundary = !classes.is_empty();
    for cl in &classes {
        labels.push(format!("boundary:{}", cl));
    }
    if vals.iter().any(|v| *v < 0) {
        labels.push("has-negative".to_string());
    }

    // ---- plaintext evaluator vs the harness quotient (the "plaintext quotient" of the statement)
    match eval_plain(&ctx, vec![encode(&xin, &t)], c.seeds[0]) {
        Ok(Ok(v)) => match decode(&v, &t) {
            Ok(h) => {
                let mut tl = Tally { exact: 0, plus1: 0, minus1: 0, wrap: 0, w1_on_multiple: 0 };
                if let Err(mut o) = judge_all(c, false, &h, &mut tl, "plaintext evaluator") {
                    o.sig = "plain-reference".to_string();
                    return o;
                }
            }
            Err(e) => return Outcome::fail("plain-reference", format!("plaintext result is not of type {}: {}", t, e)),
        },
        Ok(Err(e)) => return Outcome::fail("plain-reference", format!("plaintext Truncate failed: {}", e)),
        Err(p) => return Outcome::fail("plain-reference", format!("plaintext Truncate panicked: {}", p)),
    }

    // ---- compile
    let cfg = MpcCfg { owners: vec![c.owner], outs: c.outs.clone(), mode: c.mode, compile_seed: c.compile_seed };
    let compiled = match compile(&ctx, 1, &cfg) {
        Compiled::Ok(m) => m.get_context(),
        Compiled::Rejected(e) => {
            let cls = if e.contains("Only signed types") { "unsigned-general".to_string() } else { e.chars().take(60).collect::<String>() };
            let mut o = Outcome::skip("compiler-rejected").label(format!("rejected:{}", cls)).label(format!("rejected-st:{}", c.st));
            if pow2 || is_signed(c.st) {
                o = o.label(format!("rejected-in-primary-domain:{}:{}", c.st, if pow2 { "pow2" } else { "general" }));
            }
            return o;
        }
        Compiled::Panicked(p) => {
            return Outcome::skip("compiler-panic").label(format!("compiler-panic:{}:{}", c.st, p.chars().take(80).collect::<String>()))
        }
    };
    let main = match compiled.get_main_graph() {
        Ok(g) => g,
        Err(e) => return Outcome::fail("compiled-context", format!("no main graph: {}", e)),
    };
    let n_sends: usize = main.get_nodes().iter().map(|n| sends_of(n).len()).sum();
    labels.push(format!("compiled-nodes:{}", crate::c01::bucket(main.get_nodes().len())));
    labels.push(format!("sends:{}", n_sends.min(12)));

    let t3 = tuple_type(vec![t.clone(); 3]);
    let mut tally = Tally { exact: 0, plus1: 0, minus1: 0, wrap: 0, w1_on_multiple: 0 };

    // ---- (a) one global evaluator, several tapes
    let inputs = global_inputs(&[t.clone()], &[xin.clone()], &cfg, c.share_seed);
    for (k, seed) in c.seeds.iter().enumerate() {
        let v = match eval_compiled(&main, inputs.clone(), *seed) {
            Ok(Ok(v)) => v,
            Ok(Err(e)) => return Outcome::fail("compiled-eval-error", format!("compiled Truncate({}) on {} failed (tape #{}): {}", c.scale, t, k, e)),
            Err(pm) => return Outcome::fail("compiled-eval-panic", format!("compiled Truncate({}) on {} panicked (tape #{}): {}", c.scale, t, k, pm)),
        };
        let out = if c.outs.is_empty() {
            match decode(&v, &t3) {
                Ok(HVal::V(sh)) => add(&add(&sh[0], &sh[1], &t), &sh[2], &t),
                Ok(_) => unreachable!(),
                Err(e) => return Outcome::fail("shared-output-type", format!("shared output is not a 3-tuple of {}: {}", t, e)),
            }
        } else {
            match decode(&v, &t) {
                Ok(h) => h,
                Err(e) => return Outcome::fail("revealed-output-type", format!("revealed output is not of type {}: {}", t, e)),
            }
        };
        if let Err(o) = judge_all(c, private, &out, &mut tally, &format!("global evaluator tape #{}", k)) {
            return o;
        }
    }

    // ---- (b) three parties, own tapes, junk for what a party does not own; two rounds
    for round in 0..2u64 {
        let pin = party_inputs(&[t.clone()], &[xin.clone()], &cfg, c.share_seed ^ round, c.junk_seed ^ (round * 0x5555_AAAA_1234));
        let mut seeds = c.seeds3;
        for s in seeds.iter_mut() {
            s[0] ^= round as u8 * 0x5A;
        }
        let r = match run3(&main, [&pin[0], &pin[1], &pin[2]], seeds) {
            Ok(r) => r,
            Err(e) => return Outcome::fail("run3-setup", e),
        };
        if c.outs.is_empty() {
            let mut slots: Vec<Vec<HVal>> = vec![];
            for q in 0..3 {
                match &r.out[q] {
                    Some(v) => match decode(v, &t3) {
                        Ok(HVal::V(sh)) => slots.push(sh),
                        _ => return Outcome::fail("p3-shared-type", format!("party {} output is not a 3-tuple of {}", q, t)),
                    },
                    None => return Outcome::fail("p3-underivable", format!("party {} cannot derive its shared output: {:?}", q, r.first_failure[q])),
                }
            }
            // party i holds slots i and i+1; reconstruct from each party's own slot i ...
            let sum = add(&add(&slots[0][0], &slots[1][1], &t), &slots[2][2], &t);
            if let Err(o) = judge_all(c, private, &sum, &mut tally, &format!("three-party round {} (reconstructed P0.s0+P1.s1+P2.s2)", round)) {
                return o;
            }
            // ... and from the other slot each party holds
            let sum2 = add(&add(&slots[2][0], &slots[0][1], &t), &slots[1][2], &t);
            if let Err(o) = judge_all(c, private, &sum2, &mut tally, &format!("three-party round {} (reconstructed P2.s0+P0.s1+P1.s2)", round)) {
                return o;
            }
        } else {
            let listed: Vec<usize> = if !private { vec![0, 1, 2] } else { c.outs.iter().map(|x| *x as usize).collect() };
            for q in listed {
                match &r.out[q] {
                    Some(v) => match decode(v, &t) {
                        Ok(h) => {
                            if let Err(o) = judge_all(c, private, &h, &mut tally, &format!("three-party round {} output party {}", round, q)) {
                                return o;
                            }
                        }
                        Err(e) => return Outcome::fail("p3-output-type", format!("round {} party {}: output not of type {}: {}", round, q, t, e)),
                    },
                    None => {
                        return Outcome::fail(
                            "p3-underivable",
                            format!("round {} output party {} cannot derive the result: {:?}", round, q, r.first_failure[q]),
                        )
                    }
                }
            }
        }
    }

    if tally.exact > 0 {
        labels.push("saw:exact".into());
    }
    if tally.plus1 > 0 {
        labels.push("saw:+1".into());
    }
    if tally.minus1 > 0 {
        labels.push("saw:-1".into());
    }
    if tally.wrap > 0 {
        labels.push("saw:documented-wrap".into());
        labels.push(format!("documented-wrap:{}", c.st));
        // informational: the documentation calls the event negligible for |x| < 2^l with l << w
        let small = vals.iter().all(|v| v.unsigned_abs() < 1u128 << (w / 4));
        if small && w >= 64 {
            labels.push("documented-wrap-on-small-inputs-of-wide-type".into());
        }
    }
    if tally.w1_on_multiple > 0 && private {
        // documented probability of w=1 is (x mod 2^k)/2^k = 0 here; the property statement allows it
        labels.push(format!("info:+1-on-exact-multiple:{}", if pow2 { "pow2" } else { "general" }));
    }
    let nt = private && c.scale >= 2 && has_boundary && n_sends > 0;
    Outcome::pass(nt).labels(labels)
}

// ------------------------------------------------------------------------------------------------
// grid: every (type, k) pair (and a fixed scale list for the general protocol) on the boundary vector

fn seed16(s: &mut u64) -> [u8; 16] {
    let mut out = [0u8; 16];
    out[..8].copy_from_slice(&splitmix(s).to_le_bytes());
    out[8..].copy_from_slice(&splitmix(s).to_le_bytes());
    out
}

const OUT_PATTERNS: [&[u8]; 16] = [
    &[],
    &[0],
    &[1],
    &[2],
    &[0, 1],
    &[1, 0],
    &[0, 2],
    &[2, 0],
    &[1, 2],
    &[2, 1],
    &[0, 1, 2],
    &[0, 2, 1],
    &[1, 0, 2],
    &[1, 2, 0],
    &[2, 0, 1],
    &[2, 1, 0],
];

/// cases for one (type, scale, owner): the complete boundary vector plus a uniform in-range fill,
/// cut into chunks of at most 2048 bits (the evaluator gets an order of magnitude slower on larger
/// arrays; the cap is a cost bound only)
fn grid_cases(st: ScalarType, scale: u128, owner: u8, idx: u64, salt: u64) -> Vec<Case> {
    let mut s = salt ^ idx.wrapping_mul(0x2545_F491_4F6C_DD1D);
    let mut vs = boundary_values(st, scale);
    for _ in 0..6 {
        let raw = ((splitmix(&mut s) as u128) << 64) | splitmix(&mut s) as u128;
        vs.push(uniform_in_range(raw, st));
    }
    let chunk = (2048 / bits(st) as usize).max(8);
    vs.chunks(chunk)
        .map(|part| {
            let xs: Vec<u128> = part.iter().map(|v| reduce(*v, st)).collect();
            Case {
                st,
                scale,
                shape: vec![xs.len() as u64],
                xs,
                owner,
                outs: OUT_PATTERNS[(splitmix(&mut s) % 16) as usize].to_vec(),
                mode: (splitmix(&mut s) % 3) as u8,
                compile_seed: seed16(&mut s),
                seeds: vec![seed16(&mut s), seed16(&mut s), seed16(&mut s)],
                seeds3: [seed16(&mut s), seed16(&mut s), seed16(&mut s)],
                share_seed: splitmix(&mut s),
                junk_seed: splitmix(&mut s),
            }
        })
        .collect()
}

pub fn grid_items(salt: u64, reps: u64) -> Vec<Case> {
    let mut items = vec![];
    let mut idx = 0u64;
    for rep in 0..reps {
        for st in int_types() {
            let w = bits(st);
            for k in 1..=w - 2 {
                // owner classes: one party (rotating) and shared
                for owner in [((k as u64 + rep) % 3) as u8, 4u8] {
                    items.extend(grid_cases(st, 1u128 << k, owner, idx, salt));
                    idx += 1;
                }
            }
        }
        for st in signed_types() {
            let w = bits(st);
            let mut scales: Vec<u128> = vec![3, 5, 6, 7, 10, 12, 100, 1000];
            for j in [2, 3, w / 2, w - 3, w - 2] {
                scales.push((1u128 << j) - 1);
                scales.push((1u128 << j) + 1);
            }
            scales.sort();
            scales.dedup();
            for (i, sc) in scales.into_iter().enumerate() {
                for owner in [((i as u64 + rep) % 3) as u8, 4u8] {
                    items.extend(grid_cases(st, sc, owner, idx, salt));
                    idx += 1;
                }
            }
        }
    }
    items
}

// ------------------------------------------------------------------------------------------------

pub fn run(env: &Env) {
    env.assume("documented domain (mpc_truncate.rs:137-138): signed inputs in [-M/4, M/4), unsigned in [0, M/2); k in 1..w-2; nothing outside is generated");
    env.assume("TruncateMPC2K is documented to return floor(x/2^k)+w, w in {0,1} (mathematical floor for negative x), while plaintext Truncate rounds toward zero: the compiled pow2 result is compared with the floor, never with the plaintext evaluator");
    env.assume("TruncateMPC (general scale, signed): error 1 (one unit in the last place, either sign) or the documented MSB wrap error 2^w/scale; the wrap is recognised by its value (+floor(M/scale)+{-2..1} or -floor(M/scale)+{-1..2}, the exact reach of share-wise truncation toward zero) and counted, its probability is not bounded");
    env.assume("compile_context Err = rejection (unsigned general scale on private data: 'Only signed types are supported'), counted; compile_context panic counted as skip, not judged by C05");
    env.assume("shared output in three-party execution is judged on the reconstructed value only (slot consistency is C02's subject)");
    env.set_shrink_iters(600);
    env.campaign("pow2", RULE, env.n(30_000, 800_000), arb_pow2_case, oracle);
    env.campaign("general", RULE, env.n(15_000, 400_000), arb_general_case, oracle);
    let salt = u64::from_le_bytes(mix_seed(env.seed, "C05/grid", 0)[..8].try_into().unwrap());
    let reps = ((env.pick(2u64, 60) as f64) * env.scale).ceil().max(1.0) as u64;
    env.enumerate_opt(
        "grid",
        "every (integer scalar type, k in 1..w-2) pair [476 pairs] and signed types x fixed non-power-of-two scales, each with owner = one party and owner = shared, on the complete boundary vector of (type, scale) plus uniform in-range fill; (type,k) space enumerated completely, inputs/tapes/output patterns sampled",
        grid_items(salt, reps),
        true,
        oracle,
    );
    env.note("caps", serde_json::json!({"array_elements": "1..25 (campaigns), boundary vector 20-50 (grid)", "global_tapes_per_case": 3, "three_party_rounds_per_case": 2}));
}

pub fn replay(_check: &str, case: J) -> Outcome {
    replay_with::<Case, _>(case, oracle)
}
