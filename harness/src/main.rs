use vh::core::{Env, Outcome, Verdict};

type RunFn = fn(&Env);
type ReplayFn = fn(&str, serde_json::Value) -> Outcome;

fn table() -> Vec<(&'static str, RunFn, ReplayFn, &'static str)> {
    vec![
        ("C01", vh::c01::run_c01, vh::c01::replay_c01, vh::c01::RULE_C01),
        ("C02", vh::c01::run_c02, vh::c01::replay_c02, vh::c01::RULE_C02),
        ("C03", vh::c03::run, vh::c03::replay, vh::c03::RULE),
        ("C04", vh::c04::run, vh::c04::replay, vh::c04::RULE),
        ("C05", vh::c05::run, vh::c05::replay, vh::c05::RULE),
        ("C06", vh::c06::run, vh::c06::replay, vh::c06::RULE),
        ("C07", vh::c07::run, vh::c07::replay, vh::c07::RULE),
        ("C08", vh::c08::run, vh::c08::replay, vh::c08::RULE),
        ("C09", vh::c09::run, vh::c09::replay, vh::c09::RULE),
        ("C10", vh::c10::run, vh::c10::replay, vh::c10::RULE),
        ("C11", vh::c11::run, vh::c11::replay, vh::c11::RULE),
        ("C12", vh::c12::run, vh::c12::replay, vh::c12::RULE),
        ("C13", vh::c13::run, vh::c13::replay, vh::c13::RULE),
        ("C14", vh::c14::run, vh::c14::replay, vh::c14::RULE),
        ("C15", vh::c15::run, vh::c15::replay, vh::c15::RULE),
        ("C16", vh::c16::run, vh::c16::replay, vh::c16::RULE),
        ("C17", vh::c17::run, vh::c17::replay, vh::c17::RULE),
        ("C18", vh::c18::run, vh::c18::replay, vh::c18::RULE),
        ("C19", vh::c19::run, vh::c19::replay, vh::c19::RULE),
        ("C20", vh::c20::run, vh::c20::replay, vh::c20::RULE),
    ]
}

fn main() {
    let args: Vec<String> = std::env::args().collect();
    if args.len() < 2 {
        eprintln!("usage: vharness <Cnn> | replay <path> | list");
        std::process::exit(64);
    }
    vh::util::install_panic_hook();
    vh::util::silence_stderr();
    std::env::set_var("RUST_BACKTRACE", "0");
    std::env::set_var("RUST_LIB_BACKTRACE", "0");
    let tbl = table();
    match args[1].as_str() {
        "list" => {
            for (id, _, _, _) in &tbl {
                println!("{}", id);
            }
        }
        "corpus" => {
            let dir = args.get(3).expect("corpus <target> <dir>");
            let seed = std::env::var("VERIF_SEED").ok().and_then(|s| s.trim().parse::<i128>().ok()).map(|v| v as u64).unwrap_or(0);
            match args.get(2).map(|s| s.as_str()) {
                Some("ctx_deser") => println!("wrote {} corpus files", vh::corpus::write_ctx_corpus(dir, 60, seed)),
                _ => println!("no seed corpus for this target"),
            }
        }
        "replay" => {
            let path = args.get(2).expect("replay needs a path");
            let (prop, check, case) = vh::core::load_replay(path);
            let entry = tbl.iter().find(|e| e.0 == prop).expect("unknown property in replay file");
            // pinned cases carry the campaign name after "pinned:"
            let check = check.trim_start_matches("pinned:").to_string();
            let out = (entry.2)(&check, case);
            match out.verdict {
                Verdict::Fail => {
                    println!("VIOLATION property={} replay={}", prop, path);
                    println!("  check={} signature={} message={}", check, out.sig, out.msg);
                    std::process::exit(1);
                }
                _ => {
                    println!("replay: case passes ({:?}) labels={:?}", out.verdict, out.labels);
                    std::process::exit(0);
                }
            }
        }
        id => {
            let id = id.to_uppercase();
            let entry = match tbl.iter().find(|e| e.0 == id) {
                Some(e) => e,
                None => {
                    eprintln!("unknown property {}", id);
                    std::process::exit(64);
                }
            };
            let env = Env::new(&id);
            let cap = std::env::var("VH_MAX_SECS")
                .ok()
                .and_then(|s| s.parse().ok())
                .unwrap_or(if env.tier == vh::core::Tier::Quick { 3000 } else { 12 * 3600 });
            vh::util::start_watchdog(cap);
            (entry.1)(&env);
            std::process::exit(env.finish(entry.3));
        }
    }
}
