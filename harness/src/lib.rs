pub mod core;
pub mod gen;
pub mod graphgen;
pub mod hv;
pub mod mpcx;
pub mod util;
pub mod walk;

pub mod c01;
pub mod c03;
pub mod c04;
pub mod c13;
pub mod c15;
