pub mod core;
pub mod gen;
pub mod hv;
pub mod util;

pub mod c13;
