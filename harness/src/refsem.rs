//! refsem — reference interpreter for the *documented* semantics of ciphercore's primitive
//! operations (DESIGN §2.3).
//!
//! Written from the doc comments of the `Graph` methods in `ciphercore-base/src/graphs.rs` and the
//! NumPy / ONNX / CPython pages they cite (broadcasting, dot, matmul, Gemm, sum, cumsum, transpose,
//! basic indexing, take, concatenate) — NOT from `evaluators/simple_evaluator.rs`.
//!
//! Data model: a leaf is `(Type::Scalar|Type::Array, HVal::A(elements))` with every element reduced
//! modulo 2^w and stored row-major; containers are `HVal::V(children)`. Every operation is a plain
//! loop over multi-indices of the *result*, reading operands through `Tensor::at(multi-index)`.
//!
//! `eval_op` returns `Err(reason)` when the documentation does not cover / decide the case (the
//! caller skips such cases); it never guesses. Conventions that are not in the `Graph` docs but are
//! claimed elsewhere in the repository are cited where they are used:
//!  * bit order of A2B/B2A: index 0 of the bit dimension is the least significant bit
//!    (ops/comparisons.rs docs: the example table "bits 0..4 of 15 = 1 1 1 1 0", and `flip_msb`:
//!    "the input Array's last component, which correspond to MSB bit");
//!  * signed numbers are two's complement residues ("If x < modulus / 2, then it is treated as x,
//!    otherwise, as x - modulus", the comment on plaintext Truncate) and plaintext truncation of a
//!    negative number rounds toward zero (DESIGN C10 domain / C05 oracle);
//!  * "permutation maps can be performed by Gather" (doc of `Graph::inverse_permutation`): applying
//!    a permutation `p` to `a` is `out[i] = a[p[i]]`; the inverse variant applies the permutation
//!    `q` with `q[i] = j if p[j] = i` (doc of `inverse_permutation`) the same way.
use crate::hv::*;
use ciphercore_base::data_types::{
    array_type, named_tuple_type, scalar_type, tuple_type, vector_type, ScalarType, Type,
};
use ciphercore_base::graphs::{Operation, SliceElement};

pub type R<T> = Result<T, String>;

fn err<T>(s: &str) -> R<T> {
    Err(s.to_string())
}

// -------------------------------------------------------------------------------------------------
// tensors

#[derive(Clone, Debug, PartialEq, Eq)]
pub struct Tensor {
    /// empty shape = scalar
    pub shape: Vec<u64>,
    pub st: ScalarType,
    pub data: Vec<u128>,
}

/// all multi-indices of `shape` in row-major order (last index fastest); one empty index for `[]`
pub fn all_indices(shape: &[u64]) -> Vec<Vec<u64>> {
    let mut out = vec![];
    if shape.iter().any(|d| *d == 0) {
        return out;
    }
    let mut cur = vec![0u64; shape.len()];
    loop {
        out.push(cur.clone());
        // odometer
        let mut k = shape.len();
        loop {
            if k == 0 {
                return out;
            }
            k -= 1;
            cur[k] += 1;
            if cur[k] < shape[k] {
                break;
            }
            cur[k] = 0;
        }
    }
}

impl Tensor {
    pub fn from_typed(t: &Type, v: &HVal) -> R<Tensor> {
        let (shape, st) = match t {
            Type::Scalar(st) => (vec![], *st),
            Type::Array(s, st) => (s.clone(), *st),
            _ => return err("operand is not a scalar or array"),
        };
        let data = match v {
            HVal::A(x) => x.clone(),
            _ => return err("operand value is not a leaf"),
        };
        if data.len() != num_elems(&shape) {
            return err("operand value has the wrong number of elements");
        }
        if data.iter().any(|x| *x & !mask(st) != 0) {
            return err("operand value is not reduced");
        }
        Ok(Tensor { shape, st, data })
    }
    pub fn rank(&self) -> usize {
        self.shape.len()
    }
    pub fn ty(&self) -> Type {
        if self.shape.is_empty() {
            scalar_type(self.st)
        } else {
            array_type(self.shape.clone(), self.st)
        }
    }
    pub fn into_typed(self) -> (Type, HVal) {
        (self.ty(), HVal::A(self.data))
    }
    /// element at a multi-index (row-major position by Horner's rule)
    pub fn at(&self, idx: &[u64]) -> u128 {
        assert_eq!(idx.len(), self.shape.len(), "rank mismatch in Tensor::at");
        let mut off = 0usize;
        for (i, d) in idx.iter().zip(self.shape.iter()) {
            assert!(i < d, "index out of range in Tensor::at");
            off = off * (*d as usize) + *i as usize;
        }
        self.data[off]
    }
    /// builds a tensor by calling `f` for every multi-index of the result
    pub fn build<F: FnMut(&[u64]) -> R<u128>>(shape: Vec<u64>, st: ScalarType, mut f: F) -> R<Tensor> {
        if shape.iter().any(|d| *d == 0) {
            return err("empty result (a dimension of size 0) is not a ciphercore array");
        }
        let mut data = Vec::with_capacity(num_elems(&shape));
        for idx in all_indices(&shape) {
            data.push(f(&idx)? & mask(st));
        }
        Ok(Tensor { shape, st, data })
    }
}

fn madd(x: u128, y: u128, st: ScalarType) -> u128 {
    x.wrapping_add(y) & mask(st)
}
fn msub(x: u128, y: u128, st: ScalarType) -> u128 {
    x.wrapping_sub(y) & mask(st)
}
fn mmul(x: u128, y: u128, st: ScalarType) -> u128 {
    // 2^w divides 2^128, so reducing the wrapped 128-bit product is exact
    x.wrapping_mul(y) & mask(st)
}

// -------------------------------------------------------------------------------------------------
// NumPy broadcasting (https://numpy.org/doc/stable/user/basics.broadcasting.html): shapes are
// compared from the trailing dimension; two dimensions are compatible when equal or one of them is 1

pub fn broadcast_shapes(a: &[u64], b: &[u64]) -> R<Vec<u64>> {
    let r = a.len().max(b.len());
    let mut out = vec![0u64; r];
    for k in 0..r {
        // k-th dimension counted from the end
        let da = if k < a.len() { a[a.len() - 1 - k] } else { 1 };
        let db = if k < b.len() { b[b.len() - 1 - k] } else { 1 };
        out[r - 1 - k] = if da == db {
            da
        } else if da == 1 {
            db
        } else if db == 1 {
            da
        } else {
            return err("shapes are not broadcastable");
        };
    }
    Ok(out)
}

/// index into an operand of shape `shape` for result index `idx` under broadcasting
fn bidx(idx: &[u64], shape: &[u64]) -> Vec<u64> {
    let skip = idx.len() - shape.len();
    shape
        .iter()
        .enumerate()
        .map(|(k, d)| if *d == 1 { 0 } else { idx[skip + k] })
        .collect()
}

fn elementwise<F: Fn(u128, u128) -> u128>(a: &Tensor, b: &Tensor, st: ScalarType, f: F) -> R<Tensor> {
    let shape = broadcast_shapes(&a.shape, &b.shape)?;
    Tensor::build(shape, st, |idx| Ok(f(a.at(&bidx(idx, &a.shape)), b.at(&bidx(idx, &b.shape)))))
}

fn same_st(a: &Tensor, b: &Tensor) -> R<ScalarType> {
    if a.st != b.st {
        return err("operands have different scalar types");
    }
    Ok(a.st)
}

// -------------------------------------------------------------------------------------------------
// Dot — numpy.dot

fn dot(a: &Tensor, b: &Tensor) -> R<Tensor> {
    let st = same_st(a, b)?;
    // "if one of the factors is scalar, return the result of multiply"
    if a.rank() == 0 || b.rank() == 0 {
        return elementwise(a, b, st, |x, y| mmul(x, y, st));
    }
    let ka = *a.shape.last().unwrap();
    if b.rank() == 1 {
        // 1-D x 1-D inner product; N-D x 1-D: sum product over the last axis of a and b
        if b.shape[0] != ka {
            return err("dot: contracted dimensions differ");
        }
        let shape = a.shape[..a.rank() - 1].to_vec();
        return Tensor::build(shape, st, |idx| {
            let mut s = 0u128;
            for t in 0..ka {
                let mut ia = idx.to_vec();
                ia.push(t);
                s = madd(s, mmul(a.at(&ia), b.at(&[t]), st), st);
            }
            Ok(s)
        });
    }
    // N-D x M-D (M >= 2): sum product over the last axis of a and the second-to-last axis of b:
    // dot(a, b)[i,j,k,m] = sum(a[i,j,:] * b[k,:,m]); 2-D x 2-D is the matrix product
    let kb = b.shape[b.rank() - 2];
    if ka != kb {
        return err("dot: contracted dimensions differ");
    }
    let na = a.rank() - 1;
    let mut shape = a.shape[..na].to_vec();
    shape.extend_from_slice(&b.shape[..b.rank() - 2]);
    shape.push(b.shape[b.rank() - 1]);
    Tensor::build(shape, st, |idx| {
        let (ia0, rest) = idx.split_at(na);
        let (ib0, m) = rest.split_at(rest.len() - 1);
        let mut s = 0u128;
        for t in 0..ka {
            let mut ia = ia0.to_vec();
            ia.push(t);
            let mut ib = ib0.to_vec();
            ib.push(t);
            ib.push(m[0]);
            s = madd(s, mmul(a.at(&ia), b.at(&ib), st), st);
        }
        Ok(s)
    })
}

// -------------------------------------------------------------------------------------------------
// Matmul — numpy.matmul; Gemm — ONNX Gemm with alpha=1, beta=0, C=0 on stacks of matrices

/// stacks of matrices: both operands rank >= 2; batch dimensions broadcast
fn batched_matmul(a: &Tensor, b: &Tensor, ta: bool, tb: bool) -> R<Tensor> {
    let st = same_st(a, b)?;
    if a.rank() < 2 || b.rank() < 2 {
        return err("matrix product needs rank >= 2 operands");
    }
    let (ra, rb) = (a.rank(), b.rank());
    // logical (after optional transposition of the last two axes) matrix shapes
    let (m, ka) = if ta { (a.shape[ra - 1], a.shape[ra - 2]) } else { (a.shape[ra - 2], a.shape[ra - 1]) };
    let (kb, n) = if tb { (b.shape[rb - 1], b.shape[rb - 2]) } else { (b.shape[rb - 2], b.shape[rb - 1]) };
    if ka != kb {
        return err("matrix product: inner dimensions differ");
    }
    let batch_a = a.shape[..ra - 2].to_vec();
    let batch_b = b.shape[..rb - 2].to_vec();
    let batch = broadcast_shapes(&batch_a, &batch_b)?;
    let nb = batch.len();
    let mut shape = batch.clone();
    shape.push(m);
    shape.push(n);
    Tensor::build(shape, st, |idx| {
        let (bi, mn) = idx.split_at(nb);
        let (i, j) = (mn[0], mn[1]);
        let mut s = 0u128;
        for t in 0..ka {
            let mut ia = bidx(bi, &batch_a);
            if ta {
                ia.push(t);
                ia.push(i);
            } else {
                ia.push(i);
                ia.push(t);
            }
            let mut ib = bidx(bi, &batch_b);
            if tb {
                ib.push(j);
                ib.push(t);
            } else {
                ib.push(t);
                ib.push(j);
            }
            s = madd(s, mmul(a.at(&ia), b.at(&ib), st), st);
        }
        Ok(s)
    })
}

fn matmul(a: &Tensor, b: &Tensor) -> R<Tensor> {
    if a.rank() == 0 || b.rank() == 0 {
        return err("matmul does not accept scalars");
    }
    // "If the first argument is 1-D, it is promoted to a matrix by prepending a 1 to its dimensions.
    //  After matrix multiplication the prepended 1 is removed." — and the same with appending for
    //  the second argument.
    let mut a2 = a.clone();
    let mut b2 = b.clone();
    let pa = a.rank() == 1;
    let pb = b.rank() == 1;
    if pa {
        a2.shape = vec![1, a.shape[0]];
    }
    if pb {
        b2.shape = vec![b.shape[0], 1];
    }
    let mut r = batched_matmul(&a2, &b2, false, false)?;
    // result shape is batch + [m, n]; drop the promoted dimensions
    let k = r.shape.len();
    if pb {
        r.shape.remove(k - 1);
    }
    if pa {
        r.shape.remove(k - 2);
    }
    Ok(r)
}

// -------------------------------------------------------------------------------------------------
// Truncate: "divides a scalar or each entry of an array by a positive constant integer scale"

fn truncate(a: &Tensor, scale: u128) -> R<Tensor> {
    if scale == 0 {
        return err("truncate: scale must be positive");
    }
    let st = a.st;
    let w = bits(st);
    Tensor::build(a.shape.clone(), st, |idx| {
        let x = a.at(idx);
        if is_signed(st) && (x >> (w - 1)) & 1 == 1 {
            // negative: magnitude 2^w - x (<= 2^127), quotient rounded toward zero, negated
            let mag = if w == 128 { x.wrapping_neg() } else { (1u128 << w) - x };
            let q = mag / scale;
            Ok(q.wrapping_neg())
        } else {
            Ok(x / scale)
        }
    })
}

// -------------------------------------------------------------------------------------------------
// reductions, axis permutation

fn sum(a: &Tensor, axes: &[u64]) -> R<Tensor> {
    let r = a.rank() as u64;
    if a.rank() == 0 {
        return err("sum of a scalar");
    }
    for (i, x) in axes.iter().enumerate() {
        if *x >= r || axes[..i].contains(x) {
            return err("sum: invalid axes");
        }
    }
    let kept: Vec<usize> = (0..a.rank()).filter(|k| !axes.contains(&(*k as u64))).collect();
    let red: Vec<usize> = (0..a.rank()).filter(|k| axes.contains(&(*k as u64))).collect();
    let shape: Vec<u64> = kept.iter().map(|k| a.shape[*k]).collect();
    let red_shape: Vec<u64> = red.iter().map(|k| a.shape[*k]).collect();
    let st = a.st;
    Tensor::build(shape, st, |idx| {
        let mut s = 0u128;
        for ridx in all_indices(&red_shape) {
            let mut full = vec![0u64; a.rank()];
            for (p, k) in kept.iter().enumerate() {
                full[*k] = idx[p];
            }
            for (p, k) in red.iter().enumerate() {
                full[*k] = ridx[p];
            }
            s = madd(s, a.at(&full), st);
        }
        Ok(s)
    })
}

fn cum_sum(a: &Tensor, axis: u64) -> R<Tensor> {
    if axis as usize >= a.rank() {
        return err("cumsum: invalid axis");
    }
    let ax = axis as usize;
    let st = a.st;
    Tensor::build(a.shape.clone(), st, |idx| {
        let mut s = 0u128;
        for j in 0..=idx[ax] {
            let mut src = idx.to_vec();
            src[ax] = j;
            s = madd(s, a.at(&src), st);
        }
        Ok(s)
    })
}

/// numpy.transpose(a, axes): "the i-th axis of the returned array will correspond to the axis
/// numbered axes[i] of the input"
fn permute_axes(a: &Tensor, axes: &[u64]) -> R<Tensor> {
    let r = a.rank();
    if axes.len() != r || r == 0 {
        return err("permute_axes: axes must be a permutation of the array's axes");
    }
    for k in 0..r as u64 {
        if !axes.contains(&k) {
            return err("permute_axes: axes must be a permutation of the array's axes");
        }
    }
    let shape: Vec<u64> = axes.iter().map(|x| a.shape[*x as usize]).collect();
    Tensor::build(shape, a.st, |idx| {
        let mut src = vec![0u64; r];
        for (i, x) in axes.iter().enumerate() {
            src[*x as usize] = idx[i];
        }
        Ok(a.at(&src))
    })
}

// -------------------------------------------------------------------------------------------------
// indexing

/// B = A[i,j,:,:]
fn get(a: &Tensor, index: &[u64]) -> R<Tensor> {
    if index.is_empty() || index.len() > a.rank() {
        return err("get: index longer than the rank (or empty)");
    }
    for (i, d) in index.iter().zip(a.shape.iter()) {
        if i >= d {
            return err("get: index out of range");
        }
    }
    let shape = a.shape[index.len()..].to_vec();
    Tensor::build(shape, a.st, |idx| {
        let mut src = index.to_vec();
        src.extend_from_slice(idx);
        Ok(a.at(&src))
    })
}

/// per-dimension selection after normalisation
enum Sel {
    /// dimension removed, fixed index
    One(u64),
    /// dimension kept: start, step, count
    Range(i128, i128, u64),
}

/// CPython `slice.indices(n)` (PySlice_AdjustIndices), which NumPy basic slicing follows
fn adjust_slice(start: Option<i64>, stop: Option<i64>, step: Option<i64>, n: u64) -> R<Sel> {
    let n = n as i128;
    let step = step.unwrap_or(1) as i128;
    if step == 0 {
        return err("slice step cannot be zero");
    }
    let clamp = |v: Option<i64>, dflt_pos: i128, dflt_neg: i128| -> i128 {
        match v {
            None => {
                if step < 0 {
                    dflt_neg
                } else {
                    dflt_pos
                }
            }
            Some(v) => {
                let mut v = v as i128;
                if v < 0 {
                    v += n;
                    if v < 0 {
                        v = if step < 0 { -1 } else { 0 };
                    }
                } else if v >= n {
                    v = if step < 0 { n - 1 } else { n };
                }
                v
            }
        }
    };
    // defaults: start = 0 (step>0) or n-1 (step<0); stop = n (step>0) or "before the beginning"
    let start = clamp(start, 0, n - 1);
    let stop = clamp(stop, n, -1);
    let count = if step < 0 {
        if stop < start {
            (start - stop - 1) / (-step) + 1
        } else {
            0
        }
    } else if start < stop {
        (stop - start - 1) / step + 1
    } else {
        0
    };
    Ok(Sel::Range(start, step, count as u64))
}

fn get_slice(a: &Tensor, slice: &[SliceElement]) -> R<Tensor> {
    let r = a.rank();
    if r == 0 {
        return err("get_slice of a scalar");
    }
    let n_ell = slice.iter().filter(|e| matches!(e, SliceElement::Ellipsis)).count();
    if n_ell > 1 {
        return err("an index can only have a single ellipsis");
    }
    let n_explicit = slice.len() - n_ell;
    if n_explicit > r {
        return err("too many indices for array");
    }
    // expand the ellipsis (or the implicit trailing one) into full slices
    let mut expanded: Vec<SliceElement> = vec![];
    for e in slice {
        match e {
            SliceElement::Ellipsis => {
                for _ in 0..(r - n_explicit) {
                    expanded.push(SliceElement::SubArray(None, None, None));
                }
            }
            other => expanded.push(other.clone()),
        }
    }
    while expanded.len() < r {
        expanded.push(SliceElement::SubArray(None, None, None));
    }
    let mut sels = vec![];
    for (e, d) in expanded.iter().zip(a.shape.iter()) {
        match e {
            SliceElement::SingleIndex(i) => {
                let mut i = *i as i128;
                if i < 0 {
                    i += *d as i128;
                }
                if i < 0 || i >= *d as i128 {
                    return err("index is out of bounds");
                }
                sels.push(Sel::One(i as u64));
            }
            SliceElement::SubArray(s, e, st) => sels.push(adjust_slice(*s, *e, *st, *d)?),
            SliceElement::Ellipsis => unreachable!(),
        }
    }
    let shape: Vec<u64> = sels
        .iter()
        .filter_map(|s| match s {
            Sel::Range(_, _, c) => Some(*c),
            _ => None,
        })
        .collect();
    Tensor::build(shape, a.st, |idx| {
        let mut src = vec![];
        let mut p = 0;
        for s in &sels {
            match s {
                Sel::One(i) => src.push(*i),
                Sel::Range(start, step, _) => {
                    src.push((*start + *step * idx[p] as i128) as u64);
                    p += 1;
                }
            }
        }
        Ok(a.at(&src))
    })
}

/// numpy.take(a, indices, axis): result shape a.shape[:axis] + indices.shape + a.shape[axis+1:]
fn gather(a: &Tensor, ind: &Tensor, axis: u64) -> R<Tensor> {
    let ax = axis as usize;
    if ax >= a.rank() {
        return err("gather: invalid axis");
    }
    if is_signed(ind.st) || ind.st == ScalarType::Bit {
        return err("gather: index type not covered");
    }
    let d = a.shape[ax];
    let mut seen = vec![];
    for x in &ind.data {
        if *x >= d as u128 {
            return err("gather: index out of range (runtime error expected)");
        }
        if seen.contains(x) {
            // "Indices must be unique": behaviour with duplicates is not documented
            return err("gather: duplicate indices are outside the documented domain");
        }
        seen.push(*x);
    }
    let mut shape = a.shape[..ax].to_vec();
    shape.extend_from_slice(&ind.shape);
    shape.extend_from_slice(&a.shape[ax + 1..]);
    let ri = ind.rank();
    Tensor::build(shape, a.st, |idx| {
        let j = ind.at(&idx[ax..ax + ri]) as u64;
        let mut src = idx[..ax].to_vec();
        src.push(j);
        src.extend_from_slice(&idx[ax + ri..]);
        Ok(a.at(&src))
    })
}

// -------------------------------------------------------------------------------------------------
// joining arrays

fn stack(ts: &[Tensor], outer: &[u64]) -> R<Tensor> {
    if ts.is_empty() || outer.is_empty() || outer.iter().any(|d| *d == 0) {
        return err("stack: nothing to stack");
    }
    if num_elems(outer) != ts.len() {
        return err("stack: outer shape does not match the number of arrays");
    }
    let st = ts[0].st;
    let mut inner: Vec<u64> = ts[0].shape.clone();
    for t in ts {
        if t.st != st {
            return err("stack: scalar types differ");
        }
        inner = broadcast_shapes(&inner, &t.shape)?;
    }
    let no = outer.len();
    let mut shape = outer.to_vec();
    shape.extend_from_slice(&inner);
    Tensor::build(shape, st, |idx| {
        let (o, i) = idx.split_at(no);
        // position of the input array in the row-major arrangement given by the outer shape
        let mut which = 0usize;
        for (x, d) in o.iter().zip(outer.iter()) {
            which = which * (*d as usize) + *x as usize;
        }
        let t = &ts[which];
        Ok(t.at(&bidx(i, &t.shape)))
    })
}

fn concatenate(ts: &[Tensor], axis: u64) -> R<Tensor> {
    if ts.is_empty() {
        return err("concatenate: no arrays");
    }
    let ax = axis as usize;
    let r = ts[0].rank();
    if r == 0 || ax >= r {
        return err("concatenate: invalid axis");
    }
    let st = ts[0].st;
    let mut total = 0u64;
    for t in ts {
        if t.st != st || t.rank() != r {
            return err("concatenate: arrays must have the same scalar type and rank");
        }
        for k in 0..r {
            if k != ax && t.shape[k] != ts[0].shape[k] {
                return err("concatenate: shapes differ outside the axis");
            }
        }
        total += t.shape[ax];
    }
    let mut shape = ts[0].shape.clone();
    shape[ax] = total;
    Tensor::build(shape, st, |idx| {
        let mut pos = idx[ax];
        for t in ts {
            if pos < t.shape[ax] {
                let mut src = idx.to_vec();
                src[ax] = pos;
                return Ok(t.at(&src));
            }
            pos -= t.shape[ax];
        }
        unreachable!()
    })
}

// -------------------------------------------------------------------------------------------------
// bits <-> integers (bit index 0 = least significant bit, see module docs)

fn a2b(a: &Tensor) -> R<Tensor> {
    let w = bits(a.st) as u64;
    let mut shape = a.shape.clone();
    shape.push(w);
    let r = a.rank();
    Tensor::build(shape, ScalarType::Bit, |idx| Ok((a.at(&idx[..r]) >> idx[r]) & 1))
}

fn b2a(a: &Tensor, st: ScalarType) -> R<Tensor> {
    if a.st != ScalarType::Bit || a.rank() == 0 {
        return err("b2a: operand must be a binary array");
    }
    let w = bits(st) as u64;
    if *a.shape.last().unwrap() != w {
        return err("b2a: last dimension must be the bit size of the scalar type");
    }
    let shape = a.shape[..a.rank() - 1].to_vec();
    Tensor::build(shape, st, |idx| {
        let mut x = 0u128;
        for k in 0..w {
            let mut src = idx.to_vec();
            src.push(k);
            x |= a.at(&src) << k;
        }
        Ok(x)
    })
}

// -------------------------------------------------------------------------------------------------
// permutations, sorting

fn as_permutation(p: &Tensor) -> R<Vec<u64>> {
    if p.rank() != 1 {
        return err("permutation must be a 1-dimensional array");
    }
    if is_signed(p.st) || p.st == ScalarType::Bit {
        return err("permutation element type not covered");
    }
    let n = p.shape[0];
    let mut seen = vec![false; n as usize];
    let mut out = vec![];
    for x in &p.data {
        if *x >= n as u128 || seen[*x as usize] {
            return err("not a permutation (runtime error expected)");
        }
        seen[*x as usize] = true;
        out.push(*x as u64);
    }
    Ok(out)
}

/// "The i-th element of an output array is output[i] = j if input[j] = i."
fn invert(p: &[u64]) -> Vec<u64> {
    let mut out = vec![0u64; p.len()];
    for i in 0..p.len() {
        for j in 0..p.len() {
            if p[j] == i as u64 {
                out[i] = j as u64;
            }
        }
    }
    out
}

/// rows of `a` (first dimension) rearranged: out[i] = a[rows[i]]
fn take_rows(a: &Tensor, rows: &[u64]) -> R<Tensor> {
    if a.rank() == 0 || a.shape[0] as usize != rows.len() {
        return err("first dimension does not match the permutation length");
    }
    Tensor::build(a.shape.clone(), a.st, |idx| {
        let mut src = idx.to_vec();
        src[0] = rows[idx[0] as usize];
        Ok(a.at(&src))
    })
}

fn segment_cumsum(a: &Tensor, b: &Tensor, v: &Tensor) -> R<Tensor> {
    if a.rank() == 0 || b.rank() != 1 || b.st != ScalarType::Bit || b.shape[0] != a.shape[0] {
        return err("segment_cumsum: operand shapes");
    }
    if v.st != a.st || v.shape != a.shape[1..] {
        return err("segment_cumsum: first row must be a row of the input array");
    }
    let st = a.st;
    let n = a.shape[0];
    let mut shape = a.shape.clone();
    shape[0] = n + 1;
    // output[0] = v; output[i] = A[i-1] + B[i-1] * output[i-1], i in 1..=n
    Tensor::build(shape, st, |idx| {
        let rest = &idx[1..];
        let mut cur = v.at(rest);
        for i in 1..=idx[0] {
            let mut src = vec![i - 1];
            src.extend_from_slice(rest);
            let bit = b.at(&[i - 1]);
            cur = madd(a.at(&src), mmul(bit, cur, st), st);
        }
        Ok(cur)
    })
}

// -------------------------------------------------------------------------------------------------
// containers

fn flatten_leaves(t: &Type, v: &HVal, out: &mut Vec<(Type, HVal)>) -> R<()> {
    if is_leaf(t) {
        out.push((t.clone(), v.clone()));
        return Ok(());
    }
    let ts = children_types(t);
    match v {
        HVal::V(cs) if cs.len() == ts.len() => {
            for (c, ct) in cs.iter().zip(ts.iter()) {
                flatten_leaves(ct, c, out)?;
            }
            Ok(())
        }
        _ => err("value does not match its type"),
    }
}

fn rebuild(t: &Type, leaves: &mut std::vec::IntoIter<(Type, HVal)>) -> R<HVal> {
    if is_leaf(t) {
        let (lt, lv) = leaves.next().ok_or("reshape: different number of arrays and scalars")?;
        if leaf_st(&lt) != leaf_st(t) {
            return err("reshape: scalar types differ");
        }
        if type_elems(&lt) != type_elems(t) {
            return err("reshape: different number of elements");
        }
        // "it can be reshaped to any array with the same number of elements": row-major order kept
        return Ok(lv);
    }
    let mut cs = vec![];
    for ct in children_types(t) {
        cs.push(rebuild(&ct, leaves)?);
    }
    Ok(HVal::V(cs))
}

fn reshape(t: &Type, v: &HVal, new_t: &Type) -> R<HVal> {
    let mut leaves = vec![];
    flatten_leaves(t, v, &mut leaves)?;
    let mut it = leaves.into_iter();
    let out = rebuild(new_t, &mut it)?;
    if it.next().is_some() {
        return err("reshape: different number of arrays and scalars");
    }
    Ok(out)
}

fn ones(t: &Type) -> HVal {
    if is_leaf(t) {
        HVal::A(vec![1; type_elems(t)])
    } else {
        HVal::V(children_types(t).iter().map(ones).collect())
    }
}

fn vec_parts<'a>(t: &Type, v: &'a HVal) -> R<(u64, Type, &'a Vec<HVal>)> {
    match (t, v) {
        (Type::Vector(n, et), HVal::V(cs)) if cs.len() as u64 == *n => Ok((*n, (**et).clone(), cs)),
        _ => err("operand is not a vector"),
    }
}

// -------------------------------------------------------------------------------------------------
// entry point

fn need(n: usize, arg_types: &[Type], args: &[HVal]) -> R<()> {
    if arg_types.len() != n || args.len() != n {
        return Err(format!("operation needs {} argument(s)", n));
    }
    Ok(())
}

fn tensors(arg_types: &[Type], args: &[HVal]) -> R<Vec<Tensor>> {
    if arg_types.len() != args.len() {
        return err("argument count mismatch");
    }
    arg_types.iter().zip(args.iter()).map(|(t, v)| Tensor::from_typed(t, v)).collect()
}

/// Documented result (type and value) of one primitive operation on the given arguments.
/// `Err` = the reference does not cover / decide this case.
pub fn eval_op(op: &Operation, arg_types: &[Type], args: &[HVal]) -> R<(Type, HVal)> {
    match op {
        Operation::Zeros(t) => {
            need(0, arg_types, args)?;
            Ok((t.clone(), zero(t)))
        }
        Operation::Ones(t) => {
            need(0, arg_types, args)?;
            Ok((t.clone(), ones(t)))
        }
        Operation::Constant(t, v) => {
            need(0, arg_types, args)?;
            Ok((t.clone(), decode(v, t)?))
        }
        Operation::NOP => {
            need(1, arg_types, args)?;
            Ok((arg_types[0].clone(), args[0].clone()))
        }
        Operation::Add | Operation::Subtract | Operation::Multiply => {
            need(2, arg_types, args)?;
            let ts = tensors(arg_types, args)?;
            let st = same_st(&ts[0], &ts[1])?;
            let r = match op {
                Operation::Add => elementwise(&ts[0], &ts[1], st, |x, y| madd(x, y, st))?,
                Operation::Subtract => elementwise(&ts[0], &ts[1], st, |x, y| msub(x, y, st))?,
                _ => elementwise(&ts[0], &ts[1], st, |x, y| mmul(x, y, st))?,
            };
            Ok(r.into_typed())
        }
        Operation::MixedMultiply => {
            need(2, arg_types, args)?;
            let ts = tensors(arg_types, args)?;
            if ts[0].st == ScalarType::Bit || ts[1].st != ScalarType::Bit {
                return err("mixed_multiply: integer times bit");
            }
            // "returns this element or zero depending on the corresponding bit element"
            let r = elementwise(&ts[0], &ts[1], ts[0].st, |x, b| if b == 1 { x } else { 0 })?;
            Ok(r.into_typed())
        }
        Operation::Dot => {
            need(2, arg_types, args)?;
            let ts = tensors(arg_types, args)?;
            Ok(dot(&ts[0], &ts[1])?.into_typed())
        }
        Operation::Matmul => {
            need(2, arg_types, args)?;
            let ts = tensors(arg_types, args)?;
            Ok(matmul(&ts[0], &ts[1])?.into_typed())
        }
        Operation::Gemm(ta, tb) => {
            need(2, arg_types, args)?;
            let ts = tensors(arg_types, args)?;
            Ok(batched_matmul(&ts[0], &ts[1], *ta, *tb)?.into_typed())
        }
        Operation::Truncate(scale) => {
            need(1, arg_types, args)?;
            let ts = tensors(arg_types, args)?;
            Ok(truncate(&ts[0], *scale)?.into_typed())
        }
        Operation::Sum(axes) => {
            need(1, arg_types, args)?;
            let ts = tensors(arg_types, args)?;
            Ok(sum(&ts[0], axes)?.into_typed())
        }
        Operation::CumSum(axis) => {
            need(1, arg_types, args)?;
            let ts = tensors(arg_types, args)?;
            Ok(cum_sum(&ts[0], *axis)?.into_typed())
        }
        Operation::PermuteAxes(axes) => {
            need(1, arg_types, args)?;
            let ts = tensors(arg_types, args)?;
            Ok(permute_axes(&ts[0], axes)?.into_typed())
        }
        Operation::Get(index) => {
            need(1, arg_types, args)?;
            let ts = tensors(arg_types, args)?;
            Ok(get(&ts[0], index)?.into_typed())
        }
        Operation::GetSlice(slice) => {
            need(1, arg_types, args)?;
            let ts = tensors(arg_types, args)?;
            Ok(get_slice(&ts[0], slice)?.into_typed())
        }
        Operation::Gather(axis) => {
            need(2, arg_types, args)?;
            let ts = tensors(arg_types, args)?;
            Ok(gather(&ts[0], &ts[1], *axis)?.into_typed())
        }
        Operation::Reshape(new_t) => {
            need(1, arg_types, args)?;
            Ok((new_t.clone(), reshape(&arg_types[0], &args[0], new_t)?))
        }
        Operation::Stack(outer) => {
            let ts = tensors(arg_types, args)?;
            Ok(stack(&ts, outer)?.into_typed())
        }
        Operation::Concatenate(axis) => {
            let ts = tensors(arg_types, args)?;
            Ok(concatenate(&ts, *axis)?.into_typed())
        }
        Operation::A2B => {
            need(1, arg_types, args)?;
            let ts = tensors(arg_types, args)?;
            if ts[0].st == ScalarType::Bit {
                return err("a2b of a binary array is not described");
            }
            Ok(a2b(&ts[0])?.into_typed())
        }
        Operation::B2A(st) => {
            need(1, arg_types, args)?;
            let ts = tensors(arg_types, args)?;
            if *st == ScalarType::Bit {
                return err("b2a to BIT is not described");
            }
            Ok(b2a(&ts[0], *st)?.into_typed())
        }
        Operation::CreateTuple => {
            if arg_types.len() != args.len() {
                return err("argument count mismatch");
            }
            Ok((tuple_type(arg_types.to_vec()), HVal::V(args.to_vec())))
        }
        Operation::CreateNamedTuple(names) => {
            if arg_types.len() != args.len() || names.len() != args.len() {
                return err("argument count mismatch");
            }
            for (i, n) in names.iter().enumerate() {
                if names[..i].contains(n) {
                    return err("named tuple: duplicate names");
                }
            }
            let t = named_tuple_type(names.iter().cloned().zip(arg_types.iter().cloned()).collect());
            Ok((t, HVal::V(args.to_vec())))
        }
        Operation::CreateVector(et) => {
            if arg_types.len() != args.len() {
                return err("argument count mismatch");
            }
            if arg_types.iter().any(|t| t != et) {
                return err("create_vector: element types must equal the declared element type");
            }
            Ok((vector_type(args.len() as u64, et.clone()), HVal::V(args.to_vec())))
        }
        Operation::TupleGet(i) => {
            need(1, arg_types, args)?;
            match (&arg_types[0], &args[0]) {
                (Type::Tuple(ts), HVal::V(cs)) if (*i as usize) < ts.len() && cs.len() == ts.len() => {
                    Ok(((*ts[*i as usize]).clone(), cs[*i as usize].clone()))
                }
                _ => err("tuple_get: not a tuple or index out of range"),
            }
        }
        Operation::NamedTupleGet(key) => {
            need(1, arg_types, args)?;
            match (&arg_types[0], &args[0]) {
                (Type::NamedTuple(ts), HVal::V(cs)) if cs.len() == ts.len() => {
                    for (k, (name, t)) in ts.iter().enumerate() {
                        if name == key {
                            return Ok(((**t).clone(), cs[k].clone()));
                        }
                    }
                    err("named_tuple_get: no such key")
                }
                _ => err("named_tuple_get: not a named tuple"),
            }
        }
        Operation::VectorGet => {
            need(2, arg_types, args)?;
            let (n, et, cs) = vec_parts(&arg_types[0], &args[0])?;
            let i = match (&arg_types[1], &args[1]) {
                (Type::Scalar(st), HVal::A(x)) if x.len() == 1 && !is_signed(*st) && *st != ScalarType::Bit => x[0],
                _ => return err("vector_get: index type not covered"),
            };
            if i >= n as u128 {
                return err("vector_get: index out of range (runtime error expected)");
            }
            Ok((et, cs[i as usize].clone()))
        }
        Operation::Zip => {
            // V_1(n,t_1) ... V_k(n,t_k) -> V(n, tuple(t_1..t_k))
            if arg_types.is_empty() || arg_types.len() != args.len() {
                return err("zip: needs vectors");
            }
            let mut parts = vec![];
            for (t, v) in arg_types.iter().zip(args.iter()) {
                parts.push(vec_parts(t, v)?);
            }
            let n = parts[0].0;
            if parts.iter().any(|p| p.0 != n) {
                return err("zip: vectors of different lengths");
            }
            let et = tuple_type(parts.iter().map(|p| p.1.clone()).collect());
            let mut out = vec![];
            for i in 0..n as usize {
                out.push(HVal::V(parts.iter().map(|p| p.2[i].clone()).collect()));
            }
            Ok((vector_type(n, et), HVal::V(out)))
        }
        Operation::Repeat(n) => {
            need(1, arg_types, args)?;
            Ok((
                vector_type(*n, arg_types[0].clone()),
                HVal::V((0..*n).map(|_| args[0].clone()).collect()),
            ))
        }
        Operation::ArrayToVector => {
            // "Given an array of shape [a,b,c], this node returns a vector of a arrays of shape [b,c]"
            need(1, arg_types, args)?;
            let ts = tensors(arg_types, args)?;
            let a = &ts[0];
            if a.rank() == 0 {
                return err("array_to_vector of a scalar");
            }
            let mut out = vec![];
            let mut et = scalar_type(a.st);
            for i in 0..a.shape[0] {
                let (t, v) = get(a, &[i])?.into_typed();
                et = t;
                out.push(v);
            }
            Ok((vector_type(a.shape[0], et), HVal::V(out)))
        }
        Operation::VectorToArray => {
            // "Given a vector of a arrays of shape [b,c], this node returns an array of shape [a,b,c]"
            need(1, arg_types, args)?;
            let (n, et, cs) = vec_parts(&arg_types[0], &args[0])?;
            if n == 0 {
                return err("vector_to_array of an empty vector");
            }
            let mut ts = vec![];
            for c in cs {
                ts.push(Tensor::from_typed(&et, c)?);
            }
            Ok(stack(&ts, &[n])?.into_typed())
        }
        Operation::InversePermutation => {
            need(1, arg_types, args)?;
            let ts = tensors(arg_types, args)?;
            let p = as_permutation(&ts[0])?;
            let q = invert(&p);
            Ok((arg_types[0].clone(), HVal::A(q.iter().map(|x| *x as u128).collect())))
        }
        Operation::ApplyPermutation(inverse) => {
            need(2, arg_types, args)?;
            let ts = tensors(arg_types, args)?;
            let p = as_permutation(&ts[1])?;
            let rows = if *inverse { invert(&p) } else { p };
            Ok(take_rows(&ts[0], &rows)?.into_typed())
        }
        Operation::SegmentCumSum => {
            need(3, arg_types, args)?;
            let ts = tensors(arg_types, args)?;
            Ok(segment_cumsum(&ts[0], &ts[1], &ts[2])?.into_typed())
        }
        Operation::Sort(key) => {
            need(1, arg_types, args)?;
            let (cols, vals) = match (&arg_types[0], &args[0]) {
                (Type::NamedTuple(ts), HVal::V(cs)) if cs.len() == ts.len() => (ts, cs),
                _ => return err("sort: operand must be a named tuple"),
            };
            let mut tensors_ = vec![];
            let mut key_col = None;
            for ((name, t), v) in cols.iter().zip(vals.iter()) {
                let tt = Tensor::from_typed(t, v)?;
                if name == key {
                    key_col = Some(tt.clone());
                }
                tensors_.push(tt);
            }
            let k = key_col.ok_or("sort: no such key column")?;
            if k.rank() != 2 || k.st != ScalarType::Bit {
                return err("sort: key column must be a 2-d BIT array");
            }
            let n = k.shape[0];
            // bit strings compared lexicographically; equal keys keep their input order
            let keys: Vec<Vec<u128>> = (0..n).map(|i| (0..k.shape[1]).map(|j| k.at(&[i, j])).collect()).collect();
            let mut rows: Vec<u64> = (0..n).collect();
            rows.sort_by(|x, y| keys[*x as usize].cmp(&keys[*y as usize]).then(x.cmp(y)));
            let mut out = vec![];
            for t in &tensors_ {
                out.push(HVal::A(take_rows(t, &rows)?.data));
            }
            Ok((arg_types[0].clone(), HVal::V(out)))
        }
        other => Err(format!("operation {} is not covered by the reference", other)),
    }
}
