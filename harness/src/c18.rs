//! C18 — sorting is a stable sort; permutation application and inversion agree; the compiled
//! secure sort returns exactly the plaintext result.
//!
//! Sub-checks:
//!   sort-plain      Graph::sort on generated tables vs the harness's own stable sort + gather
//!   sort-int        SortByIntegerKey: output rows = a permutation of the input rows, key column
//!                   numerically non-decreasing (signed order for signed types)
//!   perm-exhaustive / perm-random
//!                   apply_permutation / apply_inverse_permutation: both round trips restore the
//!                   array and each result is the gather resp. scatter of the rows by p
//!   sort-compiled   compile_context(Sort graph) under owner/output/inline configurations: global
//!                   evaluator and three-party executor vs the reference stable sort
//!   perm-compiled   same for ApplyPermutation with a PUBLIC permutation (input or constant) and
//!                   private data (private permutations: known finding F-C01-1, excluded)
//!   int-compiled    SortByIntegerKey compiled (small key types; the a2b/b2a around the sort)
use crate::core::*;
use crate::gen::{arb_elem, pick};
use crate::hv::*;
use crate::mpcx::*;
use crate::walk::{run3, sends_of};
use ciphercore_base::custom_ops::{run_instantiation_pass, CustomOperation};
use ciphercore_base::data_types::{array_type, tuple_type, ScalarType, Type, BIT};
use ciphercore_base::data_values::Value;
use ciphercore_base::evaluators::simple_evaluator::SimpleEvaluator;
use ciphercore_base::evaluators::Evaluator;
use ciphercore_base::graphs::{create_context, Context, Graph, Node};
use ciphercore_base::ops::integer_key_sort::SortByIntegerKey;
use proptest::prelude::*;
use serde::{Deserialize, Serialize};
use serde_json::Value as J;

pub const RULE: &str = "tables as named tuples (1-12 rows; BIT key column [n,b], b in 1..10 with odd widths over-weighted; key patterns: uniform, small pool of duplicated keys, all-equal, one-bit neighbours, already sorted, reversed; 0-3 payload columns of any of the 11 scalar types and rank 1-3; key column at any position) -> Graph::sort vs the harness's own insertion-sort reference (lexicographic bit-string order, ties by input index, one row permutation gathered into every column); \
integer-key tables for all 11 scalar types (signed extremes) through SortByIntegerKey: row multiset preserved and key non-decreasing in numeric order; \
arrays x permutations (all permutations for n<=5, random up to n=12, index types UINT8/16/32/64): inverse(apply(a,p),p)==a, apply(inverse(a,p),p)==a, and {apply, inverse} = {gather, scatter} of rows by p; \
compiled: per-column owners in {0,1,2,public,shared}, every ordered output-party list incl. empty, 3 inline modes, 2 evaluator seeds for the global evaluator + three-party executor (own junk, own tapes; values cross only at Send nodes) vs the reference; \
non-trivial = table with >=3 rows, >=1 duplicated key, >=1 payload column and not already sorted (permutation checks: n>=3 and p not the identity); compiled cases additionally need a private column and >=1 Send; distinct = distinct case";

// ---------------------------------------------------------------------------------------------
// cases (plain data)
// ---------------------------------------------------------------------------------------------

#[derive(Clone, Debug, Serialize, Deserialize)]
pub struct Col {
    pub st: ScalarType,
    /// dimensions after the row dimension (rank of the column = 1 + tail.len())
    pub tail: Vec<u64>,
    /// n * prod(tail) elements, row-major, reduced mod 2^w
    pub vals: Vec<u128>,
}

#[derive(Clone, Debug, Serialize, Deserialize)]
pub struct Table {
    pub n: u64,
    pub b: u64,
    /// n*b key bits, row-major; bit 0 of a row is the first (most significant) position
    pub key_bits: Vec<u8>,
    /// position of the key column among the columns (mod cols.len()+1)
    pub key_pos: u8,
    /// name of the key column (mod 3)
    pub key_name: u8,
    pub cols: Vec<Col>,
    /// how the keys were generated (label only)
    pub pattern: u8,
}

#[derive(Clone, Debug, Serialize, Deserialize)]
pub struct SortCase {
    pub t: Table,
    pub seed: [u8; 16],
}

#[derive(Clone, Debug, Serialize, Deserialize)]
pub struct IntTable {
    pub st: ScalarType,
    pub keys: Vec<u128>,
    pub key_pos: u8,
    pub cols: Vec<Col>,
}

#[derive(Clone, Debug, Serialize, Deserialize)]
pub struct IntCase {
    pub t: IntTable,
    pub seed: [u8; 16],
}

#[derive(Clone, Debug, Serialize, Deserialize)]
pub struct PermData {
    pub n: u64,
    pub data: Col,
    /// scalar type of the permutation array (UINT8/16/32/64)
    pub pst: ScalarType,
    pub perm: Vec<u64>,
}

#[derive(Clone, Debug, Serialize, Deserialize)]
pub struct PermCase {
    pub p: PermData,
    pub seed: [u8; 16],
}

#[derive(Clone, Debug, Serialize, Deserialize)]
pub struct CompCfg {
    pub cfg: MpcCfg,
    pub seeds: [[u8; 16]; 3],
    pub share_seed: u64,
    pub junk_seed: u64,
}

#[derive(Clone, Debug, Serialize, Deserialize)]
pub struct CompSortCase {
    pub t: Table,
    pub cc: CompCfg,
}

#[derive(Clone, Debug, Serialize, Deserialize)]
pub struct CompPermCase {
    pub p: PermData,
    /// permutation given as a Constant node instead of a public input
    pub perm_const: bool,
    pub cc: CompCfg,
}

#[derive(Clone, Debug, Serialize, Deserialize)]
pub struct CompIntCase {
    pub t: IntTable,
    pub cc: CompCfg,
}

// ---------------------------------------------------------------------------------------------
// reference model (independent of ciphercore): lexicographic stable sort, gather, scatter
// ---------------------------------------------------------------------------------------------

fn lex_less(a: &[u8], b: &[u8]) -> bool {
    for i in 0..a.len() {
        if a[i] != b[i] {
            return a[i] < b[i];
        }
    }
    false
}

/// stable insertion sort of row indices by their key bit-string; order[i] = input row that ends
/// up at output position i
pub fn ref_sort_order(key_bits: &[u8], n: usize, b: usize) -> Vec<usize> {
    let key = |r: usize| &key_bits[r * b..(r + 1) * b];
    let mut order: Vec<usize> = Vec::with_capacity(n);
    for r in 0..n {
        // walk left past every row whose key is strictly greater; rows with an equal key stay in
        // front of r (r came later in the input)
        let mut pos = order.len();
        while pos > 0 && lex_less(key(r), key(order[pos - 1])) {
            pos -= 1;
        }
        order.insert(pos, r);
    }
    order
}

/// out[i] = rows[idx[i]]
pub fn ref_gather(vals: &[u128], n: usize, idx: &[usize]) -> Vec<u128> {
    let row = if n == 0 { 0 } else { vals.len() / n };
    let mut out = Vec::with_capacity(vals.len());
    for &i in idx {
        for e in 0..row {
            out.push(vals[i * row + e]);
        }
    }
    out
}

/// out[idx[i]] = rows[i]
pub fn ref_scatter(vals: &[u128], n: usize, idx: &[usize]) -> Vec<u128> {
    let row = if n == 0 { 0 } else { vals.len() / n };
    let mut out = vec![0u128; vals.len()];
    for (i, &j) in idx.iter().enumerate() {
        for e in 0..row {
            out[j * row + e] = vals[i * row + e];
        }
    }
    out
}

fn rows_of(cols: &[&[u128]], n: usize) -> Vec<Vec<u128>> {
    (0..n)
        .map(|r| {
            let mut row = vec![];
            for c in cols {
                let w = c.len() / n;
                row.extend_from_slice(&c[r * w..(r + 1) * w]);
                row.push(u128::MAX); // column separator (no element of a <=128-bit type collides structurally)
            }
            row
        })
        .collect()
}

fn same_row_multiset(a: &[&[u128]], b: &[&[u128]], n: usize) -> bool {
    let mut x = rows_of(a, n);
    let mut y = rows_of(b, n);
    x.sort();
    y.sort();
    x == y
}

// ---------------------------------------------------------------------------------------------
// strategies
// ---------------------------------------------------------------------------------------------

fn arb_rows(max_n: u64) -> BoxedStrategy<u64> {
    prop_oneof![1 => Just(1u64), 1 => Just(2u64), 10 => 3..=max_n.max(3)].boxed()
}

fn arb_width(max_b: u64) -> BoxedStrategy<u64> {
    let odd: Vec<u64> = (1..=max_b).filter(|b| b % 2 == 1).collect();
    let even: Vec<u64> = (1..=max_b).filter(|b| b % 2 == 0).collect();
    if even.is_empty() {
        return proptest::sample::select(odd).boxed();
    }
    prop_oneof![3 => proptest::sample::select(odd), 2 => proptest::sample::select(even)].boxed()
}

fn arb_colspec(cap: u64) -> BoxedStrategy<(ScalarType, Vec<u64>)> {
    (
        crate::gen::arb_st(),
        prop_oneof![
            3 => Just(vec![]),
            3 => (1u64..=3).prop_map(|a| vec![a]),
            2 => (1u64..=3, 1u64..=3).prop_map(|(a, b)| vec![a, b]),
        ],
    )
        .prop_map(move |(st, mut tail)| {
            while tail.iter().product::<u64>() > cap {
                let i = (0..tail.len()).max_by_key(|i| tail[*i]).unwrap();
                tail[i] -= 1;
            }
            (st, tail)
        })
        .boxed()
}

fn arb_col(n: u64, st: ScalarType, tail: Vec<u64>) -> BoxedStrategy<Col> {
    let len = (n * tail.iter().product::<u64>()) as usize;
    proptest::collection::vec(arb_elem(st), len)
        .prop_map(move |vals| Col { st, tail: tail.clone(), vals })
        .boxed()
}

fn arb_bits(len: usize) -> BoxedStrategy<Vec<u8>> {
    proptest::collection::vec(0u8..2, len).boxed()
}

/// key bit-strings for n rows of width b, by pattern
fn arb_keys(n: u64, b: u64, pattern: u8) -> BoxedStrategy<Vec<u8>> {
    let (nn, bb) = (n as usize, b as usize);
    let pooled = |k_min: usize, k_max: usize| {
        (proptest::collection::vec(arb_bits(bb), k_min..=k_max), proptest::collection::vec(any::<u16>(), nn))
            .prop_map(move |(pool, picks)| {
                let mut out = vec![];
                for p in picks {
                    out.extend_from_slice(&pool[pick(p, pool.len())]);
                }
                out
            })
            .boxed()
    };
    let sort_rows = move |bits: Vec<u8>, rev: bool| {
        let mut rows: Vec<Vec<u8>> = bits.chunks(bb).map(|c| c.to_vec()).collect();
        rows.sort();
        if rev {
            rows.reverse();
        }
        rows.concat()
    };
    match pattern % 6 {
        0 => arb_bits(nn * bb),
        1 => pooled(2, 3),
        2 => pooled(1, 1),
        // one-bit neighbours of a base string: orders decided by a single chunk of the radix sort
        3 => (arb_bits(bb), proptest::collection::vec((0u8..3, any::<u16>()), nn))
            .prop_map(move |(base, flips)| {
                let mut out = vec![];
                for (f, pos) in flips {
                    let mut row = base.clone();
                    if f != 0 {
                        let i = pick(pos, bb);
                        row[i] ^= 1;
                    }
                    out.extend(row);
                }
                out
            })
            .boxed(),
        4 => prop_oneof![arb_bits(nn * bb), pooled(2, 3)].prop_map(move |x| sort_rows(x, false)).boxed(),
        _ => prop_oneof![arb_bits(nn * bb), pooled(2, 3)].prop_map(move |x| sort_rows(x, true)).boxed(),
    }
}

fn arb_pattern() -> BoxedStrategy<u8> {
    prop_oneof![3 => Just(0u8), 4 => Just(1u8), 1 => Just(2u8), 4 => Just(3u8), 1 => Just(4u8), 1 => Just(5u8)].boxed()
}

pub fn arb_table(max_n: u64, max_b: u64, max_cols: usize, cap: u64) -> BoxedStrategy<Table> {
    (
        arb_rows(max_n),
        arb_width(max_b),
        arb_pattern(),
        proptest::collection::vec(arb_colspec(cap), 0..=max_cols),
        any::<u8>(),
        0u8..3,
    )
        .prop_flat_map(|(n, b, pattern, specs, key_pos, key_name)| {
            let cols: Vec<BoxedStrategy<Col>> = specs.into_iter().map(|(st, tail)| arb_col(n, st, tail)).collect();
            (arb_keys(n, b, pattern), cols).prop_map(move |(key_bits, cols)| Table { n, b, key_bits, key_pos, key_name, cols, pattern })
        })
        .boxed()
}

pub fn arb_int_table(max_n: u64, sts: Vec<ScalarType>, max_cols: usize) -> BoxedStrategy<IntTable> {
    (
        arb_rows(max_n),
        proptest::sample::select(sts),
        0u8..4,
        proptest::collection::vec(arb_colspec(6), 0..=max_cols),
        any::<u8>(),
    )
        .prop_flat_map(|(n, st, pattern, specs, key_pos)| {
            let cols: Vec<BoxedStrategy<Col>> = specs.into_iter().map(|(s, tail)| arb_col(n, s, tail)).collect();
            let nn = n as usize;
            let keys: BoxedStrategy<Vec<u128>> = match pattern {
                // boundary-heavy independent elements
                0 | 1 => proptest::collection::vec(arb_elem(st), nn).boxed(),
                // duplicated keys from a pool of <=3 values
                2 => (proptest::collection::vec(arb_elem(st), 1..=3), proptest::collection::vec(any::<u16>(), nn))
                    .prop_map(|(pool, picks)| picks.into_iter().map(|p| pool[pick(p, pool.len())]).collect())
                    .boxed(),
                // values around zero / around the sign boundary (x, x+1, x-1 of a base)
                _ => (arb_elem(st), proptest::collection::vec(0u8..5, nn))
                    .prop_map(move |(base, ds)| {
                        ds.into_iter().map(|d| base.wrapping_add(d as u128).wrapping_sub(2) & mask(st)).collect()
                    })
                    .boxed(),
            };
            (keys, cols).prop_map(move |(keys, cols)| IntTable { st, keys, key_pos, cols })
        })
        .boxed()
}

fn perm_from_picks(n: usize, picks: &[u16]) -> Vec<u64> {
    let mut p: Vec<u64> = (0..n as u64).collect();
    // Fisher-Yates driven by monotone picks: all-zero picks give ... a fixed rotation; the identity
    // is reached through the `ident` flag of the strategy
    for i in (1..n).rev() {
        let j = pick(picks[i], i + 1);
        p.swap(i, j);
    }
    p
}

pub fn arb_perm_data(max_n: u64) -> BoxedStrategy<PermData> {
    (
        prop_oneof![1 => Just(1u64), 1 => Just(2u64), 8 => 3..=max_n],
        arb_colspec(9),
        proptest::sample::select(vec![ScalarType::U8, ScalarType::U16, ScalarType::U32, ScalarType::U64]),
        0u8..14,
    )
        .prop_flat_map(|(n, (st, tail), pst, kind)| {
            (arb_col(n, st, tail), proptest::collection::vec(any::<u16>(), n as usize)).prop_map(move |(data, picks)| {
                let nn = n as usize;
                let perm = match kind {
                    0 => (0..n).collect(),
                    1 => (0..n).rev().collect(),
                    2 => (0..n).map(|i| (i + 1) % n).collect(),
                    _ => perm_from_picks(nn, &picks),
                };
                PermData { n, data, pst, perm }
            })
        })
        .boxed()
}

pub fn arb_comp_cfg() -> BoxedStrategy<CompCfg> {
    (
        proptest::collection::vec(prop_oneof![6 => 0u8..3, 1 => Just(3u8), 2 => Just(4u8)], 1..5),
        proptest::sample::subsequence(vec![0u8, 1, 2], 0..=3).prop_shuffle(),
        0u8..3,
        any::<[u8; 16]>(),
        any::<[[u8; 16]; 3]>(),
        any::<u64>(),
        any::<u64>(),
    )
        .prop_map(|(owners, outs, mode, compile_seed, seeds, share_seed, junk_seed)| CompCfg {
            cfg: MpcCfg { owners, outs, mode, compile_seed },
            seeds,
            share_seed,
            junk_seed,
        })
        .boxed()
}

// ---------------------------------------------------------------------------------------------
// interpreter: case -> ciphercore context
// ---------------------------------------------------------------------------------------------

pub struct Plan {
    pub ctx: Context,
    pub in_types: Vec<Type>,
    pub in_vals: Vec<HVal>,
    pub out_type: Type,
    /// inputs that must stay public in the compiled form (permutations: known finding F-C01-1)
    pub force_public: Vec<bool>,
}

fn col_type(n: u64, tail: &[u64], st: ScalarType) -> Type {
    let mut s = vec![n];
    s.extend_from_slice(tail);
    array_type(s, st)
}

fn finish(ctx: &Context, g: &Graph, out: Node) -> Result<Type, String> {
    let e = |x: ciphercore_base::errors::Error| x.to_string();
    g.set_output_node(out.clone()).map_err(e)?;
    g.finalize().map_err(e)?;
    ctx.set_main_graph(g.clone()).map_err(e)?;
    ctx.finalize().map_err(e)?;
    out.get_type().map_err(e)
}

const KEY_NAMES: [&str; 3] = ["key", "k", "zz"];

/// columns of the named tuple in order: (name, type, values); the key column is inserted at key_pos
fn table_columns(t: &Table) -> (Vec<(String, Type, Vec<u128>)>, usize) {
    let kp = t.key_pos as usize % (t.cols.len() + 1);
    let mut out = vec![];
    for (i, c) in t.cols.iter().enumerate() {
        out.push((format!("c{}", i), col_type(t.n, &c.tail, c.st), c.vals.clone()));
    }
    out.insert(
        kp,
        (
            KEY_NAMES[t.key_name as usize % 3].to_string(),
            array_type(vec![t.n, t.b], BIT),
            t.key_bits.iter().map(|x| *x as u128).collect(),
        ),
    );
    (out, kp)
}

fn table_valid(t: &Table) -> bool {
    t.n >= 1
        && t.b >= 1
        && t.key_bits.len() as u64 == t.n * t.b
        && t.key_bits.iter().all(|x| *x < 2)
        && t.cols.iter().all(|c| c.vals.len() as u64 == t.n * c.tail.iter().product::<u64>() && c.vals.iter().all(|v| *v & !mask(c.st) == 0))
}

pub fn build_sort(t: &Table) -> Result<Plan, String> {
    let e = |x: ciphercore_base::errors::Error| x.to_string();
    let (cols, _) = table_columns(t);
    let ctx = create_context().map_err(e)?;
    let g = ctx.create_graph().map_err(e)?;
    let mut fields = vec![];
    let mut in_types = vec![];
    let mut in_vals = vec![];
    for (name, ty, vals) in cols {
        let node = g.input(ty.clone()).map_err(e)?;
        fields.push((name, node));
        in_types.push(ty);
        in_vals.push(HVal::A(vals));
    }
    let nt = g.create_named_tuple(fields).map_err(e)?;
    let sorted = g.sort(nt, KEY_NAMES[t.key_name as usize % 3].to_string()).map_err(e)?;
    let out_type = finish(&ctx, &g, sorted)?;
    let n_in = in_types.len();
    Ok(Plan { ctx, in_types, in_vals, out_type, force_public: vec![false; n_in] })
}

/// the reference result of sorting table t: every column gathered by the stable order
pub fn ref_sort_table(t: &Table) -> (HVal, Vec<usize>) {
    let (cols, _) = table_columns(t);
    let order = ref_sort_order(&t.key_bits, t.n as usize, t.b as usize);
    let sorted = cols.iter().map(|(_, _, v)| HVal::A(ref_gather(v, t.n as usize, &order))).collect();
    (HVal::V(sorted), order)
}

fn int_columns(t: &IntTable) -> (Vec<(String, Type, Vec<u128>)>, usize) {
    let n = t.keys.len() as u64;
    let kp = t.key_pos as usize % (t.cols.len() + 1);
    let mut out = vec![];
    for (i, c) in t.cols.iter().enumerate() {
        out.push((format!("c{}", i), col_type(n, &c.tail, c.st), c.vals.clone()));
    }
    out.insert(kp, ("key".to_string(), array_type(vec![n], t.st), t.keys.clone()));
    (out, kp)
}

fn int_valid(t: &IntTable) -> bool {
    let n = t.keys.len() as u64;
    n >= 1
        && t.keys.iter().all(|v| *v & !mask(t.st) == 0)
        && t.cols.iter().all(|c| c.vals.len() as u64 == n * c.tail.iter().product::<u64>() && c.vals.iter().all(|v| *v & !mask(c.st) == 0))
}

pub fn build_int_sort(t: &IntTable) -> Result<Plan, String> {
    let e = |x: ciphercore_base::errors::Error| x.to_string();
    let (cols, _) = int_columns(t);
    let ctx = create_context().map_err(e)?;
    let g = ctx.create_graph().map_err(e)?;
    let mut fields = vec![];
    let mut in_types = vec![];
    let mut in_vals = vec![];
    for (name, ty, vals) in cols {
        let node = g.input(ty.clone()).map_err(e)?;
        fields.push((name, node));
        in_types.push(ty);
        in_vals.push(HVal::A(vals));
    }
    let nt = g.create_named_tuple(fields).map_err(e)?;
    let sorted = g
        .custom_op(CustomOperation::new(SortByIntegerKey { key: "key".to_string() }), vec![nt])
        .map_err(e)?;
    let out_type = finish(&ctx, &g, sorted)?;
    let n_in = in_types.len();
    Ok(Plan { ctx, in_types, in_vals, out_type, force_public: vec![false; n_in] })
}

fn perm_valid(p: &PermData) -> bool {
    let n = p.n as usize;
    let mut seen = vec![false; n];
    for &x in &p.perm {
        if x as usize >= n || seen[x as usize] {
            return false;
        }
        seen[x as usize] = true;
    }
    n >= 1
        && p.perm.len() == n
        && matches!(p.pst, ScalarType::U8 | ScalarType::U16 | ScalarType::U32 | ScalarType::U64)
        && p.data.vals.len() as u64 == p.n * p.data.tail.iter().product::<u64>()
        && p.data.vals.iter().all(|v| *v & !mask(p.data.st) == 0)
}

/// output = (apply(a,p), inverse(apply(a,p),p), inverse(a,p), apply(inverse(a,p),p))
pub fn build_perm(p: &PermData, perm_const: bool) -> Result<Plan, String> {
    let e = |x: ciphercore_base::errors::Error| x.to_string();
    let ctx = create_context().map_err(e)?;
    let g = ctx.create_graph().map_err(e)?;
    let at = col_type(p.n, &p.data.tail, p.data.st);
    let pt = array_type(vec![p.n], p.pst);
    let pvals: Vec<u128> = p.perm.iter().map(|x| *x as u128).collect();
    let a = g.input(at.clone()).map_err(e)?;
    let mut in_types = vec![at];
    let mut in_vals = vec![HVal::A(p.data.vals.clone())];
    let mut force_public = vec![false];
    let pn = if perm_const {
        g.constant(pt.clone(), encode(&HVal::A(pvals), &pt)).map_err(e)?
    } else {
        in_types.push(pt.clone());
        in_vals.push(HVal::A(pvals));
        force_public.push(true);
        g.input(pt).map_err(e)?
    };
    let r1 = g.apply_permutation(a.clone(), pn.clone()).map_err(e)?;
    let r2 = g.apply_inverse_permutation(r1.clone(), pn.clone()).map_err(e)?;
    let r3 = g.apply_inverse_permutation(a, pn.clone()).map_err(e)?;
    let r4 = g.apply_permutation(r3.clone(), pn).map_err(e)?;
    let out = g.create_tuple(vec![r1, r2, r3, r4]).map_err(e)?;
    let out_type = finish(&ctx, &g, out)?;
    Ok(Plan { ctx, in_types, in_vals, out_type, force_public })
}

// ---------------------------------------------------------------------------------------------
// evaluation helpers
// ---------------------------------------------------------------------------------------------

enum Ran {
    Val(Value),
    Err(String),
    Panic(String),
}

fn eval_plain(ctx: &Context, inputs: Vec<Value>, seed: [u8; 16]) -> Ran {
    let r = crate::util::catch(|| -> Result<Value, String> {
        let inst = run_instantiation_pass(ctx.clone()).map_err(|e| format!("instantiation: {}", e))?;
        let mut ev = SimpleEvaluator::new(Some(seed)).map_err(|e| e.to_string())?;
        let c = inst.get_context();
        ev.preprocess(&c).map_err(|e| e.to_string())?;
        ev.evaluate_graph(c.get_main_graph().map_err(|e| e.to_string())?, inputs).map_err(|e| e.to_string())
    });
    match r {
        Ok(Ok(v)) => Ran::Val(v),
        Ok(Err(e)) => Ran::Err(e),
        Err(p) => Ran::Panic(p),
    }
}

fn eval_graph(g: &Graph, inputs: Vec<Value>, seed: [u8; 16]) -> Ran {
    let r = crate::util::catch(|| -> Result<Value, String> {
        let mut ev = SimpleEvaluator::new(Some(seed)).map_err(|e| e.to_string())?;
        ev.preprocess(&g.get_context()).map_err(|e| e.to_string())?;
        ev.evaluate_graph(g.clone(), inputs).map_err(|e| e.to_string())
    });
    match r {
        Ok(Ok(v)) => Ran::Val(v),
        Ok(Err(e)) => Ran::Err(e),
        Err(p) => Ran::Panic(p),
    }
}

fn plain_inputs(p: &Plan) -> Vec<Value> {
    p.in_vals.iter().zip(p.in_types.iter()).map(|(v, t)| encode(v, t)).collect()
}

/// plaintext evaluation decoded against the output type; Err(outcome) on error/panic/ill-typed
fn run_plain(p: &Plan, seed: [u8; 16], what: &str) -> Result<HVal, Outcome> {
    match eval_plain(&p.ctx, plain_inputs(p), seed) {
        Ran::Val(v) => decode(&v, &p.out_type)
            .map_err(|e| Outcome::fail(&format!("{}-plain-type", what), format!("plaintext result does not have the node's type {}: {}", p.out_type, e))),
        Ran::Err(e) => Err(Outcome::fail(&format!("{}-plain-error", what), format!("plaintext evaluation of an in-domain input failed: {}", e))),
        Ran::Panic(e) => Err(Outcome::fail(&format!("{}-plain-panic", what), format!("plaintext evaluation panicked: {}", e))),
    }
}

fn trunc(h: &HVal) -> String {
    format!("{:?}", h).chars().take(400).collect()
}

fn bucket(n: usize) -> &'static str {
    match n {
        0..=49 => "<50",
        50..=199 => "50-199",
        200..=999 => "200-999",
        1000..=4999 => "1k-5k",
        _ => ">=5k",
    }
}

// ---------------------------------------------------------------------------------------------
// table statistics (labels, non-triviality)
// ---------------------------------------------------------------------------------------------

struct TStats {
    dup: bool,
    sorted: bool,
    all_equal: bool,
    labels: Vec<String>,
}

fn pattern_name(p: u8) -> &'static str {
    ["uniform", "pool", "all-equal", "one-bit", "sorted", "reversed"][(p % 6) as usize]
}

fn table_stats(t: &Table, order: &[usize]) -> TStats {
    let (n, b) = (t.n as usize, t.b as usize);
    let key = |r: usize| &t.key_bits[r * b..(r + 1) * b];
    let mut dup = false;
    for i in 0..n {
        for j in 0..i {
            if key(i) == key(j) {
                dup = true;
            }
        }
    }
    let sorted = order.iter().enumerate().all(|(i, r)| i == *r);
    let all_equal = (1..n).all(|i| key(i) == key(0));
    let mut labels = vec![
        format!("rows:{}", t.n),
        format!("width:{}", t.b),
        format!("width-parity:{}", if t.b % 2 == 1 { "odd(short-first-chunk)" } else { "even" }),
        format!("payload-cols:{}", t.cols.len()),
        format!("key-pattern:{}", pattern_name(t.pattern)),
        format!("dup-keys:{}", dup),
        format!("already-sorted:{}", sorted),
        format!("key-pos:{}", if t.cols.is_empty() { "only" } else if t.key_pos as usize % (t.cols.len() + 1) == 0 { "first" } else { "later" }),
    ];
    if all_equal && n > 1 {
        labels.push("all-keys-equal".to_string());
    }
    for c in &t.cols {
        labels.push(format!("payload-st:{}", c.st));
        labels.push(format!("payload-rank:{}", 1 + c.tail.len()));
    }
    TStats { dup, sorted, all_equal, labels }
}

fn table_nontrivial(t: &Table, s: &TStats) -> bool {
    t.n >= 3 && s.dup && !t.cols.is_empty() && !s.sorted
}

// ---------------------------------------------------------------------------------------------
// oracle 1: plaintext Sort
// ---------------------------------------------------------------------------------------------

/// classification of a wrong sort result (for a root-cause specific signature)
fn classify_sort(t: &Table, got: &HVal, want: &HVal) -> (&'static str, String) {
    let (cols, kp) = table_columns(t);
    let n = t.n as usize;
    let gc: Vec<Vec<u128>> = match got {
        HVal::V(cs) => cs.iter().map(flat_elems).collect(),
        _ => return ("sort-shape", "result is not a tuple".to_string()),
    };
    if gc.len() != cols.len() {
        return ("sort-shape", "wrong number of columns".to_string());
    }
    let inp: Vec<&[u128]> = cols.iter().map(|(_, _, v)| v.as_slice()).collect();
    let out: Vec<&[u128]> = gc.iter().map(|v| v.as_slice()).collect();
    let msg = format!("got {} want {}", trunc(got), trunc(want));
    if !same_row_multiset(&inp, &out, n) {
        return ("sort-rows-not-a-permutation", format!("output rows are not a permutation of the input rows (columns permuted differently, or values changed): {}", msg));
    }
    let b = t.b as usize;
    let k = &gc[kp];
    for r in 1..n {
        if lex_less(&k[r * b..(r + 1) * b].iter().map(|x| *x as u8).collect::<Vec<u8>>(), &k[(r - 1) * b..r * b].iter().map(|x| *x as u8).collect::<Vec<u8>>()) {
            return ("sort-key-order", format!("key column is not in non-decreasing lexicographic order at row {}: {}", r, msg));
        }
    }
    ("sort-not-stable", format!("rows with equal keys do not keep their input order: {}", msg))
}

pub fn oracle_sort(c: &SortCase) -> Outcome {
    if !table_valid(&c.t) {
        return Outcome::skip("malformed-case");
    }
    let plan = match build_sort(&c.t) {
        Ok(p) => p,
        Err(e) => return Outcome::fail("sort-build", format!("the builder rejected a documented table: {}", e)),
    };
    let (want, order) = ref_sort_table(&c.t);
    let got = match run_plain(&plan, c.seed, "sort") {
        Ok(h) => h,
        Err(o) => return o,
    };
    if got != want {
        let (sig, msg) = classify_sort(&c.t, &got, &want);
        return Outcome::fail(sig, msg);
    }
    let s = table_stats(&c.t, &order);
    Outcome::pass(table_nontrivial(&c.t, &s)).labels(s.labels)
}

// ---------------------------------------------------------------------------------------------
// oracle 2: SortByIntegerKey
// ---------------------------------------------------------------------------------------------

fn num_less(a: u128, b: u128, st: ScalarType) -> bool {
    if is_signed(st) {
        to_signed(a, st) < to_signed(b, st)
    } else {
        a < b
    }
}

struct IntInfo {
    dup: bool,
    sorted: bool,
    labels: Vec<String>,
}

/// judges a decoded result of the integer-key sort; Ok(info) or Err(signature, message)
fn judge_int(t: &IntTable, got: &HVal) -> Result<IntInfo, (&'static str, String)> {
    let (cols, kp) = int_columns(t);
    let n = t.keys.len();
    let gc: Vec<Vec<u128>> = match got {
        HVal::V(cs) => cs.iter().map(flat_elems).collect(),
        _ => return Err(("int-sort-shape", "result is not a tuple".to_string())),
    };
    if gc.len() != cols.len() {
        return Err(("int-sort-shape", "wrong number of columns".to_string()));
    }
    let inp: Vec<&[u128]> = cols.iter().map(|(_, _, v)| v.as_slice()).collect();
    let out: Vec<&[u128]> = gc.iter().map(|v| v.as_slice()).collect();
    if !same_row_multiset(&inp, &out, n) {
        return Err((
            "int-sort-rows-not-a-permutation",
            format!("output rows are not a permutation of the input rows: keys {:?} type {} got {}", t.keys, t.st, trunc(got)),
        ));
    }
    let k = &gc[kp];
    for r in 1..n {
        if num_less(k[r], k[r - 1], t.st) {
            return Err((
                "int-sort-key-order",
                format!("key column of type {} is not numerically non-decreasing at row {}: input {:?} output {:?}", t.st, r, t.keys, k),
            ));
        }
    }
    let mut dup = false;
    for i in 0..n {
        for j in 0..i {
            if t.keys[i] == t.keys[j] {
                dup = true;
            }
        }
    }
    let sorted = (1..n).all(|r| !num_less(t.keys[r], t.keys[r - 1], t.st));
    // stability is observed, not demanded (the statement demands it for bit-string keys only)
    let mut order: Vec<usize> = vec![];
    for r in 0..n {
        let mut pos = order.len();
        while pos > 0 && num_less(t.keys[r], t.keys[order[pos - 1]], t.st) {
            pos -= 1;
        }
        order.insert(pos, r);
    }
    let stable = cols.iter().zip(gc.iter()).all(|((_, _, v), g)| &ref_gather(v, n, &order) == g);
    let has_neg = is_signed(t.st) && t.keys.iter().any(|k| to_signed(*k, t.st) < 0);
    let has_pos = t.keys.iter().any(|k| !is_signed(t.st) || to_signed(*k, t.st) >= 0);
    let mut labels = vec![
        format!("key-st:{}", t.st),
        format!("rows:{}", n),
        format!("payload-cols:{}", t.cols.len()),
        format!("dup-keys:{}", dup),
        format!("already-sorted:{}", sorted),
        format!("observed-stable:{}", stable),
    ];
    if has_neg && has_pos {
        labels.push("signed-mixed-signs".to_string());
    }
    if t.keys.iter().any(|k| crate::gen::is_extreme(*k, t.st)) {
        labels.push("key-extreme-value".to_string());
    }
    if bits(t.st) > 64 && t.keys.iter().any(|k| *k >> 64 != 0) {
        labels.push("key-above-2^64".to_string());
    }
    Ok(IntInfo { dup, sorted, labels })
}

pub fn oracle_int(c: &IntCase) -> Outcome {
    if !int_valid(&c.t) {
        return Outcome::skip("malformed-case");
    }
    let plan = match build_int_sort(&c.t) {
        Ok(p) => p,
        Err(e) => return Outcome::fail("int-sort-build", format!("the builder rejected an integer-key table: {}", e)),
    };
    let got = match run_plain(&plan, c.seed, "int-sort") {
        Ok(h) => h,
        Err(o) => return o,
    };
    match judge_int(&c.t, &got) {
        Ok(i) => Outcome::pass(c.t.keys.len() >= 3 && i.dup && !c.t.cols.is_empty() && !i.sorted).labels(i.labels),
        Err((sig, msg)) => Outcome::fail(sig, msg),
    }
}

// ---------------------------------------------------------------------------------------------
// oracle 3: ApplyPermutation / inverse
// ---------------------------------------------------------------------------------------------

struct PermInfo {
    labels: Vec<String>,
    nontrivial: bool,
}

/// judges the decoded tuple (r1, r2, r3, r4) of build_perm
fn judge_perm(p: &PermData, got: &HVal) -> Result<PermInfo, (&'static str, String)> {
    let n = p.n as usize;
    let a = &p.data.vals;
    let idx: Vec<usize> = p.perm.iter().map(|x| *x as usize).collect();
    let rs: Vec<Vec<u128>> = match got {
        HVal::V(cs) if cs.len() == 4 => cs.iter().map(flat_elems).collect(),
        _ => return Err(("perm-shape", "result is not a 4-tuple".to_string())),
    };
    let ctx = format!("a={:?} ({}{:?}) p={:?} ({})", a.iter().take(40).collect::<Vec<_>>(), p.data.st, p.data.tail, p.perm, p.pst);
    if &rs[1] != a {
        return Err(("perm-roundtrip-apply-then-inverse", format!("apply_inverse_permutation(apply_permutation(a,p),p) != a: got {:?}; {}", rs[1], ctx)));
    }
    if &rs[3] != a {
        return Err(("perm-roundtrip-inverse-then-apply", format!("apply_permutation(apply_inverse_permutation(a,p),p) != a: got {:?}; {}", rs[3], ctx)));
    }
    let gat = ref_gather(a, n, &idx);
    let sca = ref_scatter(a, n, &idx);
    let conv = if rs[0] == gat && rs[2] == sca {
        "apply=gather(out[i]=a[p[i]])"
    } else if rs[0] == sca && rs[2] == gat {
        "apply=scatter(out[p[i]]=a[i])"
    } else {
        return Err((
            "perm-not-the-permutation",
            format!("apply/inverse results are not the rows of a moved by p and by its inverse: apply={:?} inverse={:?}; {}", rs[0], rs[2], ctx),
        ));
    };
    let ident = idx.iter().enumerate().all(|(i, j)| i == *j);
    let involution = idx.iter().enumerate().all(|(i, j)| idx[*j] == i);
    let labels = vec![
        format!("n:{}", n),
        format!("data-st:{}", p.data.st),
        format!("data-rank:{}", 1 + p.data.tail.len()),
        format!("perm-st:{}", p.pst),
        format!("convention:{}", if gat == sca { "indistinguishable" } else { conv }),
        format!("perm-class:{}", if ident { "identity" } else if involution { "involution" } else { "general" }),
    ];
    Ok(PermInfo { labels, nontrivial: n >= 3 && !ident })
}

pub fn oracle_perm(c: &PermCase) -> Outcome {
    if !perm_valid(&c.p) {
        return Outcome::skip("malformed-case");
    }
    let plan = match build_perm(&c.p, false) {
        Ok(p) => p,
        Err(e) => return Outcome::fail("perm-build", format!("the builder rejected an array/permutation pair: {}", e)),
    };
    let got = match run_plain(&plan, c.seed, "perm") {
        Ok(h) => h,
        Err(o) => return o,
    };
    match judge_perm(&c.p, &got) {
        Ok(i) => Outcome::pass(i.nontrivial).labels(i.labels),
        Err((sig, msg)) => Outcome::fail(sig, msg),
    }
}

fn all_perms(n: usize) -> Vec<Vec<u64>> {
    fn rec(cur: &mut Vec<u64>, used: &mut Vec<bool>, n: usize, out: &mut Vec<Vec<u64>>) {
        if cur.len() == n {
            out.push(cur.clone());
            return;
        }
        for i in 0..n {
            if !used[i] {
                used[i] = true;
                cur.push(i as u64);
                rec(cur, used, n, out);
                cur.pop();
                used[i] = false;
            }
        }
    }
    let mut out = vec![];
    rec(&mut vec![], &mut vec![false; n], n, &mut out);
    out
}

/// all permutations of 1..=5 rows x 11 data types x 4 index types (tails cycle through 3 ranks)
fn perm_items(seed: u64) -> Vec<PermCase> {
    let psts = [ScalarType::U8, ScalarType::U16, ScalarType::U32, ScalarType::U64];
    let tails: [Vec<u64>; 4] = [vec![], vec![2], vec![3, 2], vec![1]];
    let mut items = vec![];
    let mut k = 0usize;
    for n in 1..=5usize {
        for perm in all_perms(n) {
            for st in ALL_ST.iter() {
                for pst in psts.iter() {
                    let tail = tails[k % 4].clone();
                    k += 1;
                    let len = n * tail.iter().product::<u64>() as usize;
                    let mut s = seed ^ (k as u64).wrapping_mul(0x1234_5678_9ABC_DEF1);
                    let vals: Vec<u128> = (0..len)
                        .map(|_| {
                            let hi = crate::graphgen::splitmix(&mut s) as u128;
                            let lo = crate::graphgen::splitmix(&mut s) as u128;
                            ((hi << 64) | lo) & mask(*st)
                        })
                        .collect();
                    let mut sd = [0u8; 16];
                    sd[..8].copy_from_slice(&(k as u64).to_le_bytes());
                    items.push(PermCase {
                        p: PermData { n: n as u64, data: Col { st: *st, tail, vals }, pst: *pst, perm: perm.clone() },
                        seed: sd,
                    });
                }
            }
        }
    }
    items
}

// ---------------------------------------------------------------------------------------------
// oracle 4: compiled forms
// ---------------------------------------------------------------------------------------------

struct CompInfo {
    n_sends: usize,
    private: bool,
    junk_differs: bool,
    labels: Vec<String>,
}

fn private_present(cfg: &MpcCfg, n: usize) -> bool {
    (0..n).any(|i| owner_of(cfg, i) != 3)
}

/// Compiles plan.ctx under cc and checks (a) the global evaluator under two seeds, (b) the
/// three-party executor, against `want`. Err(outcome) = skip (compiler rejection/panic) or fail.
fn check_compiled(plan: &Plan, want: &HVal, cc: &CompCfg, what: &str) -> Result<CompInfo, Outcome> {
    let n_in = plan.in_types.len();
    let mut cfg = cc.cfg.clone();
    cfg.owners = (0..n_in).map(|i| if plan.force_public[i] { 3 } else { owner_of(&cc.cfg, i) }).collect();
    cfg.outs = cc.cfg.outs.iter().map(|x| x % 3).collect();
    let compiled = match compile(&plan.ctx, n_in, &cfg) {
        Compiled::Ok(m) => m.get_context(),
        Compiled::Rejected(e) => {
            return Err(Outcome::skip("compiler-rejected").label(format!("rejected:{}", e.chars().take(80).collect::<String>())))
        }
        Compiled::Panicked(p) => {
            return Err(Outcome::skip("compiler-panic").label(format!("compiler-panic:{}", p.chars().take(80).collect::<String>())))
        }
    };
    let main = compiled.get_main_graph().map_err(|e| Outcome::fail("compiled-no-main", e.to_string()))?;
    let nodes = main.get_nodes();
    let n_sends: usize = nodes.iter().map(|n| sends_of(n).len()).sum();
    let private = private_present(&cfg, n_in);
    let t3 = tuple_type(vec![plan.out_type.clone(); 3]);
    let sig = |s: &str| format!("{}-{}", what, s);

    // (a) one global evaluator, two protocol seeds
    let ginputs = global_inputs(&plan.in_types, &plan.in_vals, &cfg, cc.share_seed);
    for (k, seed) in [cc.seeds[1], cc.seeds[2]].iter().enumerate() {
        let v = match eval_graph(&main, ginputs.clone(), *seed) {
            Ran::Val(v) => v,
            Ran::Err(e) => return Err(Outcome::fail(&sig("compiled-eval-error"), format!("compiled graph failed (seed #{}): {}", k, e))),
            Ran::Panic(e) => return Err(Outcome::fail(&sig("compiled-eval-panic"), format!("compiled graph panicked (seed #{}): {}", k, e))),
        };
        if cfg.outs.is_empty() {
            match decode(&v, &t3) {
                Ok(HVal::V(sh)) => {
                    let sum = add(&add(&sh[0], &sh[1], &plan.out_type), &sh[2], &plan.out_type);
                    if &sum != want {
                        return Err(Outcome::fail(&sig("compiled-shared-sum"), format!("seed #{}: shares sum to {} want {}", k, trunc(&sum), trunc(want))));
                    }
                }
                _ => return Err(Outcome::fail(&sig("compiled-shared-type"), "shared output is not a 3-tuple of the output type".to_string())),
            }
        } else {
            match decode(&v, &plan.out_type) {
                Ok(h) => {
                    if &h != want {
                        return Err(Outcome::fail(&sig("compiled-value"), format!("seed #{}: compiled result {} want {}", k, trunc(&h), trunc(want))));
                    }
                }
                Err(e) => return Err(Outcome::fail(&sig("compiled-type"), format!("compiled result does not have the source output type: {}", e))),
            }
        }
    }

    // (b) three separate parties
    let pin = party_inputs(&plan.in_types, &plan.in_vals, &cfg, cc.share_seed, cc.junk_seed);
    let mut junk_differs = false;
    for q in 0..3 {
        for (i, v) in pin[q].iter().enumerate() {
            let o = owner_of(&cfg, i);
            if o < 3 && o as usize != q && decode(v, &plan.in_types[i]).ok().as_ref() != Some(&plan.in_vals[i]) {
                junk_differs = true;
            }
        }
    }
    let r = match run3(&main, [&pin[0], &pin[1], &pin[2]], cc.seeds) {
        Ok(r) => r,
        Err(e) => return Err(Outcome::fail(&sig("run3-setup"), e)),
    };
    if cfg.outs.is_empty() {
        let mut slots: Vec<Vec<HVal>> = vec![];
        for q in 0..3 {
            match &r.out[q] {
                Some(v) => match decode(v, &t3) {
                    Ok(HVal::V(sh)) => slots.push(sh),
                    _ => return Err(Outcome::fail(&sig("p3-shared-type"), format!("party {} output is not a 3-tuple of the output type", q))),
                },
                None => return Err(Outcome::fail(&sig("p3-underivable"), format!("party {} cannot derive its shared output: {:?}", q, r.first_failure[q]))),
            }
        }
        for i in 0..3usize {
            let prev = (i + 2) % 3;
            if slots[i][i] != slots[prev][i] {
                return Err(Outcome::fail(&sig("p3-share-inconsistent"), format!("share {} differs between party {} and party {}", i, i, prev)));
            }
        }
        let sum = add(&add(&slots[0][0], &slots[1][1], &plan.out_type), &slots[2][2], &plan.out_type);
        if &sum != want {
            return Err(Outcome::fail(&sig("p3-shared-reconstruct"), format!("shares reconstruct {} want {}", trunc(&sum), trunc(want))));
        }
    } else {
        let listed: Vec<usize> = if !private { vec![0, 1, 2] } else { cfg.outs.iter().map(|x| *x as usize).collect() };
        for q in listed {
            match &r.out[q] {
                Some(v) => match decode(v, &plan.out_type) {
                    Ok(h) => {
                        if &h != want {
                            return Err(Outcome::fail(&sig("p3-output"), format!("output party {} holds {} want {}", q, trunc(&h), trunc(want))));
                        }
                    }
                    Err(e) => return Err(Outcome::fail(&sig("p3-output-type"), format!("output party {}: {}", q, e))),
                },
                None => {
                    return Err(Outcome::fail(&sig("p3-underivable"), format!("output party {} cannot derive the result: {:?}", q, r.first_failure[q])))
                }
            }
        }
    }
    let mut owners = std::collections::BTreeSet::new();
    for i in 0..n_in {
        owners.insert(owner_of(&cfg, i));
    }
    let labels = vec![
        format!("mode:{}", mode_name(cfg.mode)),
        format!("outs:{:?}", cfg.outs),
        format!("owners:{:?}", owners),
        format!("compiled-nodes:{}", bucket(nodes.len())),
        format!("sends:{}", bucket(n_sends)),
        format!("private:{}", private),
    ];
    Ok(CompInfo { n_sends, private, junk_differs, labels })
}

pub fn oracle_comp_sort(c: &CompSortCase) -> Outcome {
    if !table_valid(&c.t) {
        return Outcome::skip("malformed-case");
    }
    let plan = match build_sort(&c.t) {
        Ok(p) => p,
        Err(e) => return Outcome::fail("sort-build", format!("the builder rejected a documented table: {}", e)),
    };
    let (want, order) = ref_sort_table(&c.t);
    // the plaintext result must be the reference (sub-check sort-plain); the compiled result is
    // then compared with that same value
    let plain = match run_plain(&plan, c.cc.seeds[0], "sort") {
        Ok(h) => h,
        Err(o) => return o,
    };
    if plain != want {
        let (sig, msg) = classify_sort(&c.t, &plain, &want);
        return Outcome::fail(sig, msg);
    }
    let info = match check_compiled(&plan, &want, &c.cc, "sort") {
        Ok(i) => i,
        Err(o) => return o,
    };
    let s = table_stats(&c.t, &order);
    let kp = c.t.key_pos as usize % (c.t.cols.len() + 1);
    let mut cfg = c.cc.cfg.clone();
    cfg.owners = (0..plan.in_types.len()).map(|i| owner_of(&c.cc.cfg, i)).collect();
    let key_owner = owner_of(&cfg, kp);
    let nt = table_nontrivial(&c.t, &s) && info.private && info.n_sends > 0;
    let radix_loops = {
        let step0 = if c.t.b % 2 == 0 { 2 } else { 1 };
        (c.t.b - step0) / 2
    };
    Outcome::pass(nt)
        .labels(s.labels)
        .labels(info.labels)
        .label(format!("key-owner:{}", ["p0", "p1", "p2", "public", "shared"][key_owner as usize]))
        .label(format!("radix-loop-iterations:{}", radix_loops))
        .label(format!("junk-differs:{}", info.junk_differs))
}

pub fn oracle_comp_perm(c: &CompPermCase) -> Outcome {
    if !perm_valid(&c.p) {
        return Outcome::skip("malformed-case");
    }
    let plan = match build_perm(&c.p, c.perm_const) {
        Ok(p) => p,
        Err(e) => return Outcome::fail("perm-build", format!("the builder rejected an array/permutation pair: {}", e)),
    };
    let plain = match run_plain(&plan, c.cc.seeds[0], "perm") {
        Ok(h) => h,
        Err(o) => return o,
    };
    let pi = match judge_perm(&c.p, &plain) {
        Ok(i) => i,
        Err((sig, msg)) => return Outcome::fail(sig, msg),
    };
    let info = match check_compiled(&plan, &plain, &c.cc, "perm") {
        Ok(i) => i,
        Err(o) => return o,
    };
    Outcome::pass(pi.nontrivial && info.private && info.n_sends > 0)
        .labels(pi.labels)
        .labels(info.labels)
        .label(format!("perm-source:{}", if c.perm_const { "constant" } else { "public-input" }))
}

pub fn oracle_comp_int(c: &CompIntCase) -> Outcome {
    if !int_valid(&c.t) {
        return Outcome::skip("malformed-case");
    }
    let plan = match build_int_sort(&c.t) {
        Ok(p) => p,
        Err(e) => return Outcome::fail("int-sort-build", format!("the builder rejected an integer-key table: {}", e)),
    };
    let plain = match run_plain(&plan, c.cc.seeds[0], "int-sort") {
        Ok(h) => h,
        Err(o) => return o,
    };
    let ii = match judge_int(&c.t, &plain) {
        Ok(i) => i,
        Err((sig, msg)) => return Outcome::fail(sig, msg),
    };
    // "returns exactly the plaintext result": the plaintext and the compiled form both sort the
    // derived bit-string key with the (stable) Sort, so the whole table must coincide
    let info = match check_compiled(&plan, &plain, &c.cc, "int-sort") {
        Ok(i) => i,
        Err(o) => return o,
    };
    Outcome::pass(c.t.keys.len() >= 3 && ii.dup && !c.t.cols.is_empty() && !ii.sorted && info.private && info.n_sends > 0)
        .labels(ii.labels)
        .labels(info.labels)
}

// ---------------------------------------------------------------------------------------------
// pinned regression cases
// ---------------------------------------------------------------------------------------------

fn pinned_tables() -> Vec<(&'static str, Table)> {
    let bits = |rows: &[&str]| -> Vec<u8> { rows.iter().flat_map(|r| r.bytes().map(|c| c - b'0')).collect() };
    vec![
        (
            "odd-width-duplicates",
            Table {
                n: 6,
                b: 3,
                key_bits: bits(&["101", "001", "101", "110", "001", "101"]),
                key_pos: 1,
                key_name: 0,
                cols: vec![
                    Col { st: ScalarType::I16, tail: vec![], vals: vec![10, 11, 12, 13, 14, 15] },
                    Col { st: ScalarType::U128, tail: vec![2], vals: (0..12u128).map(|i| (i << 100) + i).collect() },
                ],
                pattern: 1,
            },
        ),
        (
            "single-row",
            Table { n: 1, b: 5, key_bits: bits(&["10110"]), key_pos: 0, key_name: 1, cols: vec![Col { st: BIT, tail: vec![3], vals: vec![1, 0, 1] }], pattern: 0 },
        ),
        (
            "all-equal-width-7",
            Table {
                n: 5,
                b: 7,
                key_bits: bits(&["0110101", "0110101", "0110101", "0110101", "0110101"]),
                key_pos: 0,
                key_name: 2,
                cols: vec![Col { st: ScalarType::U8, tail: vec![], vals: vec![5, 4, 3, 2, 1] }],
                pattern: 2,
            },
        ),
    ]
}

fn pinned_cc(owners: Vec<u8>, outs: Vec<u8>, mode: u8) -> CompCfg {
    CompCfg { cfg: MpcCfg { owners, outs, mode, compile_seed: [7; 16] }, seeds: [[1; 16], [2; 16], [3; 16]], share_seed: 11, junk_seed: 13 }
}

// ---------------------------------------------------------------------------------------------
// entry points
// ---------------------------------------------------------------------------------------------

const INT_STS_SMALL: [ScalarType; 5] = [BIT, ScalarType::U8, ScalarType::I8, ScalarType::U16, ScalarType::I16];

pub fn run(env: &Env) {
    env.assume("reference = the harness's own insertion sort over bit-strings compared position by position, ties by input index, and its own gather/scatter; it shares no code with simple_evaluator.rs");
    env.assume("integer-key sort: stability is observed (label) but not demanded; demanded: row multiset preserved, key numerically non-decreasing");
    env.assume("apply_permutation's direction (gather vs scatter) is not documented: either convention is accepted as long as the inverse operation is the other one and both round trips restore the array");
    env.assume("compiled ApplyPermutation: the permutation operand is public (input or constant); additively shared private permutations are known finding F-C01-1 and are excluded by construction. Secret permutations in composed form are exercised inside the compiled Sort (shuffle / unshuffle)");
    env.assume("compile_context returning Err or panicking on these graphs would be counted as skip (labels rejected:/compiler-panic:), not judged; expected count is 0");
    env.note(
        "caps",
        serde_json::json!({"rows": "1..12", "key_width": "1..10", "payload_columns": "0..3", "payload_rank": "1..3", "compiled_rows": "1..8 (quick) / 1..12 (thorough)", "compiled_width": "1..7 (quick) / 1..10 (thorough)"}),
    );

    // 1. plaintext Sort
    env.campaign(
        "sort-plain",
        "Graph::sort on generated tables == reference stable sort gathered into every column",
        env.n(150_000, 3_000_000),
        || (arb_table(12, 10, 3, 9), any::<[u8; 16]>()).prop_map(|(t, seed)| SortCase { t, seed }),
        oracle_sort,
    );
    for (name, t) in pinned_tables() {
        env.pinned(&format!("sort-plain:{}", name), &SortCase { t, seed: [5; 16] }, oracle_sort);
    }

    // 2. SortByIntegerKey
    env.campaign(
        "sort-int",
        "SortByIntegerKey (all 11 key types): row multiset preserved, key column numerically non-decreasing",
        env.n(30_000, 600_000),
        || (arb_int_table(12, ALL_ST.to_vec(), 2), any::<[u8; 16]>()).prop_map(|(t, seed)| IntCase { t, seed }),
        oracle_int,
    );

    // 3. permutations
    env.enumerate(
        "perm-exhaustive",
        "every permutation of n<=5 rows x 11 data types x 4 index types: both round trips, apply/inverse = gather/scatter",
        perm_items(env.seed),
        oracle_perm,
    );
    env.campaign(
        "perm-random",
        "random permutations up to n=12 (identity, reversal, rotation, Fisher-Yates), data of any type and rank 1-3",
        env.n(60_000, 1_200_000),
        || (arb_perm_data(12), any::<[u8; 16]>()).prop_map(|(p, seed)| PermCase { p, seed }),
        oracle_perm,
    );

    // 4. compiled forms
    env.set_shrink_iters(env.pick(60, 200));
    let (cn, cb) = env.pick((8u64, 7u64), (12u64, 10u64));
    env.campaign(
        "sort-compiled",
        "compile_context(Sort) under owners x outputs x inline modes: global evaluator (2 seeds) and three-party executor == reference stable sort",
        env.n(4_000, 80_000),
        move || (arb_table(cn, cb, 2, 4), arb_comp_cfg()).prop_map(|(t, cc)| CompSortCase { t, cc }),
        oracle_comp_sort,
    );
    let pt = pinned_tables();
    env.pinned(
        "sort-compiled:odd-width-duplicates",
        &CompSortCase { t: pt[0].1.clone(), cc: pinned_cc(vec![0, 1, 2], vec![2, 0], 1) },
        oracle_comp_sort,
    );
    env.pinned(
        "sort-compiled:single-row-shared",
        &CompSortCase { t: pt[1].1.clone(), cc: pinned_cc(vec![4, 1], vec![], 0) },
        oracle_comp_sort,
    );
    env.campaign(
        "perm-compiled",
        "compile_context(ApplyPermutation / inverse, public permutation, private or public data): global evaluator and three-party executor == plaintext",
        env.n(8_000, 160_000),
        || (arb_perm_data(12), any::<bool>(), arb_comp_cfg()).prop_map(|(p, perm_const, cc)| CompPermCase { p, perm_const, cc }),
        oracle_comp_perm,
    );
    // thorough: also 32/64-bit keys (the application in applications/sort.rs), which cost ~10x more
    let mut int_sts = INT_STS_SMALL.to_vec();
    if env.tier == Tier::Thorough {
        int_sts.extend_from_slice(&[ScalarType::U32, ScalarType::I32, ScalarType::I64, ScalarType::U64]);
    }
    env.campaign(
        "int-compiled",
        "compile_context(SortByIntegerKey) for BIT/8/16-bit keys (thorough: also 32/64-bit): global evaluator and three-party executor == plaintext",
        env.n(500, 10_000),
        move || (arb_int_table(6, int_sts.clone(), 1), arb_comp_cfg()).prop_map(|(t, cc)| CompIntCase { t, cc }),
        oracle_comp_int,
    );
}

pub fn replay(check: &str, case: J) -> Outcome {
    let base = check.split(':').next().unwrap_or(check);
    match base {
        "sort-plain" => replay_with::<SortCase, _>(case, oracle_sort),
        "sort-int" => replay_with::<IntCase, _>(case, oracle_int),
        "perm-exhaustive" | "perm-random" => replay_with::<PermCase, _>(case, oracle_perm),
        "sort-compiled" => replay_with::<CompSortCase, _>(case, oracle_comp_sort),
        "perm-compiled" => replay_with::<CompPermCase, _>(case, oracle_comp_perm),
        "int-compiled" => replay_with::<CompIntCase, _>(case, oracle_comp_int),
        other => Outcome::fail("unknown-check", format!("unknown C18 sub-check {}", other)),
    }
}
