//! C01 — compiled protocol computes the same function as the source graph (global evaluator),
//! C02 — each party can run the protocol from its own data and the messages it receives (run3).
use crate::core::*;
use crate::graphgen::*;
use crate::hv::*;
use crate::mpcx::*;
use crate::walk::run3;
use ciphercore_base::custom_ops::run_instantiation_pass;
use ciphercore_base::data_types::{tuple_type, Type};
use ciphercore_base::data_values::Value;
use ciphercore_base::evaluators::simple_evaluator::SimpleEvaluator;
use ciphercore_base::evaluators::Evaluator;
use ciphercore_base::graphs::{Context, Graph};
use proptest::prelude::*;
use serde::{Deserialize, Serialize};
use serde_json::Value as J;

pub const RULE_C01: &str = "recipes of 2-14 steps over the MPC-compilable operations (arithmetic, mixed multiply, dot/matmul/gemm, sums, structural ops, containers, A2B/B2A, sort, permutation, library custom ops, Call/Iterate sub-graphs) x owner vector in {0,1,2,public,shared}^n x output-party list (any order, may be empty) x 3 inline modes x 2 evaluator seeds; \
oracle: SimpleEvaluator on the instantiated source graph vs SimpleEvaluator on compile_context's main graph (shares summed by the harness when the output stays shared); \
non-trivial = the compiled graph has >=1 Send node, the source has >=2 operation steps and >=1 of them is interactive when private (multiplication family, conversion, sort/permutation, comparison family); distinct = distinct (recipe, configuration)";
pub const RULE_C02: &str = "same recipes/configurations as C01 plus per-party junk and three independent evaluator seeds; oracle: three-party executor (each party evaluates every node on its own values, values cross only at Send(s,r) nodes): every listed output party ends with the plaintext value; shared output: slot consistency with neighbours and reconstruction; run twice with different junk/seeds; \
non-trivial = >=2 distinct owners or a shared input, >=1 interactive private operation, >=1 Send, junk differs from the true values; distinct = distinct (recipe, configuration)";

#[derive(Clone, Debug, Serialize, Deserialize)]
pub struct Case {
    pub recipe: Recipe,
    pub cfg: MpcCfg,
    pub seeds: [[u8; 16]; 3],
    pub share_seed: u64,
    pub junk_seed: u64,
    /// permutation inputs of ApplyPermutation stay public unless this is set (known finding F-C01-1)
    #[serde(default)]
    pub private_perm: bool,
}

pub const INTERACTIVE: [&str; 17] = [
    "Mul", "MixedMul", "Dot", "Matmul", "Gemm", "A2B", "B2A", "Sort", "ApplyPerm", "Cmp", "MinMax", "Mux", "Or", "BinAdd", "Clip", "Not", "Iterate",
];

pub fn arb_cfg() -> BoxedStrategy<MpcCfg> {
    (
        proptest::collection::vec(prop_oneof![3 => 0u8..3, 1 => Just(3u8), 1 => Just(4u8)], 1..5),
        proptest::sample::subsequence(vec![0u8, 1, 2], 0..=3).prop_shuffle(),
        0u8..3,
        any::<[u8; 16]>(),
    )
        .prop_map(|(owners, outs, mode, compile_seed)| MpcCfg { owners, outs, mode, compile_seed })
        .boxed()
}

pub fn arb_case(max_steps: usize) -> BoxedStrategy<Case> {
    (
        arb_recipe(mpc_kinds(), 2, max_steps, 2),
        arb_cfg(),
        any::<[[u8; 16]; 3]>(),
        any::<u64>(),
        any::<u64>(),
    )
        .prop_map(|(recipe, cfg, seeds, share_seed, junk_seed)| Case { recipe, cfg, seeds, share_seed, junk_seed, private_perm: false })
        .boxed()
}

pub struct Prepared {
    pub built: Built,
    pub in_types: Vec<Type>,
    pub in_vals: Vec<HVal>,
    pub out_type: Type,
    pub plain: HVal,
    pub compiled: Context,
    pub compiled_main: Graph,
    pub n_sends: usize,
    pub labels: Vec<String>,
    /// configuration with one explicit owner per input
    pub cfg: MpcCfg,
}

pub fn eval_plain(ctx: &Context, inputs: Vec<Value>, seed: [u8; 16]) -> Result<Result<Value, String>, String> {
    crate::util::catch(|| {
        let inst = run_instantiation_pass(ctx.clone()).map_err(|e| format!("instantiation: {}", e))?;
        let mut ev = SimpleEvaluator::new(Some(seed)).map_err(|e| e.to_string())?;
        let c = inst.get_context();
        ev.preprocess(&c).map_err(|e| e.to_string())?;
        ev.evaluate_graph(c.get_main_graph().map_err(|e| e.to_string())?, inputs)
            .map_err(|e| e.to_string())
    })
}

pub fn eval_compiled(g: &Graph, inputs: Vec<Value>, seed: [u8; 16]) -> Result<Result<Value, String>, String> {
    crate::util::catch(|| {
        let mut ev = SimpleEvaluator::new(Some(seed)).map_err(|e| e.to_string())?;
        ev.preprocess(&g.get_context()).map_err(|e| e.to_string())?;
        ev.evaluate_graph(g.clone(), inputs).map_err(|e| e.to_string())
    })
}

fn reject_class(msg: &str) -> String {
    let m = msg.to_lowercase();
    for (pat, name) in [
        ("vectorget", "private-vector-get"),
        ("index", "private-index"),
        ("truncat", "truncate"),
        ("not supported", "not-supported"),
        ("not implemented", "not-implemented"),
        ("can't be compiled", "not-compilable"),
    ] {
        if m.contains(pat) {
            return name.to_string();
        }
    }
    "other".to_string()
}

pub fn prepare(c: &Case, max_elems: u64) -> Result<Prepared, Outcome> {
    let built = match build(&c.recipe, max_elems) {
        Some(b) => b,
        None => return Err(Outcome::skip("unbuildable-recipe")),
    };
    if built.inputs.is_empty() {
        return Err(Outcome::skip("no-inputs"));
    }
    let in_types: Vec<Type> = built.inputs.iter().map(|(_, t, _)| t.clone()).collect();
    let in_vals = input_values(&c.recipe, &built.inputs, 0);
    let out_type = built.main.get_output_node().unwrap().get_type().unwrap();
    let plain_inputs: Vec<Value> = in_vals.iter().zip(in_types.iter()).map(|(v, t)| encode(v, t)).collect();
    let plain = match eval_plain(&built.context, plain_inputs, c.seeds[0]) {
        Ok(Ok(v)) => v,
        Ok(Err(_)) => return Err(Outcome::skip("plain-runtime-error")),
        Err(_) => return Err(Outcome::skip("plain-panic")),
    };
    let plain = match decode(&plain, &out_type) {
        Ok(h) => h,
        Err(_) => return Err(Outcome::skip("plain-type-mismatch")),
    };
    let mut cfg = c.cfg.clone();
    cfg.owners = (0..in_types.len())
        .map(|i| if built.inputs[i].2 == InKind::Perm && !c.private_perm { 3 } else { owner_of(&c.cfg, i) })
        .collect();
    let compiled = match compile(&built.context, in_types.len(), &cfg) {
        Compiled::Ok(m) => m.get_context(),
        Compiled::Rejected(e) => return Err(Outcome::skip("compiler-rejected").label(format!("rejected:{}", reject_class(&e)))),
        Compiled::Panicked(p) => {
            return Err(Outcome::skip("compiler-panic").label(format!("compiler-panic:{}", p.chars().take(80).collect::<String>())))
        }
    };
    let compiled_main = compiled.get_main_graph().unwrap();
    let n_sends = compiled_main.get_nodes().iter().map(|n| crate::walk::sends_of(n).len()).sum();
    let mut labels = vec![
        format!("mode:{}", mode_name(c.cfg.mode)),
        format!("outs:{}", c.cfg.outs.len()),
        format!("compiled-nodes:{}", bucket(compiled_main.get_nodes().len())),
        format!("applied-ops:{}", built.n_ops.min(12)),
        format!("sends:{}", bucket(n_sends)),
    ];
    let mut owners_seen = std::collections::BTreeSet::new();
    for i in 0..in_types.len() {
        owners_seen.insert(owner_of(&cfg, i));
    }
    labels.push(format!("owners:{:?}", owners_seen));
    let mut kinds: Vec<&String> = built.applied.iter().collect();
    kinds.sort();
    kinds.dedup();
    for k in kinds {
        labels.push(format!("op:{}", k));
    }
    Ok(Prepared { built, in_types, in_vals, out_type, plain, compiled, compiled_main, n_sends, labels, cfg })
}

pub fn bucket(n: usize) -> &'static str {
    match n {
        0..=49 => "<50",
        50..=199 => "50-199",
        200..=999 => "200-999",
        1000..=4999 => "1k-5k",
        _ => ">=5k",
    }
}

fn has_interactive(built: &Built) -> bool {
    built.applied.iter().any(|k| INTERACTIVE.contains(&k.as_str()))
}

fn private_present(cfg: &MpcCfg, n: usize) -> bool {
    (0..n).any(|i| owner_of(cfg, i) != 3)
}

/// compares a compiled result (global evaluator or one party's view) with the plaintext value
fn check_revealed(v: &Value, t: &Type, plain: &HVal) -> Result<(), String> {
    match decode(v, t) {
        Ok(h) => {
            if &h == plain {
                Ok(())
            } else {
                Err(format!("value differs: got {:?} want {:?}", trunc(&h), trunc(plain)))
            }
        }
        Err(e) => Err(format!("result does not have the source output type {}: {}", t, e)),
    }
}

fn trunc(h: &HVal) -> String {
    let s = format!("{:?}", h);
    s.chars().take(300).collect()
}

pub fn oracle_c01(c: &Case) -> Outcome {
    mark_private_perm(c, oracle_c01_inner(c))
}

/// failures of cases whose source graph applies a private (additively shared) permutation carry
/// the signature of known finding F-C01-1. The generators never build such a graph (permutation
/// operands are public unless the pinned case asks otherwise); the structural test keeps the
/// finding identified by its call site rather than by the route that produced the graph
fn mark_private_perm(c: &Case, mut o: Outcome) -> Outcome {
    if o.is_fail() && applies_private_permutation(c) {
        o.sig = "apply-perm-additively-shared-permutation".to_string();
    }
    o
}

fn applies_private_permutation(c: &Case) -> bool {
    use ciphercore_base::graphs::Operation;
    let built = match build(&c.recipe, 64) {
        Some(b) => b,
        None => return false,
    };
    let mut private: std::collections::HashSet<u64> = std::collections::HashSet::new();
    for (i, (n, _, kind)) in built.inputs.iter().enumerate() {
        let owner = if *kind == InKind::Perm && !c.private_perm { 3 } else { owner_of(&c.cfg, i) };
        if owner != 3 {
            private.insert(n.get_id());
        }
    }
    for n in built.main.get_nodes() {
        let deps = n.get_node_dependencies();
        if matches!(n.get_operation(), Operation::Random(_) | Operation::RandomPermutation(_)) || deps.iter().any(|d| private.contains(&d.get_id())) {
            private.insert(n.get_id());
        }
        if matches!(n.get_operation(), Operation::ApplyPermutation(_)) && private.contains(&deps[1].get_id()) {
            return true;
        }
    }
    false
}

pub fn pinned_private_perm() -> Case {
    let st = |k: K, a: u16, p: [u16; 4]| Step { k, a, b: 0, c: 0, p };
    Case {
        recipe: Recipe {
            subs: vec![],
            // UINT8 array [3]; ApplyPermutation with a fresh private UINT64 permutation input
            steps: vec![st(K::Input, 0, [2, 1, 2, 0]), st(K::ApplyPerm, 0, [1, 0, 0, 0])],
            out: 0,
            vals: vec![(7, 5), (7, 3), (7, 9), (7, 1), (7, 7), (7, 2), (7, 8), (7, 4)],
        },
        cfg: MpcCfg { owners: vec![1, 2], outs: vec![2], mode: 0, compile_seed: [1; 16] },
        seeds: [[1; 16], [2; 16], [3; 16]],
        share_seed: 7,
        junk_seed: 9,
        private_perm: true,
    }
}

fn oracle_c01_inner(c: &Case) -> Outcome {
    let p = match prepare(c, 64) {
        Ok(p) => p,
        Err(o) => return o,
    };
    let inputs = global_inputs(&p.in_types, &p.in_vals, &p.cfg, c.share_seed);
    for (k, seed) in [c.seeds[1], c.seeds[2]].iter().enumerate() {
        let r = eval_compiled(&p.compiled_main, inputs.clone(), *seed);
        let v = match r {
            Ok(Ok(v)) => v,
            Ok(Err(e)) => return Outcome::fail("compiled-eval-error", format!("compiled graph failed (seed #{}): {}", k, e)),
            Err(pm) => return Outcome::fail("compiled-eval-panic", format!("compiled graph panicked (seed #{}): {}", k, pm)),
        };
        if c.cfg.outs.is_empty() {
            let t3 = tuple_type(vec![p.out_type.clone(); 3]);
            match decode(&v, &t3) {
                Ok(HVal::V(sh)) => {
                    let sum = add(&add(&sh[0], &sh[1], &p.out_type), &sh[2], &p.out_type);
                    if sum != p.plain {
                        return Outcome::fail("shared-output-sum", format!("shares sum to {} want {}", trunc(&sum), trunc(&p.plain)));
                    }
                }
                Ok(_) => unreachable!(),
                Err(e) => return Outcome::fail("shared-output-type", format!("shared output is not a 3-tuple of the output type: {}", e)),
            }
        } else if let Err(e) = check_revealed(&v, &p.out_type, &p.plain) {
            return Outcome::fail("revealed-output", format!("seed #{}: {}", k, e));
        }
    }
    let nt = p.n_sends > 0 && p.built.n_ops >= 2 && has_interactive(&p.built) && private_present(&p.cfg, p.in_types.len());
    Outcome::pass(nt).labels(p.labels)
}

pub fn oracle_c02(c: &Case) -> Outcome {
    mark_private_perm(c, oracle_c02_inner(c))
}

fn oracle_c02_inner(c: &Case) -> Outcome {
    let p = match prepare(c, 64) {
        Ok(p) => p,
        Err(o) => return o,
    };
    let mut junk_differs = false;
    for round in 0..2u64 {
        let pin = party_inputs(&p.in_types, &p.in_vals, &p.cfg, c.share_seed, c.junk_seed ^ (round * 0x5555_AAAA_1234));
        for q in 0..3 {
            for (i, v) in pin[q].iter().enumerate() {
                let o = owner_of(&p.cfg, i);
                if o < 3 && o as usize != q {
                    if decode(v, &p.in_types[i]).ok().as_ref() != Some(&p.in_vals[i]) {
                        junk_differs = true;
                    }
                }
            }
        }
        let mut seeds = [c.seeds[0], c.seeds[1], c.seeds[2]];
        for s in seeds.iter_mut() {
            s[0] ^= round as u8 * 0x5A;
        }
        let r = match run3(&p.compiled_main, [&pin[0], &pin[1], &pin[2]], seeds) {
            Ok(r) => r,
            Err(e) => return Outcome::fail("run3-setup", e),
        };
        let public_only = !private_present(&p.cfg, p.in_types.len());
        if c.cfg.outs.is_empty() {
            // shared output: party i holds slots i and i+1
            let t3 = tuple_type(vec![p.out_type.clone(); 3]);
            let mut slots: Vec<Vec<HVal>> = vec![];
            for q in 0..3 {
                match &r.out[q] {
                    Some(v) => match decode(v, &t3) {
                        Ok(HVal::V(sh)) => slots.push(sh),
                        _ => return Outcome::fail("p3-shared-type", format!("party {} output is not a 3-tuple of the output type", q)),
                    },
                    None => {
                        return Outcome::fail(
                            "p3-underivable",
                            format!("party {} cannot derive its shared output: {:?}", q, r.first_failure[q]),
                        )
                    }
                }
            }
            for i in 0..3usize {
                let prev = (i + 2) % 3;
                if slots[i][i] != slots[prev][i] {
                    return Outcome::fail("p3-share-inconsistent", format!("share {} differs between party {} and party {}", i, i, prev));
                }
            }
            let sum = add(&add(&slots[0][0], &slots[1][1], &p.out_type), &slots[2][2], &p.out_type);
            if sum != p.plain {
                return Outcome::fail("p3-shared-reconstruct", format!("shares reconstruct {} want {}", trunc(&sum), trunc(&p.plain)));
            }
        } else {
            let listed: Vec<usize> = if public_only { vec![0, 1, 2] } else { c.cfg.outs.iter().map(|x| (*x % 3) as usize).collect() };
            for q in listed {
                match &r.out[q] {
                    Some(v) => {
                        if let Err(e) = check_revealed(v, &p.out_type, &p.plain) {
                            return Outcome::fail("p3-output", format!("round {} output party {}: {}", round, q, e));
                        }
                    }
                    None => {
                        return Outcome::fail(
                            "p3-underivable",
                            format!("round {} output party {} cannot derive the result: {:?}", round, q, r.first_failure[q]),
                        )
                    }
                }
            }
        }
    }
    let mut owners = std::collections::BTreeSet::new();
    let mut shared = false;
    for i in 0..p.in_types.len() {
        let o = owner_of(&p.cfg, i);
        if o < 3 {
            owners.insert(o);
        }
        if o == 4 {
            shared = true;
        }
    }
    let nt = (owners.len() >= 2 || shared) && has_interactive(&p.built) && p.n_sends > 0 && (junk_differs || shared);
    Outcome::pass(nt).labels(p.labels)
}

pub fn run_c01(env: &Env) {
    env.assume("compile_context returning Err is a rejection (counted, not judged); a panic inside compile_context is counted as compiler_panic and not judged by C01");
    env.assume("plaintext reference = SimpleEvaluator on run_instantiation_pass(source) with native Call/Iterate");
    let steps = env.pick(12, 22);
    env.set_shrink_iters(400);
    env.campaign("compiled-vs-plain", RULE_C01, env.n(40_000, 400_000), move || arb_case(steps), oracle_c01);
    env.pinned("private-permutation", &pinned_private_perm(), oracle_c01);
}

pub fn run_c02(env: &Env) {
    env.assume("execution model of reference/runtime.md: every party supplies a value for every input (junk where it owns nothing); a value crosses parties only at a node annotated Send(s,r)");
    env.assume("a party whose local evaluation of a node on junk fails simply does not know that value; it is a violation only if a listed output party's result (or a value it is sent) depends on it");
    let steps = env.pick(12, 22);
    env.set_shrink_iters(400);
    env.campaign("three-party", RULE_C02, env.n(25_000, 250_000), move || arb_case(steps), oracle_c02);
    env.pinned("private-permutation", &pinned_private_perm(), oracle_c02);
}

pub fn replay_c01(_check: &str, case: J) -> Outcome {
    replay_with::<Case, _>(case, oracle_c01)
}
pub fn replay_c02(_check: &str, case: J) -> Outcome {
    replay_with::<Case, _>(case, oracle_c02)
}
