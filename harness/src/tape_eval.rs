//! Tape evaluator (DESIGN §2.5): an `Evaluator` wrapping `SimpleEvaluator` in which every
//! *randomising* node (Random, RandomPermutation, CuckooToPermutation, DecomposeSwitchingMap) is
//! evaluated by a FRESH `SimpleEvaluator` seeded from `H(tape seed, identity of the node)`. The
//! identity of a node of an untransformed graph is its own `(graph id, node id)`; the identity of a
//! node of a transformed graph is the identity of its pre-image under the pass's node mapping
//! (supplied by the caller as a table). "The same random draws" on both sides of a transformation
//! then has a precise meaning that does not depend on the order in which the stock evaluator
//! consumes its shared PRNG (which changes whenever a pass drops or reorders a node).
//!
//! PRF / PermutationFromPRF nodes are pure functions of (key value, counter, type); they are
//! evaluated by a fresh `SimpleEvaluator` as well so that no per-key state is shared between nodes
//! (the value of a PRF node then cannot depend on which other PRF nodes were evaluated before it).
use ciphercore_base::data_values::Value;
use ciphercore_base::errors::Result;
use ciphercore_base::evaluators::simple_evaluator::SimpleEvaluator;
use ciphercore_base::evaluators::Evaluator;
use ciphercore_base::graphs::{Context, Node, Operation};
use std::collections::HashMap;

pub type NodeId = (u64, u64);

/// error raised by the tape evaluator itself (converted into a ciphercore `Error`)
#[derive(Debug)]
pub struct TapeError(pub String);
impl std::fmt::Display for TapeError {
    fn fmt(&self, f: &mut std::fmt::Formatter<'_>) -> std::fmt::Result {
        write!(f, "{}", self.0)
    }
}
impl std::error::Error for TapeError {}

pub const NO_PREIMAGE: &str = "tape_eval: randomising node without pre-image";

pub fn is_randomizing(op: &Operation) -> bool {
    matches!(
        op,
        Operation::Random(_) | Operation::RandomPermutation(_) | Operation::CuckooToPermutation | Operation::DecomposeSwitchingMap(_)
    )
}

fn mix(mut z: u64) -> u64 {
    z = z.wrapping_add(0x9E37_79B9_7F4A_7C15);
    z = (z ^ (z >> 30)).wrapping_mul(0xBF58_476D_1CE4_E5B9);
    z = (z ^ (z >> 27)).wrapping_mul(0x94D0_49BB_1331_11EB);
    z ^ (z >> 31)
}

/// H(tape seed, identity): 16 bytes; every byte of the result depends on every input word.
pub fn node_seed(tape: &[u8; 16], id: NodeId) -> [u8; 16] {
    let t0 = u64::from_le_bytes(tape[0..8].try_into().unwrap());
    let t1 = u64::from_le_bytes(tape[8..16].try_into().unwrap());
    let mut a = mix(t0 ^ 0x7461_7065_5f65_7661);
    a = mix(a ^ t1.rotate_left(29));
    a = mix(a ^ id.0.wrapping_mul(0xD6E8_FEB8_6659_FD93));
    a = mix(a ^ id.1.wrapping_mul(0xA076_1D64_78BD_642F));
    let b = mix(a ^ t1 ^ 0x1234_5678_9ABC_DEF1);
    let mut out = [0u8; 16];
    out[0..8].copy_from_slice(&a.to_le_bytes());
    out[8..16].copy_from_slice(&b.to_le_bytes());
    out
}

pub struct TapeEvaluator {
    inner: SimpleEvaluator,
    tape: [u8; 16],
    /// `Some(table)`: identity of the randomising node with global id `k` is `table[k]`; a
    /// randomising node that is not in the table has no pre-image and cannot be evaluated (Err).
    /// `None`: every node is its own identity.
    ident: Option<HashMap<NodeId, NodeId>>,
    /// identities of the randomising nodes evaluated so far, in evaluation order
    pub drawn: Vec<NodeId>,
}

impl TapeEvaluator {
    /// evaluator for an untransformed context (identity = own global id)
    pub fn new(tape: [u8; 16]) -> Result<Self> {
        Ok(TapeEvaluator { inner: SimpleEvaluator::new(Some(tape))?, tape, ident: None, drawn: vec![] })
    }

    /// evaluator for a transformed context: `ident` maps the global id of each randomising node of
    /// the transformed context to the global id of its pre-image
    pub fn with_identities(tape: [u8; 16], ident: HashMap<NodeId, NodeId>) -> Result<Self> {
        Ok(TapeEvaluator { inner: SimpleEvaluator::new(Some(tape))?, tape, ident: Some(ident), drawn: vec![] })
    }

    fn identity(&self, node: &Node) -> Result<NodeId> {
        let gid = node.get_global_id();
        match &self.ident {
            None => Ok(gid),
            Some(t) => t
                .get(&gid)
                .copied()
                .ok_or_else(|| TapeError(format!("{}: {:?} ({})", NO_PREIMAGE, gid, node.get_operation())).into()),
        }
    }
}

impl Evaluator for TapeEvaluator {
    fn preprocess(&mut self, context: &Context) -> Result<()> {
        self.inner.preprocess(context)
    }

    fn evaluate_node(&mut self, node: Node, dependencies_values: Vec<Value>) -> Result<Value> {
        let op = node.get_operation();
        if is_randomizing(&op) {
            let id = self.identity(&node)?;
            self.drawn.push(id);
            let mut fresh = SimpleEvaluator::new(Some(node_seed(&self.tape, id)))?;
            fresh.evaluate_node(node, dependencies_values)
        } else if op.is_prf_operation() {
            let mut fresh = SimpleEvaluator::new(Some(self.tape))?;
            fresh.evaluate_node(node, dependencies_values)
        } else {
            self.inner.evaluate_node(node, dependencies_values)
        }
    }
}
