//! C17 — bit-level arithmetic helpers are exact: BinaryAdd, Mux, Clip2K, LongDivision.
//!
//! Every case is plain data (widths, flags, batch shapes, operand words). The interpreter builds a
//! one-op graph (bits in, bits out; optionally wrapped in A2B/B2A), instantiates it with
//! `run_instantiation_pass`, evaluates it with a seeded `SimpleEvaluator`, decodes the result with
//! the harness's own decoder and compares it with native integer arithmetic on u128 words.
use crate::core::*;
use crate::hv::*;
use crate::util::catch;
use ciphercore_base::custom_ops::{run_instantiation_pass, CustomOperation};
use ciphercore_base::data_types::{array_type, scalar_type, ScalarType, Type, BIT};
use ciphercore_base::evaluators::evaluate_simple_evaluator;
use ciphercore_base::graphs::util::simple_context;
use ciphercore_base::graphs::{Graph, Node};
use ciphercore_base::ops::adder::BinaryAdd;
use ciphercore_base::ops::clip::Clip2K;
use ciphercore_base::ops::long_division::LongDivision;
use ciphercore_base::ops::multiplexer::Mux;
use proptest::prelude::*;
use serde::{Deserialize, Serialize};
use serde_json::Value as J;

pub const RULE: &str = "one custom op per case (BinaryAdd w in {1,2,4,..,128} with/without overflow bit; Mux with operands of every scalar type; \
Clip2K w in 2..128, every k<=w-2; LongDivision widths {2,..,128}^2 signed/unsigned, divisor != 0), broadcastable batch shapes, boundary-heavy operand words, \
exhaustive operand pairs for small widths; oracle = native integer arithmetic on u128 words. \
non-trivial: adder = some pair has a run of >= max(1,w/2) consecutive carries; mux = selector takes both values; \
clip = inputs in all three regions (x<0, 0<=x<2^k, x>=2^k); division = some element has a non-zero remainder (sign combinations in labels); distinct = distinct generated case";

const SEED: [u8; 16] = [0x17; 16];

// ---------------------------------------------------------------------------------------------
// helpers: words <-> bits, broadcasting, graph runner

fn to_bits(xs: &[u128], w: u32) -> Vec<u128> {
    let mut out = Vec::with_capacity(xs.len() * w as usize);
    for x in xs {
        for j in 0..w {
            out.push((x >> j) & 1);
        }
    }
    out
}

fn from_bits(bs: &[u128], w: u32) -> Vec<u128> {
    bs.chunks(w as usize)
        .map(|c| c.iter().enumerate().fold(0u128, |acc, (j, b)| acc | ((b & 1) << j)))
        .collect()
}

/// two's-complement value of a w-bit word
fn sext(x: u128, w: u32) -> i128 {
    if w == 128 {
        x as i128
    } else if (x >> (w - 1)) & 1 == 1 {
        (x | !mask_bits(w)) as i128
    } else {
        x as i128
    }
}

fn int_st(w: u32, signed: bool) -> Option<ScalarType> {
    Some(match (w, signed) {
        (8, false) => ScalarType::U8,
        (8, true) => ScalarType::I8,
        (16, false) => ScalarType::U16,
        (16, true) => ScalarType::I16,
        (32, false) => ScalarType::U32,
        (32, true) => ScalarType::I32,
        (64, false) => ScalarType::U64,
        (64, true) => ScalarType::I64,
        (128, false) => ScalarType::U128,
        (128, true) => ScalarType::I128,
        _ => return None,
    })
}

/// NumPy broadcasting of two shapes (harness's own implementation)
fn bcast(a: &[u64], b: &[u64]) -> Option<Vec<u64>> {
    let r = a.len().max(b.len());
    let mut out = vec![0u64; r];
    for i in 0..r {
        let da = if i < r - a.len() { 1 } else { a[i - (r - a.len())] };
        let db = if i < r - b.len() { 1 } else { b[i - (r - b.len())] };
        out[i] = if da == db || db == 1 {
            da
        } else if da == 1 {
            db
        } else {
            return None;
        };
    }
    Some(out)
}

/// flat (row-major) index into an operand of shape `src` for the flat index `flat` of the
/// broadcast result of shape `out`
fn src_index(out: &[u64], flat: usize, src: &[u64]) -> usize {
    let r = out.len();
    let mut idx = vec![0u64; r];
    let mut rem = flat as u64;
    for i in (0..r).rev() {
        idx[i] = rem % out[i];
        rem /= out[i];
    }
    let off = r - src.len();
    let mut f = 0u64;
    for (i, d) in src.iter().enumerate() {
        let x = if *d == 1 { 0 } else { idx[off + i] };
        f = f * d + x;
    }
    f as usize
}

fn with_last(shape: &[u64], w: u32) -> Vec<u64> {
    let mut s = shape.to_vec();
    s.push(w as u64);
    s
}

fn leaf_of(shape: &[u64], st: ScalarType) -> Type {
    if shape.is_empty() {
        scalar_type(st)
    } else {
        array_type(shape.to_vec(), st)
    }
}

/// operand of `n` w-bit words with batch shape `shape`: as a bit array [shape.., w], or (wrap) as an
/// integer scalar/array of the scalar type of that width followed by A2B inside the graph
fn operand(shape: &[u64], w: u32, wrap: Option<ScalarType>, xs: &[u128]) -> (Type, HVal) {
    match wrap {
        Some(st) => (leaf_of(shape, st), HVal::A(xs.to_vec())),
        None => (array_type(with_last(shape, w), BIT), HVal::A(to_bits(xs, w))),
    }
}

/// stage-tagged failure of the build/instantiate/evaluate pipeline
struct RunErr {
    stage: &'static str,
    msg: String,
}

fn run_graph<F>(inputs: &[(Type, HVal)], build: F) -> Result<(Type, HVal), RunErr>
where
    F: FnOnce(&Graph, Vec<Node>) -> ciphercore_base::errors::Result<Node>,
{
    let types: Vec<Type> = inputs.iter().map(|x| x.0.clone()).collect();
    let built = catch(|| {
        simple_context(|g| {
            let mut nodes = vec![];
            for t in &types {
                nodes.push(g.input(t.clone())?);
            }
            build(g, nodes)
        })
    });
    let c = match built {
        Ok(Ok(c)) => c,
        Ok(Err(e)) => return Err(RunErr { stage: "build", msg: format!("{}", e) }),
        Err(p) => return Err(RunErr { stage: "build-panic", msg: p }),
    };
    let inst = match catch(|| run_instantiation_pass(c)) {
        Ok(Ok(m)) => m.get_context(),
        Ok(Err(e)) => return Err(RunErr { stage: "instantiate", msg: format!("{}", e) }),
        Err(p) => return Err(RunErr { stage: "instantiate-panic", msg: p }),
    };
    let g = match inst.get_main_graph() {
        Ok(g) => g,
        Err(e) => return Err(RunErr { stage: "instantiate", msg: format!("{}", e) }),
    };
    let out_t = match g.get_output_node().and_then(|n| n.get_type()) {
        Ok(t) => t,
        Err(e) => return Err(RunErr { stage: "instantiate", msg: format!("{}", e) }),
    };
    let values = inputs.iter().map(|(t, v)| encode(v, t)).collect();
    let res = match catch(|| evaluate_simple_evaluator(g, values, Some(SEED))) {
        Ok(Ok(v)) => v,
        Ok(Err(e)) => return Err(RunErr { stage: "evaluate", msg: format!("{}", e) }),
        Err(p) => return Err(RunErr { stage: "evaluate-panic", msg: p }),
    };
    match decode(&res, &out_t) {
        Ok(hv) => Ok((out_t, hv)),
        Err(e) => Err(RunErr { stage: "decode", msg: format!("result does not have the layout of its type {}: {}", out_t, e) }),
    }
}

fn run_fail(op: &str, e: RunErr) -> Outcome {
    Outcome::fail(&format!("{}-{}", op, e.stage), format!("{} failed at stage {}: {}", op, e.stage, e.msg))
}

/// words of a result leaf: bits grouped by w (unwrapped) or the integers themselves (wrapped)
fn result_words(t: &Type, v: &HVal, w: u32, wrapped: bool) -> Result<(Vec<u64>, Vec<u128>), String> {
    let xs = match v {
        HVal::A(xs) => xs,
        _ => return Err(format!("expected a leaf, got container for type {}", t)),
    };
    if !is_leaf(t) {
        return Err(format!("expected a leaf type, got {}", t));
    }
    let shape = leaf_shape(t);
    if wrapped {
        Ok((shape, xs.clone()))
    } else {
        if leaf_st(t) != BIT {
            return Err(format!("expected a bit array, got {}", t));
        }
        if shape.last() != Some(&(w as u64)) {
            return Err(format!("expected last dimension {} in {}", w, t));
        }
        Ok((shape[..shape.len() - 1].to_vec(), from_bits(xs, w)))
    }
}

fn bcast_label(out: &[u64], a: &[u64], b: &[u64]) -> &'static str {
    match (a == out, b == out) {
        (true, true) => "bcast:none",
        (true, false) => "bcast:second",
        (false, true) => "bcast:first",
        (false, false) => "bcast:both",
    }
}

fn nelems(s: &[u64]) -> usize {
    s.iter().product::<u64>() as usize
}

// ---------------------------------------------------------------------------------------------
// generators shared by the four helpers

fn arb_word(w: u32) -> BoxedStrategy<u128> {
    let m = mask_bits(w);
    if w == 1 {
        return (0u128..2).boxed();
    }
    prop_oneof![
        2 => Just(0u128),
        2 => Just(1u128),
        3 => Just(m),                                   // -1 / all ones
        2 => Just(1u128 << (w - 1)),                    // signed min / top bit
        2 => Just((1u128 << (w - 1)) - 1),              // signed max
        1 => Just(m - 1),                               // -2
        1 => Just((1u128 << (w - 1)) + 1),              // min + 1
        3 => (0..w).prop_map(|k| 1u128 << k),
        2 => (0..w).prop_map(move |k| ((1u128 << k) + 1) & m),
        2 => (1..=w).prop_map(mask_bits),               // 2^k - 1
        2 => (0..w).prop_map(move |k| (1u128 << k).wrapping_neg() & m), // -2^k
        2 => (0u128..20).prop_map(move |x| x & m),
        2 => (0u128..20).prop_map(move |x| x.wrapping_neg() & m),
        8 => any::<u128>().prop_map(move |x| x & m),
    ]
    .boxed()
}

fn derive_shape(out: &[u64], drop: usize, ones: u8) -> Vec<u64> {
    let d = drop.min(out.len());
    let mut s = out[d..].to_vec();
    for (i, x) in s.iter_mut().enumerate() {
        if (ones >> i) & 1 == 1 {
            *x = 1;
        }
    }
    s
}

fn arb_out_shape() -> BoxedStrategy<Vec<u64>> {
    proptest::collection::vec(prop_oneof![1 => Just(1u64), 4 => 1u64..=3], 0..=3).boxed()
}

/// (drop, ones-mask) of an operand relative to the full batch shape; 40% identical
fn arb_derive() -> BoxedStrategy<(usize, u8)> {
    prop_oneof![
        4 => Just((0usize, 0u8)),
        3 => (0usize..=3, 0u8..8),
        2 => (0usize..=1, 0u8..8),
        1 => Just((3usize, 0u8)),
    ]
    .boxed()
}

/// two broadcast-compatible batch shapes
fn arb_two_shapes() -> BoxedStrategy<(Vec<u64>, Vec<u64>)> {
    (arb_out_shape(), arb_derive(), arb_derive())
        .prop_map(|(o, a, b)| (derive_shape(&o, a.0, a.1), derive_shape(&o, b.0, b.1)))
        .boxed()
}

// ---------------------------------------------------------------------------------------------
// BinaryAdd

#[derive(Clone, Debug, Serialize, Deserialize)]
pub struct AddCase {
    pub w: u32,
    pub overflow: bool,
    /// inputs are integers of the unsigned scalar type of width w, converted with A2B; sum converted with B2A
    pub wrap: bool,
    pub sa: Vec<u64>,
    pub sb: Vec<u64>,
    pub a: Vec<u128>,
    pub b: Vec<u128>,
}

/// longest run of consecutive carries (carry out of bit i, i = 0..w-1) of a + b
fn carry_run(a: u128, b: u128, w: u32) -> u32 {
    let (mut c, mut run, mut best) = (0u128, 0u32, 0u32);
    for i in 0..w {
        let (x, y) = ((a >> i) & 1, (b >> i) & 1);
        c = (x & y) | (x & c) | (y & c);
        if c == 1 {
            run += 1;
            best = best.max(run);
        } else {
            run = 0;
        }
    }
    best
}

pub fn oracle_add(c: &AddCase) -> Outcome {
    let w = c.w;
    let m = mask_bits(w);
    let out = match bcast(&c.sa, &c.sb) {
        Some(o) => o,
        None => return Outcome::skip("case-not-broadcastable"),
    };
    let wrap = if c.wrap { int_st(w, false) } else { None };
    let inputs = vec![operand(&c.sa, w, wrap, &c.a), operand(&c.sb, w, wrap, &c.b)];
    let overflow = c.overflow;
    let res = run_graph(&inputs, |g, n| {
        let (x, y) = match wrap {
            Some(_) => (n[0].a2b()?, n[1].a2b()?),
            None => (n[0].clone(), n[1].clone()),
        };
        let o = g.custom_op(CustomOperation::new(BinaryAdd { overflow_bit: overflow }), vec![x, y])?;
        match (wrap, overflow) {
            (None, _) => Ok(o),
            (Some(st), false) => o.b2a(st),
            (Some(st), true) => g.create_tuple(vec![o.tuple_get(0)?.b2a(st)?, o.tuple_get(1)?]),
        }
    });
    let (t, v) = match res {
        Ok(x) => x,
        Err(e) => return run_fail("add", e),
    };
    let (sum_t, sum_v, ov) = if overflow {
        match (&t, &v) {
            (Type::Tuple(ts), HVal::V(vs)) if ts.len() == 2 => ((*ts[0]).clone(), vs[0].clone(), Some(vs[1].clone())),
            _ => return Outcome::fail("add-shape", format!("overflow_bit=true must return a (sum, overflow) tuple, got {}", t)),
        }
    } else {
        (t.clone(), v.clone(), None)
    };
    let (got_shape, got) = match result_words(&sum_t, &sum_v, w, wrap.is_some()) {
        Ok(x) => x,
        Err(e) => return Outcome::fail("add-shape", e),
    };
    if got_shape != out {
        return Outcome::fail("add-shape", format!("sum has batch shape {:?}, broadcast of {:?} and {:?} is {:?}", got_shape, c.sa, c.sb, out));
    }
    let n = nelems(&out);
    let ovs: Option<Vec<u128>> = match &ov {
        Some(HVal::A(x)) => Some(x.clone()),
        Some(_) => return Outcome::fail("add-shape", "overflow component is not a leaf".into()),
        None => None,
    };
    if let Some(o) = &ovs {
        if o.len() != n {
            return Outcome::fail("add-shape", format!("overflow component has {} elements for {} sums", o.len(), n));
        }
    }
    let (mut long_chain, mut any_carry_out) = (false, false);
    for i in 0..n {
        let a = c.a[src_index(&out, i, &c.sa)] & m;
        let b = c.b[src_index(&out, i, &c.sb)] & m;
        let (want, carry) = if w == 128 {
            let (s, o) = a.overflowing_add(b);
            (s, o as u128)
        } else {
            ((a + b) & m, (a + b) >> w)
        };
        if got[i] != want {
            return Outcome::fail("add-sum", format!("w={} overflow_bit={}: {} + {} -> {} expected {} (element {})", w, overflow, a, b, got[i], want, i));
        }
        if let Some(o) = &ovs {
            if o[i] != carry {
                return Outcome::fail("add-carry", format!("w={}: {} + {} -> carry-out {} expected {} (element {})", w, a, b, o[i], carry, i));
            }
        }
        long_chain |= carry_run(a, b, w) >= (w / 2).max(1);
        any_carry_out |= carry == 1;
    }
    let mut o = Outcome::pass(long_chain)
        .label(format!("w:{}", w))
        .label(format!("overflow_bit:{}", overflow))
        .label(if c.wrap { "io:a2b/b2a" } else { "io:bits" })
        .label(bcast_label(&out, &c.sa, &c.sb))
        .label(if long_chain { "chain:>=w/2" } else { "chain:short" });
    if any_carry_out {
        o = o.label("carry-out:1");
    }
    o
}

const ADD_WIDTHS: [u32; 8] = [1, 2, 4, 8, 16, 32, 64, 128];

fn arb_add_case() -> BoxedStrategy<AddCase> {
    (proptest::sample::select(ADD_WIDTHS.to_vec()), any::<bool>(), arb_two_shapes(), 0u8..5)
        .prop_flat_map(|(w, overflow, (sa, sb), wr)| {
            let (na, nb) = (nelems(&sa), nelems(&sb));
            let m = mask_bits(w);
            (
                proptest::collection::vec(arb_word(w), na),
                proptest::collection::vec((arb_word(w), 0u8..10), nb),
            )
                .prop_map(move |(a, braw)| {
                    // second operand: independent, or tied to the first so that carries run far
                    let b = braw
                        .iter()
                        .enumerate()
                        .map(|(j, (x, mode))| {
                            let p = a[j % a.len()];
                            match mode {
                                0..=4 => *x,
                                5 => !p & m,                  // a + ~a = all ones (no carry at all)
                                6 => (!p).wrapping_add(1) & m, // a + (-a) = 2^w (carry through the word)
                                7 => m,
                                8 => p,
                                _ => (!p).wrapping_add(2) & m,
                            }
                        })
                        .collect();
                    AddCase {
                        w,
                        overflow,
                        wrap: wr == 0 && int_st(w, false).is_some(),
                        sa: sa.clone(),
                        sb: sb.clone(),
                        a,
                        b,
                    }
                })
        })
        .boxed()
}

fn corner_words(w: u32) -> Vec<u128> {
    let m = mask_bits(w);
    let mut v = vec![0, 1, 2, 3, m, m.wrapping_sub(1), m.wrapping_sub(2)];
    if w >= 2 {
        let h = 1u128 << (w - 1);
        v.extend([h, h - 1, h + 1, h.wrapping_sub(2) & m, (h >> 1) | h]);
        // alternating patterns and half-word boundaries
        let alt = 0x5555_5555_5555_5555_5555_5555_5555_5555u128 & m;
        v.extend([alt, !alt & m]);
        let half = mask_bits(w / 2);
        v.extend([half, (half + 1) & m, !half & m]);
        for k in [3u32, 7, 15, 31, 63, 64, 65, 100] {
            if k < w {
                v.push(1u128 << k);
                v.push(mask_bits(k));
                v.push((1u128 << k).wrapping_neg() & m);
            }
        }
    }
    v.iter_mut().for_each(|x| *x &= m);
    v.sort();
    v.dedup();
    v
}

fn add_grid_cases() -> Vec<AddCase> {
    let mut out = vec![];
    for w in ADD_WIDTHS {
        for overflow in [false, true] {
            let words: Vec<u128> = if w <= 8 { (0..(1u128 << w)).collect() } else { corner_words(w) };
            // the first operand range is split into chunks so that the work spreads over the workers
            for a in words.chunks(32) {
                out.push(AddCase {
                    w,
                    overflow,
                    wrap: false,
                    sa: vec![a.len() as u64, 1],
                    sb: vec![1, words.len() as u64],
                    a: a.to_vec(),
                    b: words.clone(),
                });
            }
        }
    }
    out
}

// ---------------------------------------------------------------------------------------------
// Mux

#[derive(Clone, Debug, Serialize, Deserialize)]
pub struct MuxCase {
    pub st: ScalarType,
    /// None = scalar
    pub sf: Option<Vec<u64>>,
    pub sb: Option<Vec<u64>>,
    pub sc: Option<Vec<u64>>,
    pub f: Vec<u128>,
    pub b: Vec<u128>,
    pub c: Vec<u128>,
}

fn opt_shape(s: &Option<Vec<u64>>) -> Vec<u64> {
    s.clone().unwrap_or_default()
}

pub fn oracle_mux(c: &MuxCase) -> Outcome {
    let (sf, sb, sc) = (opt_shape(&c.sf), opt_shape(&c.sb), opt_shape(&c.sc));
    let out = match bcast(&sf, &sb).and_then(|x| bcast(&x, &sc)) {
        Some(o) => o,
        None => return Outcome::skip("case-not-broadcastable"),
    };
    let inputs = vec![
        (leaf_of(&sf, BIT), HVal::A(c.f.clone())),
        (leaf_of(&sb, c.st), HVal::A(c.b.clone())),
        (leaf_of(&sc, c.st), HVal::A(c.c.clone())),
    ];
    let res = run_graph(&inputs, |g, n| g.custom_op(CustomOperation::new(Mux {}), n));
    let (t, v) = match res {
        Ok(x) => x,
        Err(e) => return run_fail("mux", e),
    };
    let got = match &v {
        HVal::A(x) if is_leaf(&t) => x.clone(),
        _ => return Outcome::fail("mux-shape", format!("result type {} is not a leaf", t)),
    };
    if leaf_st(&t) != c.st || leaf_shape(&t) != out {
        return Outcome::fail("mux-shape", format!("result type {} but operands of {} broadcast to {:?}", t, c.st, out));
    }
    let n = nelems(&out);
    let mut want = vec![];
    let mut swapped = vec![];
    let (mut ones, mut zeros) = (0, 0);
    for i in 0..n {
        let f = c.f[src_index(&out, i, &sf)];
        let b = c.b[src_index(&out, i, &sb)];
        let cc = c.c[src_index(&out, i, &sc)];
        if f == 1 {
            ones += 1;
        } else {
            zeros += 1;
        }
        want.push(if f == 1 { b } else { cc });
        swapped.push(if f == 1 { cc } else { b });
    }
    if got != want {
        let i = (0..n).find(|i| got[*i] != want[*i]).unwrap();
        let detail = format!(
            "Mux({}) element {}: selector {} second operand {} third operand {} -> {} expected {}",
            c.st,
            i,
            c.f[src_index(&out, i, &sf)],
            c.b[src_index(&out, i, &sb)],
            c.c[src_index(&out, i, &sc)],
            got[i],
            want[i]
        );
        // root cause O3: the integer branch selects the operands the other way round
        let sig = if c.st != BIT && got == swapped { "mux-nonbit-inverted" } else { "mux-wrong" };
        return Outcome::fail(sig, detail);
    }
    let kind = |s: &Option<Vec<u64>>| if s.is_none() { "s" } else { "a" };
    Outcome::pass(ones > 0 && zeros > 0)
        .label(format!("st:{}", c.st))
        .label(format!("kinds:{}{}{}", kind(&c.sf), kind(&c.sb), kind(&c.sc)))
        .label(if ones > 0 && zeros > 0 { "selector:both" } else { "selector:const" })
        .label(if sf == out && sb == out && sc == out { "bcast:none" } else { "bcast:some" })
}

fn arb_mux_case() -> BoxedStrategy<MuxCase> {
    let st = prop_oneof![
        1 => Just(BIT),
        1 => crate::gen::arb_st_nonbit(),
    ];
    // rank 0 (all operands scalar) only in 1 of 10 cases
    let out = prop_oneof![
        1 => Just(vec![]),
        9 => proptest::collection::vec(prop_oneof![1 => Just(1u64), 4 => 1u64..=3], 1..=3),
    ];
    (st, out, arb_derive(), arb_derive(), arb_derive())
        .prop_flat_map(|(st, o, df, db, dc)| {
            let mk = |d: (usize, u8)| {
                let s = derive_shape(&o, d.0, d.1);
                if s.is_empty() {
                    None
                } else {
                    Some(s)
                }
            };
            let (sf, sb, sc) = (mk(df), mk(db), mk(dc));
            let (nf, nb, nc) = (nelems(&opt_shape(&sf)), nelems(&opt_shape(&sb)), nelems(&opt_shape(&sc)));
            (
                proptest::collection::vec(0u128..2, nf),
                proptest::collection::vec(crate::gen::arb_elem(st), nb),
                proptest::collection::vec(crate::gen::arb_elem(st), nc),
            )
                .prop_map(move |(f, b, c)| MuxCase {
                    st,
                    sf: sf.clone(),
                    sb: sb.clone(),
                    sc: sc.clone(),
                    f,
                    b,
                    c,
                })
        })
        .boxed()
}

/// every (selector, second, third) bit triple, in one broadcast evaluation, for scalar and array kinds
fn mux_grid_cases() -> Vec<MuxCase> {
    let mut out = vec![];
    out.push(MuxCase {
        st: BIT,
        sf: Some(vec![2, 1, 1]),
        sb: Some(vec![2, 1]),
        sc: Some(vec![2]),
        f: vec![0, 1],
        b: vec![0, 1],
        c: vec![0, 1],
    });
    for f in 0..2u128 {
        for b in 0..2u128 {
            for c in 0..2u128 {
                out.push(MuxCase { st: BIT, sf: None, sb: None, sc: None, f: vec![f], b: vec![b], c: vec![c] });
            }
        }
    }
    out
}

// ---------------------------------------------------------------------------------------------
// Clip2K

#[derive(Clone, Debug, Serialize, Deserialize)]
pub struct ClipCase {
    pub w: u32,
    pub k: u32,
    pub shape: Vec<u64>,
    pub x: Vec<u128>,
}

pub fn oracle_clip(c: &ClipCase) -> Outcome {
    let (w, k) = (c.w, c.k);
    if w < 2 || k > w - 2 {
        return Outcome::skip("case-outside-domain(k>w-2)");
    }
    let inputs = vec![operand(&c.shape, w, None, &c.x)];
    let res = run_graph(&inputs, |g, n| g.custom_op(CustomOperation::new(Clip2K { k: k as u64 }), n));
    let (t, v) = match res {
        Ok(x) => x,
        Err(e) => return run_fail("clip", e),
    };
    let (shape, got) = match result_words(&t, &v, w, false) {
        Ok(x) => x,
        Err(e) => return Outcome::fail("clip-shape", e),
    };
    if shape != c.shape {
        return Outcome::fail("clip-shape", format!("result batch shape {:?} for input batch shape {:?}", shape, c.shape));
    }
    let (mut neg, mut mid, mut big) = (false, false, false);
    for (i, x) in c.x.iter().enumerate() {
        let s = sext(*x, w);
        let want = if s < 0 {
            neg = true;
            0
        } else if *x >= (1u128 << k) {
            big = true;
            1u128 << k
        } else {
            mid = true;
            *x
        };
        if got[i] != want {
            return Outcome::fail(
                "clip-wrong",
                format!("Clip2K(k={}) on {}-bit input {} (signed {}) -> {} expected {}", k, w, x, s, got[i], want),
            );
        }
    }
    Outcome::pass(neg && mid && big)
        .label(format!("w:{}", w))
        .label(if k == 0 { "k:0" } else if k == w - 2 { "k:w-2" } else { "k:mid" })
        .label(if neg && mid && big { "regions:all3" } else { "regions:partial" })
        .label(format!("rank:{}", c.shape.len() + 1))
}

fn arb_clip_word(w: u32, k: u32) -> BoxedStrategy<u128> {
    let m = mask_bits(w);
    let t = 1u128 << k;
    prop_oneof![
        6 => arb_word(w),
        2 => Just(t),
        2 => Just(t.wrapping_sub(1) & m),
        2 => Just((t + 1) & m),
        2 => (k..w - 1).prop_map(|j| 1u128 << j),                 // a single top bit set (>= 2^k, positive)
        2 => (k..w - 1).prop_map(move |j| (1u128 << j) | (t - 1)), // in-range low part plus one high bit
        2 => (0u128..u128::MAX).prop_map(move |x| x & (t - 1).max(1)), // in range
        2 => (0u128..u128::MAX).prop_map(move |x| (x & m) | (1u128 << (w - 1))), // negative
    ]
    .boxed()
}

fn arb_clip_case() -> BoxedStrategy<ClipCase> {
    let w = prop_oneof![
        3 => 2u32..=16,
        3 => proptest::sample::select(vec![31u32, 32, 33, 63, 64, 65, 127, 128]),
        2 => 17u32..=128,
    ];
    let shape = prop_oneof![
        1 => Just(vec![]),
        3 => (3u64..=12).prop_map(|n| vec![n]),
        3 => arb_out_shape(),
    ];
    (w, any::<u16>(), 0u8..4, shape)
        .prop_flat_map(|(w, kp, kmode, shape)| {
            let k = match kmode {
                0 => 0,
                1 => w - 2,
                _ => crate::gen::pick(kp, (w - 1) as usize) as u32,
            };
            let n = nelems(&shape).max(1);
            // at least 3 elements where the shape allows, so that all regions can be present
            proptest::collection::vec(arb_clip_word(w, k), n).prop_map(move |x| ClipCase { w, k, shape: shape.clone(), x })
        })
        .boxed()
}

fn clip_grid_cases(max_w: u32) -> Vec<ClipCase> {
    let mut out = vec![];
    for w in 2..=max_w {
        for k in 0..=w - 2 {
            out.push(ClipCase { w, k, shape: vec![1u64 << w], x: (0..(1u128 << w)).collect() });
        }
    }
    out
}

/// corner words around every threshold for the large widths, every k
fn clip_corner_cases() -> Vec<ClipCase> {
    let mut out = vec![];
    for w in [16u32, 32, 64, 128] {
        for k in 0..=w - 2 {
            let m = mask_bits(w);
            let t = 1u128 << k;
            let mut x = corner_words(w);
            x.extend([t, t.wrapping_sub(1) & m, (t + 1) & m, t << 1, (t << 1).wrapping_sub(1) & m, t | (1u128 << (w - 1))]);
            x.sort();
            x.dedup();
            out.push(ClipCase { w, k, shape: vec![x.len() as u64], x });
        }
    }
    out
}

// ---------------------------------------------------------------------------------------------
// LongDivision

#[derive(Clone, Debug, Serialize, Deserialize)]
pub struct DivCase {
    pub wn: u32,
    pub wd: u32,
    pub signed: bool,
    /// operands are integers converted with A2B, results converted with B2A
    pub wrap: bool,
    pub sn: Vec<u64>,
    pub sd: Vec<u64>,
    pub n: Vec<u128>,
    /// never 0
    pub d: Vec<u128>,
}

/// floored division in exact integers (sign and magnitude), reduced mod 2^wn / 2^wd
fn ref_div(n: u128, d: u128, wn: u32, wd: u32, signed: bool) -> (u128, u128) {
    let (n_neg, n_mag) = if signed && sext(n, wn) < 0 { (true, n.wrapping_neg() & mask_bits(wn)) } else { (false, n) };
    let (d_neg, d_mag) = if signed && sext(d, wd) < 0 { (true, d.wrapping_neg() & mask_bits(wd)) } else { (false, d) };
    // magnitudes are exact: |min| = 2^(w-1) is representable as an unsigned w-bit word
    let (qm, rm) = (n_mag / d_mag, n_mag % d_mag);
    // floor(n/d): when the signs differ and the division is inexact, round away from zero
    let (q_neg, q_mag, r_mag) = if n_neg != d_neg {
        if rm != 0 {
            (true, qm + 1, d_mag - rm)
        } else {
            (true, qm, 0)
        }
    } else {
        (false, qm, rm)
    };
    let q = (if q_neg { q_mag.wrapping_neg() } else { q_mag }) & mask_bits(wn);
    // the remainder takes the divisor's sign
    let r = (if d_neg { r_mag.wrapping_neg() } else { r_mag }) & mask_bits(wd);
    (q, r)
}

/// the statement's own invariants, checked on (q, r): identity mod 2^wn, sign and range of r.
/// Returns the name of the first invariant that does not hold.
fn div_invariants(n: u128, d: u128, q: u128, r: u128, wn: u32, wd: u32, signed: bool) -> Option<&'static str> {
    let ext = |x: u128, w: u32| if signed { sext(x, w) as u128 } else { x };
    let lhs = ext(q, wn).wrapping_mul(ext(d, wd)).wrapping_add(ext(r, wd));
    if lhs & mask_bits(wn) != n & mask_bits(wn) && wd <= wn {
        return Some("q*d+r != dividend (mod 2^wn)");
    }
    if wd > wn {
        // identity in the wider ring needs the true (unwrapped) quotient; only min/-1 wraps
        let qt = ext(q, wn);
        let lhs = qt.wrapping_mul(ext(d, wd)).wrapping_add(ext(r, wd));
        let wrapped = signed && n == 1u128 << (wn - 1) && sext(d, wd) == -1;
        if !wrapped && lhs != ext(n, wn) {
            return Some("q*d+r != dividend");
        }
    }
    if signed {
        let (rs, ds) = (sext(r, wd), sext(d, wd));
        if rs != 0 && (rs < 0) != (ds < 0) {
            return Some("remainder does not take the divisor's sign");
        }
        if rs.unsigned_abs() >= ds.unsigned_abs() {
            return Some("|remainder| >= |divisor|");
        }
    } else if r >= d {
        return Some("remainder >= divisor");
    }
    None
}

/// model of the root cause O4: restoring division whose remainder register has only wd bits, so
/// that the bit shifted out of the register is lost (unsigned operands)
fn lossy_unsigned_div(n: u128, d: u128, wn: u32, wd: u32) -> (u128, u128) {
    let (mut r, mut q) = (0u128, 0u128);
    for i in (0..wn).rev() {
        let x = ((r << 1) | ((n >> i) & 1)) & mask_bits(wd);
        if x >= d {
            r = x - d;
            q |= 1 << i;
        } else {
            r = x;
        }
    }
    (q, r)
}

pub fn oracle_div(c: &DivCase) -> Outcome {
    let (wn, wd, signed) = (c.wn, c.wd, c.signed);
    if c.d.iter().any(|d| d & mask_bits(wd) == 0) {
        return Outcome::skip("case-outside-domain(divisor=0)");
    }
    let out = match bcast(&c.sn, &c.sd) {
        Some(o) => o,
        None => return Outcome::skip("case-not-broadcastable"),
    };
    let (wrap_n, wrap_d) = if c.wrap { (int_st(wn, signed), int_st(wd, signed)) } else { (None, None) };
    let wrapped = wrap_n.is_some() && wrap_d.is_some();
    let (wrap_n, wrap_d) = if wrapped { (wrap_n, wrap_d) } else { (None, None) };
    let inputs = vec![operand(&c.sn, wn, wrap_n, &c.n), operand(&c.sd, wd, wrap_d, &c.d)];
    let res = run_graph(&inputs, |g, nodes| {
        let (x, y) = if wrapped { (nodes[0].a2b()?, nodes[1].a2b()?) } else { (nodes[0].clone(), nodes[1].clone()) };
        let o = g.custom_op(CustomOperation::new(LongDivision { signed }), vec![x, y])?;
        if wrapped {
            g.create_tuple(vec![o.tuple_get(0)?.b2a(wrap_n.unwrap())?, o.tuple_get(1)?.b2a(wrap_d.unwrap())?])
        } else {
            Ok(o)
        }
    });
    let (t, v) = match res {
        Ok(x) => x,
        Err(e) => {
            // root cause F-C17-3: two rank-1 operands (a single length-n bitstring each) are rejected
            if e.stage == "build" && c.sn.is_empty() && c.sd.is_empty() && e.msg.contains("Input with an invalid type: Array([], bit)") {
                return Outcome::fail("div-rank1-rejected", format!("LongDivision on two rank-1 bitstrings [{}] / [{}] is rejected: {}", wn, wd, e.msg));
            }
            return run_fail("div", e);
        }
    };
    let (qt, qv, rt, rv) = match (&t, &v) {
        (Type::Tuple(ts), HVal::V(vs)) if ts.len() == 2 => ((*ts[0]).clone(), vs[0].clone(), (*ts[1]).clone(), vs[1].clone()),
        _ => return Outcome::fail("div-shape", format!("result must be a (quotient, remainder) tuple, got {}", t)),
    };
    let (qs, q) = match result_words(&qt, &qv, wn, wrapped) {
        Ok(x) => x,
        Err(e) => return Outcome::fail("div-shape", format!("quotient: {}", e)),
    };
    let (rs, r) = match result_words(&rt, &rv, wd, wrapped) {
        Ok(x) => x,
        Err(e) => return Outcome::fail("div-shape", format!("remainder: {}", e)),
    };
    if qs != out || rs != out {
        return Outcome::fail("div-shape", format!("batch shapes {:?}/{:?}, broadcast of {:?} and {:?} is {:?}", qs, rs, c.sn, c.sd, out));
    }
    let n_el = nelems(&out);
    let mut labels: std::collections::BTreeSet<String> = Default::default();
    let mut nonzero_rem = false;
    let mut bad: Vec<String> = vec![];
    let mut all_bad_match_lossy = true;
    for i in 0..n_el {
        let n = c.n[src_index(&out, i, &c.sn)] & mask_bits(wn);
        let d = c.d[src_index(&out, i, &c.sd)] & mask_bits(wd);
        let (wq, wr) = ref_div(n, d, wn, wd, signed);
        // the reference itself must satisfy the statement (guards against a harness error)
        if let Some(inv) = div_invariants(n, d, wq, wr, wn, wd, signed) {
            panic!("harness reference violates '{}' for n={} d={} wn={} wd={} signed={}", inv, n, d, wn, wd, signed);
        }
        if (q[i], r[i]) != (wq, wr) {
            let inv = div_invariants(n, d, q[i], r[i], wn, wd, signed).unwrap_or("not the floored quotient");
            let show = |x: u128, w: u32| if signed { format!("{}", sext(x, w)) } else { format!("{}", x) };
            if bad.len() < 3 {
                bad.push(format!(
                    "{} / {} ({}{} / {}{}) -> q={} r={} expected q={} r={} [{}]",
                    show(n, wn),
                    show(d, wd),
                    if signed { "i" } else { "u" },
                    wn,
                    if signed { "i" } else { "u" },
                    wd,
                    show(q[i], wn),
                    show(r[i], wd),
                    show(wq, wn),
                    show(wr, wd),
                    inv
                ));
            }
            let lossy = !signed && wn > wd && d > (1u128 << (wd - 1)) && (q[i], r[i]) == lossy_unsigned_div(n, d, wn, wd);
            all_bad_match_lossy &= lossy;
            continue;
        }
        nonzero_rem |= wr != 0;
        if signed {
            labels.insert(format!("signs:{}{}", if sext(n, wn) < 0 { '-' } else { '+' }, if sext(d, wd) < 0 { '-' } else { '+' }));
            if n == 1u128 << (wn - 1) && sext(d, wd) == -1 {
                labels.insert("corner:min/-1".into());
            }
            if d == 1u128 << (wd - 1) {
                labels.insert("corner:d=min".into());
            }
            if sext(d, wd).unsigned_abs() == 1 {
                labels.insert("corner:|d|=1".into());
            }
        } else {
            if d >> (wd - 1) == 1 {
                labels.insert("corner:d-top-bit".into());
            }
            if d == 1 {
                labels.insert("corner:|d|=1".into());
            }
        }
        if n == 0 {
            labels.insert("corner:0/d".into());
        }
        if n == mask_bits(wn) || d == mask_bits(wd) {
            labels.insert("corner:all-ones".into());
        }
        labels.insert(if wr != 0 { "rem:nonzero".into() } else { "rem:zero".into() });
    }
    if !bad.is_empty() {
        let sig = if all_bad_match_lossy { "div-unsigned-wide-dividend-msb-divisor" } else { "div-wrong" };
        return Outcome::fail(sig, format!("LongDivision(signed={}): {}", signed, bad.join("; ")));
    }
    Outcome::pass(nonzero_rem)
        .label(format!("w:{}/{}", wn, wd))
        .label(if signed { "signed" } else { "unsigned" })
        .label(if wrapped { "io:a2b/b2a" } else { "io:bits" })
        .label(bcast_label(&out, &c.sn, &c.sd))
        .labels(labels)
}

const DIV_WIDTHS: [u32; 7] = [2, 4, 8, 16, 32, 64, 128];

/// the configuration of the open root cause O4 (unsigned, dividend wider than divisor, divisor
/// above 2^(wd-1)); generated only when `allow_o4`
fn o4_region(signed: bool, wn: u32, wd: u32, d: u128) -> bool {
    !signed && wn > wd && d > (1u128 << (wd - 1))
}

fn arb_div_case(widths: Vec<u32>) -> BoxedStrategy<DivCase> {
    (
        proptest::sample::select(widths.clone()),
        proptest::sample::select(widths),
        any::<bool>(),
        arb_two_shapes(),
        0u8..5,
        // 1 in 16 cases may enter the region of the open finding O4
        0u8..16,
        // 1 in 16 of the cases where both operands are single bitstrings keeps them so (open finding F-C17-3)
        0u8..16,
    )
        .prop_flat_map(|(wn, wd, signed, (mut sn, mut sd), wr, o4, r1)| {
            if sn.is_empty() && sd.is_empty() && r1 != 0 {
                if r1 % 2 == 0 {
                    sn = vec![1];
                } else {
                    sd = vec![1];
                }
            }
            let (nn, nd) = (nelems(&sn), nelems(&sd));
            let (mn, md) = (mask_bits(wn), mask_bits(wd));
            (
                proptest::collection::vec((arb_word(wn), 0u8..10, 0u128..20), nn),
                proptest::collection::vec(arb_word(wd), nd),
            )
                .prop_map(move |(nraw, draw)| {
                    let d: Vec<u128> = draw
                        .iter()
                        .map(|x| {
                            let mut x = if *x & md == 0 { 1 } else { *x & md };
                            if o4 != 0 && o4_region(signed, wn, wd, x) {
                                x &= md >> 1; // clear the top bit (construction, not rejection)
                                if x == 0 {
                                    x = 1u128 << (wd - 1);
                                }
                            }
                            x
                        })
                        .collect();
                    // dividend: independent, or tied to the divisor (exact multiples, multiples +-1, equal)
                    let n: Vec<u128> = nraw
                        .iter()
                        .enumerate()
                        .map(|(j, (x, mode, k))| {
                            let dj = d[j % d.len()];
                            let de = if signed { sext(dj, wd) as u128 } else { dj };
                            (match mode {
                                0..=5 => *x,
                                6 => de,
                                7 => de.wrapping_mul(*k),
                                8 => de.wrapping_mul(*k).wrapping_add(1),
                                _ => de.wrapping_mul(*k).wrapping_sub(1),
                            }) & mn
                        })
                        .collect();
                    DivCase {
                        wn,
                        wd,
                        signed,
                        wrap: wr == 0 && int_st(wn, signed).is_some() && int_st(wd, signed).is_some(),
                        sn: sn.clone(),
                        sd: sd.clone(),
                        n,
                        d,
                    }
                })
        })
        .boxed()
}

fn div_grid(out: &mut Vec<DivCase>, wn: u32, wd: u32, signed: bool, n: &[u128], all_d: &[u128], max_elems: usize) {
    // the region of the open finding O4 is a separate case so that the rest of the grid is still judged
    let (d_o4, d_ok): (Vec<u128>, Vec<u128>) = all_d.iter().partition(|d| o4_region(signed, wn, wd, **d));
    for d in [d_ok, d_o4] {
        if d.is_empty() {
            continue;
        }
        // dividends in chunks so that the work spreads over the workers
        for nc in n.chunks((max_elems / d.len()).max(1)) {
            out.push(DivCase {
                wn,
                wd,
                signed,
                wrap: false,
                sn: vec![nc.len() as u64, 1],
                sd: vec![1, d.len() as u64],
                n: nc.to_vec(),
                d: d.clone(),
            });
        }
    }
}

/// all operand pairs of a small width pair (a few broadcast evaluations each)
fn div_exhaustive_cases(pairs: &[(u32, u32)]) -> Vec<DivCase> {
    let mut out = vec![];
    for &(wn, wd) in pairs {
        for signed in [false, true] {
            let n: Vec<u128> = (0..(1u128 << wn)).collect();
            let all_d: Vec<u128> = (1..(1u128 << wd)).collect();
            div_grid(&mut out, wn, wd, signed, &n, &all_d, 4096);
        }
    }
    out
}

fn div_corner_words(w: u32) -> Vec<u128> {
    let m = mask_bits(w);
    let h = 1u128 << (w - 1);
    let mut v = vec![0, 1, 2, 3, m, m - 1, h, h - 1, (h + 1) & m, (h | (h >> 1)) & m, mask_bits(w / 2), (mask_bits(w / 2) + 1) & m, 0x5555_5555_5555_5555_5555_5555_5555_5555u128 & m];
    v.sort();
    v.dedup();
    v
}

/// corner x corner grid for every width pair
fn div_corner_cases() -> Vec<DivCase> {
    let mut out = vec![];
    for wn in DIV_WIDTHS {
        for wd in DIV_WIDTHS {
            for signed in [false, true] {
                let n = div_corner_words(wn);
                let all_d: Vec<u128> = div_corner_words(wd).into_iter().filter(|d| *d != 0).collect();
                div_grid(&mut out, wn, wd, signed, &n, &all_d, 64);
            }
        }
    }
    out
}

// ---------------------------------------------------------------------------------------------

pub fn run(env: &Env) {
    env.assume("LongDivision: operand widths are powers of two (documented); dividend and divisor widths may differ (result lengths are documented per operand; the repository tests i32/i8); divisor != 0 always");
    env.assume("min / -1 is compared modulo 2^w (the repository's tests document the wrap)");
    env.assume("Clip2K: k <= w-2 (documented precondition); widths need not be powers of two");
    let thorough = env.tier == Tier::Thorough;

    // ---- BinaryAdd
    env.enumerate(
        "add-grid",
        "BinaryAdd: ALL operand pairs for w in {1,2,4,8} (one broadcast evaluation per width and overflow flag); corner x corner grid for w in {16,32,64,128}",
        {
            let mut v = add_grid_cases();
            v.sort_by_key(|c| std::cmp::Reverse(c.a.len() * c.b.len() * c.w as usize)); // costly cases first
            v
        },
        oracle_add,
    );
    env.campaign(
        "add-random",
        "BinaryAdd: w in {1,..,128}, with/without overflow bit, broadcast batch shapes, boundary-heavy words, second operand tied to the first (complement, negation) in half of the elements; 20% through A2B/B2A",
        env.n(20_000, 600_000),
        arb_add_case,
        oracle_add,
    );

    // ---- Mux
    env.enumerate("mux-grid", "Mux: all (selector, second, third) bit triples, scalar and broadcast array form", mux_grid_cases(), oracle_mux);
    env.campaign(
        "mux-random",
        "Mux: selector scalar/array, operands scalar/array of every scalar type (half BIT, half the 10 integer types), three-way broadcasting",
        env.n(60_000, 2_000_000),
        arb_mux_case,
        oracle_mux,
    );

    // ---- Clip2K
    env.enumerate(
        "clip-grid",
        "Clip2K: ALL inputs for every w <= 10 (12 in thorough) and every k <= w-2; corner words around every threshold for w in {16,32,64,128} and every k",
        {
            let mut v = clip_grid_cases(env.pick(10, 12));
            v.extend(clip_corner_cases());
            v
        },
        oracle_clip,
    );
    env.campaign(
        "clip-random",
        "Clip2K: w in 2..128 (incl. non powers of two), k in 0..w-2 with both ends emphasised, batch rank 0-3, words around 0 / 2^k / min / max",
        env.n(20_000, 600_000),
        arb_clip_case,
        oracle_clip,
    );

    // ---- LongDivision
    let mut pairs = vec![(2, 2), (2, 4), (4, 2), (4, 4), (2, 8), (8, 2), (4, 8), (8, 4), (8, 8)];
    if thorough {
        pairs.extend([(2, 16), (4, 16), (16, 2), (16, 4)]); // (8,16) would be 33M element divisions: out of budget
    }
    env.enumerate(
        "div-exhaustive",
        "LongDivision: ALL (dividend, divisor != 0) pairs for the listed small width pairs, signed and unsigned (one broadcast evaluation each)",
        {
            let mut v = div_exhaustive_cases(&pairs);
            v.sort_by_key(|c| std::cmp::Reverse(c.n.len() * c.d.len() * (c.wn * c.wd) as usize));
            v
        },
        oracle_div,
    );
    env.enumerate_opt(
        "div-corners",
        "LongDivision: corner x corner operand grid (0, +-1, +-2, min, max, min+1, all-ones, 2^k, 2^k-1, -2^k, alternating) for every width pair in {2,..,128}^2, signed and unsigned",
        {
            let mut v = div_corner_cases();
            v.sort_by_key(|c| std::cmp::Reverse(c.n.len() * c.d.len() * (c.wn * c.wd) as usize));
            v
        },
        false,
        oracle_div,
    );
    env.campaign(
        "div-random-small",
        "LongDivision: width pairs in {2,4,8,16}^2, signed/unsigned, broadcast batch shapes, boundary-heavy words, dividends tied to the divisor (multiples, multiples +-1); 20% through A2B/B2A where the widths are scalar widths",
        env.n(8_000, 250_000),
        || arb_div_case(vec![2, 4, 8, 16]),
        oracle_div,
    );
    env.campaign(
        "div-random",
        "LongDivision: width pairs in {2,..,128}^2, signed/unsigned, broadcast batch shapes, boundary-heavy words, dividends tied to the divisor; 20% through A2B/B2A",
        env.n(3_000, 100_000),
        || arb_div_case(DIV_WIDTHS.to_vec()),
        oracle_div,
    );

    // ---- pinned regression cases for the candidate defects of DESIGN section 4
    env.pinned(
        "mux-int",
        &MuxCase {
            st: ScalarType::I32,
            sf: None,
            sb: None,
            sc: None,
            f: vec![1],
            b: vec![111],
            c: vec![222],
        },
        oracle_mux,
    );
    env.pinned(
        "div-u16-u8",
        &DivCase {
            wn: 16,
            wd: 8,
            signed: false,
            wrap: false,
            sn: vec![1],
            sd: vec![1],
            n: vec![300],
            d: vec![200],
        },
        oracle_div,
    );
    env.pinned(
        "div-rank1",
        &DivCase {
            wn: 8,
            wd: 8,
            signed: false,
            wrap: false,
            sn: vec![],
            sd: vec![],
            n: vec![7],
            d: vec![2],
        },
        oracle_div,
    );
}

pub fn replay(check: &str, case: J) -> Outcome {
    if check.starts_with("add") {
        replay_with::<AddCase, _>(case, oracle_add)
    } else if check.starts_with("mux") {
        replay_with::<MuxCase, _>(case, oracle_mux)
    } else if check.starts_with("clip") {
        replay_with::<ClipCase, _>(case, oracle_clip)
    } else {
        replay_with::<DivCase, _>(case, oracle_div)
    }
}
