//! C03 — a party's view reveals nothing beyond its own inputs and outputs (PRF idealised).
//!
//! Three-party executor in idealised-randomness mode: every draw of randomness is a *request* to a
//! random oracle keyed by (key bytes as held by the requesting party, counter, type) for PRF nodes
//! and by (party, node) for Random nodes. PRF keys themselves (Random nodes of the 128-bit key type)
//! are opaque identities: a fixed distinct constant per (party, node). Two parties holding the same
//! key obtain the same mask, a party holding a junk key obtains an unrelated one.
//!
//! Exhaustive tier: requests whose value can (syntactically) influence what the observer receives or
//! outputs are enumerated completely; the exact histogram of the observer's view must be identical
//! for all assignments of the other parties' inputs in a group (same observer inputs, same observer
//! output). Requests that cannot influence messages/outputs are independent uniform coordinates of
//! the view and factor out exactly, so they are fixed.
//! Sampled tier: 8-bit arithmetic sources; two-sample chi-square tests on byte marginals, pairwise
//! byte differences / xors and a hash of the whole view.
use crate::core::*;
use crate::graphgen::*;
use crate::hv::*;
use crate::mpcx::*;
use crate::walk::sends_of;
use ciphercore_base::data_types::{array_type, Type, BIT};
use ciphercore_base::data_values::Value;
use ciphercore_base::evaluators::simple_evaluator::SimpleEvaluator;
use ciphercore_base::evaluators::Evaluator;
use ciphercore_base::graphs::{Graph, Node, Operation};
use proptest::prelude::*;
use serde::{Deserialize, Serialize};
use serde_json::Value as J;
use std::collections::HashMap;

pub const RULE: &str = "(E) bit-typed source graphs (BIT scalars/arrays of <=3 bits, 2-3 inputs, 1-4 steps of Add/Multiply/structural ops, optional Call) x owner/output configurations x each observer party: ALL random-oracle assignments that can influence the observer's messages/output are enumerated (<=2^13 quick, 2^16 thorough) for EVERY assignment of the inputs; within a group (same observer inputs, same observer output) the exact view histograms must be identical; \
(S) 8-bit sources (mixed multiply/OT, A2B/B2A, Truncate2K, public-permutation, tiny sorts): for pairs of other-party inputs in one group, N sampled oracle tapes each, two-sample chi-square on every view byte, on pairwise byte differences and xors, and on a 6-bit hash of the whole view (false-alarm probability < 1e-9 per run), plus the exact check that no message to the observer is tape-independent yet input-dependent; \
non-trivial = a group with >=2 different other-party assignments and >=1 message delivered to the observer; distinct = distinct (recipe, configuration, observer)";

// ---------------------------------------------------------------------------------------------
// idealised executor

#[derive(Clone, Debug, PartialEq, Eq, Hash)]
enum ReqKey {
    Prf(Vec<u8>, u64, String),
    Rnd(u8, u64),
}

#[derive(Clone, Debug)]
enum Dom {
    /// uniform value of a type with this many bits in total
    Bits(Type, u32),
    /// uniform permutation of 0..n as UINT64 array
    Perm(u64),
}

impl Dom {
    fn size(&self) -> Option<u128> {
        match self {
            Dom::Bits(_, b) => {
                if *b < 100 {
                    Some(1u128 << b)
                } else {
                    None
                }
            }
            Dom::Perm(n) => {
                if *n <= 20 {
                    Some((1..=*n as u128).product())
                } else {
                    None
                }
            }
        }
    }
}

fn total_bits(t: &Type) -> u32 {
    if is_leaf(t) {
        (type_elems(t) as u32) * bits(leaf_st(t))
    } else {
        children_types(t).iter().map(total_bits).sum()
    }
}

/// value of type t from a bit source (LSB first)
fn value_from_bits(t: &Type, next: &mut dyn FnMut(u32) -> u128) -> HVal {
    if is_leaf(t) {
        let st = leaf_st(t);
        let b = bits(st);
        HVal::A((0..type_elems(t)).map(|_| next(b) & mask(st)).collect())
    } else {
        HVal::V(children_types(t).iter().map(|ct| value_from_bits(ct, next)).collect())
    }
}

fn dom_value(d: &Dom, digit: u128) -> Value {
    match d {
        Dom::Bits(t, _) => {
            let mut rest = digit;
            let mut next = |b: u32| {
                let v = rest & mask_bits(b);
                rest = if b >= 128 { 0 } else { rest >> b };
                v
            };
            encode(&value_from_bits(t, &mut next), t)
        }
        Dom::Perm(n) => {
            // digit in factorial number system -> permutation (Lehmer code)
            let n = *n as usize;
            let mut avail: Vec<u128> = (0..n as u128).collect();
            let mut rest = digit;
            let mut out = vec![];
            for i in (1..=n).rev() {
                let k = (rest % i as u128) as usize;
                rest /= i as u128;
                out.push(avail.remove(k));
            }
            Value::from_bytes(encode_leaf(&out, ciphercore_base::data_types::UINT64))
        }
    }
}

/// sampled value: uniform from a seed
fn dom_sample(d: &Dom, seed: &mut u64) -> Value {
    match d {
        Dom::Bits(t, _) => {
            let mut next = |b: u32| {
                let v = ((splitmix(seed) as u128) << 64) | splitmix(seed) as u128;
                v & mask_bits(b)
            };
            encode(&value_from_bits(t, &mut next), t)
        }
        Dom::Perm(n) => {
            let n = *n as usize;
            let mut p: Vec<u128> = (0..n as u128).collect();
            for i in (1..n).rev() {
                // unbiased enough for n <= 12 with 64-bit draws (bias < 2^-60)
                let j = (splitmix(seed) % (i as u64 + 1)) as usize;
                p.swap(i, j);
            }
            Value::from_bytes(encode_leaf(&p, ciphercore_base::data_types::UINT64))
        }
    }
}

/// taint: set of oracle-request indices a value may depend on (up to 1024 requests)
#[derive(Clone, Copy, PartialEq, Eq)]
pub struct Tm([u64; 16]);
impl Tm {
    const MAX: usize = 1024;
    fn zero() -> Tm {
        Tm([0; 16])
    }
    fn or(&mut self, o: &Tm) {
        for k in 0..16 {
            self.0[k] |= o.0[k];
        }
    }
    fn set(&mut self, i: usize) {
        if i < Self::MAX {
            self.0[i / 64] |= 1 << (i % 64);
        }
    }
    fn get(&self, i: usize) -> bool {
        i < Self::MAX && (self.0[i / 64] >> (i % 64)) & 1 == 1
    }
}

enum Oracle<'a> {
    /// first run: register requests, all values zero-digit
    Discover,
    /// digits for registered requests (index -> digit); unknown requests are an error
    Digits(&'a [u128]),
    /// hash(tape seed, request) -> uniform value
    Sampled(u64),
}

struct Reqs {
    index: HashMap<ReqKey, usize>,
    doms: Vec<Dom>,
    /// which party made the request (bitmask)
    by: Vec<u8>,
}

fn hash_key(k: &ReqKey) -> u64 {
    use std::hash::{Hash, Hasher};
    let mut h = std::collections::hash_map::DefaultHasher::new();
    k.hash(&mut h);
    h.finish()
}

pub struct View {
    /// per party: messages delivered (node id, flattened bytes)
    msgs: [Vec<(u64, Vec<u8>)>; 3],
    out: [Option<Vec<u8>>; 3],
    /// per party: (request index, value bytes) of the requests it made
    req_vals: [Vec<(usize, Vec<u8>)>; 3],
    /// taint (request index bitmask) of the messages delivered to / the output of each party
    taint_view: [Tm; 3],
    unsupported: Option<String>,
}

fn flat_bytes(v: &Value, out: &mut Vec<u8>) {
    enum E {
        B(Vec<u8>),
        V(Vec<Value>),
    }
    let e = v.access(|b| Ok(E::B(b.to_vec())), |vs| Ok(E::V(vs.clone())));
    match e {
        Ok(E::B(b)) => out.extend_from_slice(&b),
        Ok(E::V(vs)) => {
            for x in &vs {
                flat_bytes(x, out);
            }
        }
        Err(_) => {}
    }
}

struct Exec {
    nodes: Vec<Node>,
    ops: Vec<Operation>,
    deps: Vec<Vec<usize>>,
    sends: Vec<Vec<(u64, u64)>>,
    out_id: usize,
    key_type: Type,
    /// evaluators are stateless here (all randomness goes through the oracle)
    evs: std::cell::RefCell<Vec<SimpleEvaluator>>,
}

impl Exec {
    fn new(g: &Graph) -> Exec {
        let nodes = g.get_nodes();
        Exec {
            ops: nodes.iter().map(|n| n.get_operation()).collect(),
            deps: nodes.iter().map(|n| n.get_node_dependencies().iter().map(|d| d.get_id() as usize).collect()).collect(),
            sends: nodes.iter().map(sends_of).collect(),
            out_id: g.get_output_node().unwrap().get_id() as usize,
            nodes,
            key_type: array_type(vec![128], BIT),
            evs: std::cell::RefCell::new((0..3).map(|p| SimpleEvaluator::new(Some([p as u8 + 1; 16])).unwrap()).collect()),
        }
    }

    fn run(&self, inputs: [&[Value]; 3], reqs: &mut Reqs, oracle: &Oracle, taint: bool) -> View {
        let mut evs_guard = self.evs.borrow_mut();
        let evs: &mut Vec<SimpleEvaluator> = &mut evs_guard;
        let n = self.nodes.len();
        let mut vals: [Vec<Option<Value>>; 3] = [Vec::with_capacity(n), Vec::with_capacity(n), Vec::with_capacity(n)];
        let mut tnt: [Vec<Tm>; 3] = [vec![], vec![], vec![]];
        let mut view = View {
            msgs: [vec![], vec![], vec![]],
            out: [None, None, None],
            req_vals: [vec![], vec![], vec![]],
            taint_view: [Tm::zero(); 3],
            unsupported: None,
        };
        let mut next_input = 0usize;
        for (id, op) in self.ops.iter().enumerate() {
            for p in 0..3usize {
                let mut t_here = Tm::zero();
                let mut dvals = vec![];
                let mut ok = true;
                for d in &self.deps[id] {
                    if taint {
                        t_here.or(&tnt[p][*d]);
                    }
                    match &vals[p][*d] {
                        Some(v) => dvals.push(v.clone()),
                        None => ok = false,
                    }
                }
                let v: Option<Value> = match op {
                    Operation::Input(_) => Some(inputs[p][next_input].clone()),
                    _ if !ok => None,
                    Operation::Random(t) if *t == self.key_type => {
                        // opaque key identity
                        let mut b = vec![0u8; 16];
                        b[0] = 0xC0 | p as u8;
                        b[1..9].copy_from_slice(&(id as u64).to_le_bytes());
                        b[15] = 0x5A;
                        Some(Value::from_bytes(b))
                    }
                    Operation::Random(_) | Operation::PRF(_, _) | Operation::PermutationFromPRF(_, _) => {
                        let (key, dom) = match op {
                            Operation::Random(t) => (ReqKey::Rnd(p as u8, id as u64), Dom::Bits(t.clone(), total_bits(t))),
                            Operation::PRF(iv, t) => {
                                let mut kb = vec![];
                                flat_bytes(&dvals[0], &mut kb);
                                (ReqKey::Prf(kb, *iv, format!("{}", t)), Dom::Bits(t.clone(), total_bits(t)))
                            }
                            Operation::PermutationFromPRF(iv, n) => {
                                let mut kb = vec![];
                                flat_bytes(&dvals[0], &mut kb);
                                (ReqKey::Prf(kb, *iv, format!("perm{}", n)), Dom::Perm(*n))
                            }
                            _ => unreachable!(),
                        };
                        let val = match oracle {
                            Oracle::Sampled(seed) => {
                                let mut s = *seed ^ hash_key(&key).rotate_left(23);
                                // the index assigned by an earlier discovery run (if any) lets the
                                // caller restrict the view to the relevant requests
                                let idx = reqs.index.get(&key).copied().unwrap_or(usize::MAX);
                                Some((idx, dom_sample(&dom, &mut s)))
                            }
                            _ => {
                                let idx = match reqs.index.get(&key) {
                                    Some(i) => Some(*i),
                                    None => {
                                        if matches!(oracle, Oracle::Discover) {
                                            let i = reqs.doms.len();
                                            reqs.index.insert(key.clone(), i);
                                            reqs.doms.push(dom.clone());
                                            reqs.by.push(0);
                                            Some(i)
                                        } else {
                                            None
                                        }
                                    }
                                };
                                match idx {
                                    Some(i) => {
                                        reqs.by[i] |= 1 << p;
                                        let digit = match oracle {
                                            Oracle::Digits(d) => d[i],
                                            _ => 0,
                                        };
                                        if taint {
                                            t_here.set(i);
                                        }
                                        Some((i, dom_value(&reqs.doms[i], digit)))
                                    }
                                    None => {
                                        view.unsupported = Some("request set is not static".to_string());
                                        None
                                    }
                                }
                            }
                        };
                        match val {
                            Some((i, v)) => {
                                {
                                    let mut b = vec![];
                                    flat_bytes(&v, &mut b);
                                    view.req_vals[p].push((i, b));
                                }
                                Some(v)
                            }
                            None => None,
                        }
                    }
                    Operation::RandomPermutation(_) | Operation::CuckooToPermutation | Operation::DecomposeSwitchingMap(_) => {
                        view.unsupported = Some(format!("randomising operation {} is not idealised", op));
                        None
                    }
                    Operation::Call | Operation::Iterate | Operation::Custom(_) => {
                        view.unsupported = Some("graph is not fully inlined".to_string());
                        None
                    }
                    _ => match crate::util::catch(|| evs[p].evaluate_node(self.nodes[id].clone(), dvals)) {
                        Ok(Ok(v)) => Some(v),
                        Ok(Err(e)) => {
                            if std::env::var("VH_DEBUG").is_ok() {
                                println!("party {} node {} {}: {}", p, id, op, e.to_string().lines().next().unwrap_or(""));
                            }
                            None
                        }
                        Err(pm) => {
                            if std::env::var("VH_DEBUG").is_ok() {
                                println!("party {} node {} {}: PANIC {}", p, id, op, pm);
                            }
                            None
                        }
                    },
                };
                vals[p].push(v);
                if taint {
                    tnt[p].push(t_here);
                }
            }
            if op.is_input() {
                next_input += 1;
            }
            for (s, r) in &self.sends[id] {
                let (s, r) = (*s as usize, *r as usize);
                let sv = vals[s][id].clone();
                match &sv {
                    Some(v) => {
                        let mut b = vec![];
                        flat_bytes(v, &mut b);
                        view.msgs[r].push((id as u64, b));
                    }
                    None => view.unsupported = Some("a sender could not derive the value it sends".to_string()),
                }
                vals[r][id] = sv;
                if taint {
                    let ts = tnt[s][id];
                    tnt[r][id] = ts;
                    view.taint_view[r].or(&ts);
                }
            }
        }
        for p in 0..3 {
            if let Some(v) = &vals[p][self.out_id] {
                let mut b = vec![];
                flat_bytes(v, &mut b);
                view.out[p] = Some(b);
            }
            if taint {
                let to = tnt[p][self.out_id];
                view.taint_view[p].or(&to);
            }
        }
        view
    }
}

fn fnv(bytes: &[u8], h: &mut u64) {
    for b in bytes {
        *h ^= *b as u64;
        *h = h.wrapping_mul(0x100_0000_01b3);
    }
    *h ^= 0xff;
    *h = h.wrapping_mul(0x100_0000_01b3);
}

fn view_bytes(v: &View, p: usize, rel: &Tm) -> Vec<u8> {
    let mut out = vec![];
    for (id, b) in &v.msgs[p] {
        out.extend_from_slice(&(*id as u32).to_le_bytes());
        out.extend_from_slice(b);
    }
    out.push(0xEE);
    if let Some(b) = &v.out[p] {
        out.extend_from_slice(b);
    }
    out.push(0xEF);
    for (i, b) in &v.req_vals[p] {
        if rel.get(*i) {
            out.extend_from_slice(&(*i as u16).to_le_bytes());
            out.extend_from_slice(b);
        }
    }
    out
}

// ---------------------------------------------------------------------------------------------
// cases

#[derive(Clone, Debug, Serialize, Deserialize)]
pub struct Case {
    pub recipe: Recipe,
    pub cfg: MpcCfg,
    pub observer: u8,
    pub tape_seed: u64,
}

pub fn bit_kinds() -> Vec<(u32, K)> {
    vec![
        (5, K::InputSmallBit),
        (6, K::Add),
        (10, K::Mul),
        (1, K::Sub),
        (1, K::Sum),
        (1, K::Get),
        (1, K::Slice),
        (1, K::Stack),
        (1, K::Concat),
        (1, K::MkTuple),
        (1, K::TupleGet),
        (2, K::MkVector),
        (1, K::Repeat),
        (1, K::VectorGet),
        (1, K::A2V),
        (1, K::V2A),
        (1, K::Reshape),
        (1, K::Call),
    ]
}

pub fn byte_kinds() -> Vec<(u32, K)> {
    vec![
        (4, K::InputSmallByte),
        (3, K::InputSmallBit),
        (2, K::Const),
        (4, K::Add),
        (2, K::Sub),
        (6, K::Mul),
        (8, K::MixedMul),
        (5, K::A2B),
        (5, K::B2A),
        (4, K::Trunc2k),
        (1, K::Sum),
        (1, K::Get),
        (2, K::ApplyPermPublic),
        (1, K::SortSmall),
        (2, K::SortWide),
        (2, K::MkVector),
        (1, K::MkTuple),
        (1, K::Repeat),
        (1, K::A2V),
    ]
}

fn arb_e_case() -> BoxedStrategy<Case> {
    let first = arb_step(vec![(1, K::InputSmallBit)]);
    (
        proptest::collection::vec(arb_sub(bit_kinds(), 2), 0..=1),
        proptest::collection::vec(first, 2..=3),
        proptest::collection::vec(arb_step(bit_kinds()), 1..=4),
        crate::c01::arb_cfg(),
        0u8..3,
        any::<u64>(),
    )
        .prop_map(|(subs, mut head, mut steps, cfg, observer, tape_seed)| {
            // a third of the cases: two products gathered into one container (vector / tuple /
            // stacked array) that is reshared or revealed as a whole
            if tape_seed % 3 == 0 {
                let st = |k: K, a: u16, b: u16, p: [u16; 4]| Step { k, a, b, c: 0, p };
                steps.truncate(1);
                steps.push(st(K::Mul, 0, 20000, [(tape_seed >> 8) as u16 % 2, 3, 0, 0]));
                steps.push(st(K::Mul, 30000, 50000, [(tape_seed >> 12) as u16 % 2, 3, 0, 0]));
                steps.push(match (tape_seed >> 4) % 8 {
                    0 | 1 => st(K::MkVector, 0, 0, [2, 1, 0, 0]),
                    2 => st(K::MkTuple, 0, 9000, [2, 0, 0, 0]),
                    3 => st(K::Stack, 0, 9000, [1, 0, 0, 0]),
                    // a product together with a NON-product (an input / older node): the resharing
                    // planner must still reshare the container
                    4 => st(K::MkTuple, 0, 65535, [2, 0, 0, 0]),
                    5 => st(K::MkTuple, 65535, 0, [2, 0, 0, 0]),
                    6 => st(K::Concat, 0, 65535, [0, 1, 0, 0]),
                    _ => st(K::Stack, 0, 65535, [1, 0, 0, 0]),
                });
            }
            head.extend(steps);
            Case { recipe: Recipe { subs, steps: head, out: 0, vals: vec![] }, cfg, observer, tape_seed }
        })
        .boxed()
}

fn arb_s_case() -> BoxedStrategy<Case> {
    let first = arb_step(vec![(3, K::InputSmallByte), (1, K::InputSmallBit)]);
    (
        proptest::collection::vec(first, 1..=2),
        proptest::collection::vec(arb_step(byte_kinds()), 1..=3),
        crate::c01::arb_cfg(),
        0u8..3,
        any::<u64>(),
    )
        .prop_map(|(mut head, steps, cfg, observer, tape_seed)| {
            head.extend(steps);
            Case { recipe: Recipe { subs: vec![], steps: head, out: 0, vals: vec![] }, cfg, observer, tape_seed }
        })
        .boxed()
}

struct Prep {
    exec: Exec,
    in_types: Vec<Type>,
    cfg: MpcCfg,
    out_type: Type,
    src_main: ciphercore_base::graphs::Context,
    labels: Vec<String>,
    /// keeps the compiled context alive (nodes hold weak references)
    _compiled: ciphercore_base::graphs::Context,
    _main: Graph,
}

fn prep(c: &Case) -> Result<Prep, Outcome> {
    let built = match build(&c.recipe, 16) {
        Some(b) => b,
        None => return Err(Outcome::skip("unbuildable-recipe")),
    };
    if built.inputs.is_empty() {
        return Err(Outcome::skip("no-inputs"));
    }
    let in_types: Vec<Type> = built.inputs.iter().map(|(_, t, _)| t.clone()).collect();
    let mut cfg = c.cfg.clone();
    cfg.owners = (0..in_types.len())
        .map(|i| if built.inputs[i].2 == InKind::Perm { 3 } else { owner_of(&c.cfg, i) })
        .collect();
    let compiled = match compile(&built.context, in_types.len(), &cfg) {
        Compiled::Ok(m) => m.get_context(),
        Compiled::Rejected(_) => return Err(Outcome::skip("compiler-rejected")),
        Compiled::Panicked(_) => return Err(Outcome::skip("compiler-panic")),
    };
    let main = compiled.get_main_graph().unwrap();
    let out_type = built.main.get_output_node().unwrap().get_type().unwrap();
    let mut kinds: Vec<&String> = built.applied.iter().collect();
    kinds.sort();
    kinds.dedup();
    let labels = kinds.iter().map(|k| format!("op:{}", k)).collect();
    Ok(Prep { exec: Exec::new(&main), in_types, cfg, out_type, src_main: built.context.clone(), labels, _compiled: compiled, _main: main })
}

/// party inputs in idealised mode: junk is all-zero (held fixed inside a group)
fn ideal_inputs(p: &Prep, vals: &[HVal], share_slots: &[Option<[HVal; 3]>]) -> [Vec<Value>; 3] {
    let mut out: [Vec<Value>; 3] = [vec![], vec![], vec![]];
    for (i, (t, v)) in p.in_types.iter().zip(vals.iter()).enumerate() {
        let o = owner_of(&p.cfg, i);
        for q in 0..3usize {
            let val = match o {
                0 | 1 | 2 => {
                    if q as u8 == o {
                        encode(v, t)
                    } else {
                        encode(&zero(t), t)
                    }
                }
                3 => encode(v, t),
                _ => {
                    let sh = share_slots[i].as_ref().unwrap();
                    Value::from_vector(
                        (0..3usize)
                            .map(|s| if s == q || s == (q + 1) % 3 { encode(&sh[s], t) } else { encode(&zero(t), t) })
                            .collect(),
                    )
                }
            };
            out[q].push(val);
        }
    }
    out
}

fn plain_output(p: &Prep, vals: &[HVal]) -> Option<HVal> {
    let inputs: Vec<Value> = vals.iter().zip(p.in_types.iter()).map(|(v, t)| encode(v, t)).collect();
    match crate::c01::eval_plain(&p.src_main, inputs, [7; 16]) {
        Ok(Ok(v)) => decode(&v, &p.out_type).ok(),
        _ => None,
    }
}

/// all values of a small type (total bits <= 8)
fn all_values(t: &Type) -> Vec<HVal> {
    let b = total_bits(t);
    (0..(1u128 << b))
        .map(|d| {
            let mut rest = d;
            let mut next = |k: u32| {
                let v = rest & mask_bits(k);
                rest >>= k;
                v
            };
            value_from_bits(t, &mut next)
        })
        .collect()
}

pub fn oracle_exhaustive(c: &Case, max_log2: u32) -> Outcome {
    let p = match prep(c) {
        Ok(p) => p,
        Err(o) => return o,
    };
    let obs = (c.observer % 3) as usize;
    let n_in = p.in_types.len();
    let in_bits: u32 = p.in_types.iter().map(total_bits).sum();
    if in_bits > 7 {
        return Outcome::skip("inputs-too-wide");
    }
    // shares for shared inputs: the observer's two slots are fixed (zero), the third varies with the secret
    let mk_slots = |vals: &[HVal]| -> Vec<Option<[HVal; 3]>> {
        (0..n_in)
            .map(|i| {
                if owner_of(&p.cfg, i) == 4 {
                    let t = &p.in_types[i];
                    let mut sh = [zero(t), zero(t), zero(t)];
                    sh[(obs + 2) % 3] = vals[i].clone();
                    Some(sh)
                } else {
                    None
                }
            })
            .collect()
    };
    // discovery
    let zero_vals: Vec<HVal> = p.in_types.iter().map(zero).collect();
    let mut reqs = Reqs { index: HashMap::new(), doms: vec![], by: vec![] };
    let zin = ideal_inputs(&p, &zero_vals, &mk_slots(&zero_vals));
    let v0 = p.exec.run([&zin[0], &zin[1], &zin[2]], &mut reqs, &Oracle::Discover, true);
    if let Some(u) = &v0.unsupported {
        return Outcome::skip("unsupported").label(format!("unsupported:{}", u));
    }
    if reqs.doms.len() > Tm::MAX {
        return Outcome::skip("too-many-requests");
    }
    let rel = v0.taint_view[obs];
    let rel_idx: Vec<usize> = (0..reqs.doms.len()).filter(|i| rel.get(*i)).collect();
    let mut space: u128 = 1;
    for i in &rel_idx {
        match reqs.doms[*i].size() {
            Some(s) => space = space.saturating_mul(s),
            None => space = u128::MAX,
        }
        if space > (1u128 << max_log2) {
            return Outcome::skip("tape-space-too-large").label(format!("relevant-requests:{}", rel_idx.len().min(40)));
        }
    }
    let n_msgs = v0.msgs[obs].len();
    if space.saturating_mul(1u128 << in_bits) > (1u128 << (max_log2 + 3)) {
        return Outcome::skip("tape-x-inputs-too-large");
    }
    // all input assignments
    let per_input: Vec<Vec<HVal>> = p.in_types.iter().map(all_values).collect();
    let mut assignments: Vec<Vec<HVal>> = vec![vec![]];
    for vs in &per_input {
        let mut nxt = vec![];
        for a in &assignments {
            for v in vs {
                let mut b = a.clone();
                b.push(v.clone());
                nxt.push(b);
            }
        }
        assignments = nxt;
    }
    // observer's own inputs: owned by it, or public
    let own: Vec<bool> = (0..n_in).map(|i| { let o = owner_of(&p.cfg, i); o as usize == obs || o == 3 }).collect();
    let is_recipient = p.cfg.outs.iter().any(|x| (*x % 3) as usize == obs);
    let mut groups: HashMap<String, Vec<(Vec<HVal>, HashMap<u64, u32>)>> = HashMap::new();
    let mut digits = vec![0u128; reqs.doms.len()];
    let sizes: Vec<u128> = rel_idx.iter().map(|i| reqs.doms[*i].size().unwrap()).collect();
    let mut runs = 0u64;
    for a in &assignments {
        let slots = mk_slots(a);
        let pin = ideal_inputs(&p, a, &slots);
        let mut hist: HashMap<u64, u32> = HashMap::new();
        let mut t: u128 = 0;
        while t < space {
            let mut rest = t;
            for (k, i) in rel_idx.iter().enumerate() {
                digits[*i] = rest % sizes[k];
                rest /= sizes[k];
            }
            let v = p.exec.run([&pin[0], &pin[1], &pin[2]], &mut reqs, &Oracle::Digits(&digits), false);
            if let Some(u) = &v.unsupported {
                return Outcome::skip("unsupported").label(format!("unsupported:{}", u));
            }
            let mut h = 0xcbf2_9ce4_8422_2325u64;
            fnv(&view_bytes(&v, obs, &rel), &mut h);
            *hist.entry(h).or_insert(0) += 1;
            runs += 1;
            t += 1;
        }
        let own_part: Vec<&HVal> = (0..n_in).filter(|i| own[*i]).map(|i| &a[i]).collect();
        let out_part = if is_recipient { format!("{:?}", plain_output(&p, a)) } else { String::new() };
        let key = format!("{:?}|{}", own_part, out_part);
        groups.entry(key).or_default().push((a.clone(), hist));
    }
    let mut max_group = 0;
    for (key, members) in &groups {
        max_group = max_group.max(members.len());
        for m in members.iter().skip(1) {
            if m.1 != members[0].1 {
                return Outcome::fail(
                    "view-distribution-differs",
                    format!(
                        "observer {}: exact view histograms differ between other-party inputs {:?} and {:?} (group {}; {} relevant requests, {} tapes)",
                        obs, members[0].0, m.0, key, rel_idx.len(), space
                    ),
                );
            }
        }
    }
    let nt = max_group >= 2 && n_msgs >= 1;
    let mut o = Outcome::pass(nt)
        .label(format!("observer:{}", obs))
        .label(format!("tape-log2:{}", 128 - space.leading_zeros() - 1))
        .label(format!("msgs-to-observer:{}", n_msgs.min(12)))
        .label(format!("group-max:{}", max_group.min(64)))
        .label(if is_recipient { "observer-is-recipient" } else { "observer-not-recipient" })
        .label(format!("runs:{}", crate::c01::bucket(runs as usize)));
    o = o.labels(p.labels.clone());
    o
}

// ---------------------------------------------------------------------------------------------
// sampled tier

const CHI2_255: f64 = 505.9; // chi2.isf(1e-18, 255)
const CHI2_63: f64 = 216.6; // chi2.isf(1e-18, 63)

fn chi2_two_sample(a: &[u32], b: &[u32]) -> (f64, usize) {
    // equal sample sizes: sum (a-b)^2/(a+b) over non-empty buckets
    let mut s = 0.0;
    let mut used = 0;
    for (x, y) in a.iter().zip(b.iter()) {
        let t = (*x + *y) as f64;
        if t > 0.0 {
            let d = *x as f64 - *y as f64;
            s += d * d / t;
            used += 1;
        }
    }
    (s, used)
}

/// Affine span over GF(2) of a set of bit vectors (each extended by a constant-1 coordinate), kept
/// as a reduced row basis; `contains` reduces a vector against it.
struct Gf2Span {
    words: usize,
    d: usize,
    /// (pivot column, row)
    basis: Vec<(usize, Vec<u64>)>,
}

impl Gf2Span {
    fn row(&self, s: &[u8]) -> Vec<u64> {
        let mut r = vec![0u64; self.words];
        for (i, b) in s.iter().enumerate() {
            r[i / 8] |= (*b as u64) << ((i % 8) * 8);
        }
        r[self.d / 64] |= 1 << (self.d % 64);
        r
    }
    fn reduce(&self, r: &mut Vec<u64>) {
        for (p, b) in &self.basis {
            if (r[p / 64] >> (p % 64)) & 1 == 1 {
                for w in 0..self.words {
                    r[w] ^= b[w];
                }
            }
        }
    }
    fn new(samples: &[Vec<u8>], d: usize) -> Gf2Span {
        let mut sp = Gf2Span { words: (d + 1 + 63) / 64, d, basis: vec![] };
        for s in samples {
            let mut r = sp.row(s);
            sp.reduce(&mut r);
            if let Some(p) = (0..=d).find(|i| (r[i / 64] >> (i % 64)) & 1 == 1) {
                // keep the basis reduced: eliminate the new pivot from the older rows
                for (_, b) in sp.basis.iter_mut() {
                    if (b[p / 64] >> (p % 64)) & 1 == 1 {
                        for w in 0..r.len() {
                            b[w] ^= r[w];
                        }
                    }
                }
                sp.basis.push((p, r));
            }
        }
        sp
    }
    fn contains(&self, s: &[u8]) -> bool {
        let mut r = self.row(s);
        self.reduce(&mut r);
        r.iter().all(|w| *w == 0)
    }
}

pub fn oracle_sampled(c: &Case, n_tapes: usize, max_nodes: usize) -> Outcome {
    let p = match prep(c) {
        Ok(p) => p,
        Err(o) => return o,
    };
    if p.exec.nodes.len() > max_nodes {
        return Outcome::skip("compiled-graph-too-large-for-sampling");
    }
    let obs = (c.observer % 3) as usize;
    let n_in = p.in_types.len();
    let own: Vec<bool> = (0..n_in).map(|i| { let o = owner_of(&p.cfg, i); o as usize == obs || o == 3 }).collect();
    if own.iter().all(|x| *x) {
        return Outcome::skip("observer-owns-everything");
    }
    let is_recipient = p.cfg.outs.iter().any(|x| (*x % 3) as usize == obs);
    if is_recipient && c.recipe.steps.iter().any(|s| matches!(s.k, K::Trunc2k | K::Trunc)) {
        // probabilistic truncation: the recipient's own output is a random variable whose
        // distribution depends on the low bits of the secret, so 'same output' cannot be fixed
        return Outcome::skip("randomised-output-to-observer");
    }
    // two assignments A, B differing in the other parties' inputs; if the observer is a recipient
    // they must produce the same output: search a few candidates
    let mut seed = c.tape_seed;
    let mut draw = |seed: &mut u64| -> Vec<HVal> {
        p.in_types
            .iter()
            .map(|t| {
                let mut j = junk(t, seed);
                // small values make equal outputs likelier
                if let HVal::A(xs) = &mut j {
                    for x in xs.iter_mut() {
                        if splitmix(seed) % 2 == 0 {
                            *x &= 3;
                        }
                    }
                }
                j
            })
            .collect()
    };
    let a = draw(&mut seed);
    let out_a = plain_output(&p, &a);
    if out_a.is_none() {
        return Outcome::skip("plain-runtime-error");
    }
    let mut b_found = None;
    for _ in 0..60 {
        let mut b = draw(&mut seed);
        for i in 0..n_in {
            if own[i] {
                b[i] = a[i].clone();
            }
        }
        if b == a {
            continue;
        }
        if is_recipient && plain_output(&p, &b) != out_a {
            continue;
        }
        b_found = Some(b);
        break;
    }
    let b = match b_found {
        Some(b) => b,
        None => return Outcome::skip("no-second-assignment-with-equal-output"),
    };
    let mk_slots = |vals: &[HVal]| -> Vec<Option<[HVal; 3]>> {
        (0..n_in)
            .map(|i| {
                if owner_of(&p.cfg, i) == 4 {
                    let t = &p.in_types[i];
                    let mut sh = [zero(t), zero(t), zero(t)];
                    sh[(obs + 2) % 3] = vals[i].clone();
                    Some(sh)
                } else {
                    None
                }
            })
            .collect()
    };
    let mut reqs = Reqs { index: HashMap::new(), doms: vec![], by: vec![] };
    let pin_a = ideal_inputs(&p, &a, &mk_slots(&a));
    let pin_b = ideal_inputs(&p, &b, &mk_slots(&b));
    // the number of sampled tapes grows with the view size so that the GF(2) span test applies
    // (it needs twice (view bits + 128) samples), up to three times the base budget
    // discovery run with taint tracking: of the observer's own oracle values only those that can
    // (syntactically) influence what it receives or outputs are correlated with the rest of its
    // view; the others are independent uniform coordinates and are left out (as in the exhaustive
    // tier), which keeps the view of e.g. a sort within the sample budget of the span test
    let rel = {
        let v = p.exec.run([&pin_a[0], &pin_a[1], &pin_a[2]], &mut reqs, &Oracle::Discover, true);
        if let Some(u) = &v.unsupported {
            return Outcome::skip("unsupported").label(format!("unsupported:{}", u));
        }
        v.taint_view[obs]
    };
    let n_tapes = {
        let v = p.exec.run([&pin_a[0], &pin_a[1], &pin_a[2]], &mut reqs, &Oracle::Sampled(1), false);
        let bytes: usize = v.msgs[obs].iter().map(|(_, b)| b.len()).sum::<usize>()
            + v.out[obs].as_ref().map(|b| b.len()).unwrap_or(0)
            + v.req_vals[obs].iter().filter(|(i, _)| *i == usize::MAX || rel.get(*i)).map(|(_, b)| b.len()).sum::<usize>();
        n_tapes.max(2 * (bytes * 8 + 128)).min(3 * n_tapes)
    };
    // collect views
    let full: std::cell::RefCell<Vec<Vec<u8>>> = std::cell::RefCell::new(vec![]);
    let collect = |pin: &[Vec<Value>; 3], reqs: &mut Reqs, base: u64| -> Result<Vec<Vec<u8>>, String> {
        let mut out = Vec::with_capacity(n_tapes);
        for k in 0..n_tapes {
            let mut s = base.wrapping_add(k as u64).wrapping_mul(0x9E37_79B9_7F4A_7C15);
            let tape = splitmix(&mut s);
            let v = p.exec.run([&pin[0], &pin[1], &pin[2]], reqs, &Oracle::Sampled(tape), false);
            if let Some(u) = &v.unsupported {
                return Err(u.clone());
            }
            let mut bytes = vec![];
            for (_, b) in &v.msgs[obs] {
                bytes.extend_from_slice(b);
            }
            if let Some(b) = &v.out[obs] {
                bytes.extend_from_slice(b);
            }
            // the observer's own oracle values (masks it can compute, its own random draws)
            let mut own = vec![];
            for (i, b) in &v.req_vals[obs] {
                if *i == usize::MAX || rel.get(*i) {
                    own.extend_from_slice(b);
                }
            }
            full.borrow_mut().push(own);
            out.push(bytes);
        }
        Ok(out)
    };
    let va = match collect(&pin_a, &mut reqs, c.tape_seed ^ 0xA5A5) {
        Ok(v) => v,
        Err(u) => return Outcome::skip("unsupported").label(format!("unsupported:{}", u)),
    };
    let own_a: Vec<Vec<u8>> = full.borrow_mut().drain(..).collect();
    let vb = match collect(&pin_b, &mut reqs, c.tape_seed ^ 0x5A5A_0000) {
        Ok(v) => v,
        Err(u) => return Outcome::skip("unsupported").label(format!("unsupported:{}", u)),
    };
    let own_b: Vec<Vec<u8>> = full.borrow_mut().drain(..).collect();
    let len = va[0].len();
    if len == 0 {
        return Outcome::pass(false).label("empty-view");
    }
    if va.iter().chain(vb.iter()).any(|x| x.len() != len) {
        return Outcome::fail("view-length-varies", "the observer's view length depends on the tape or on the other parties' inputs".to_string());
    }
    // exact: a byte that is constant over tapes within A and within B but differs between them
    for i in 0..len {
        let ca = va.iter().all(|x| x[i] == va[0][i]);
        let cb = vb.iter().all(|x| x[i] == vb[0][i]);
        if ca && cb && va[0][i] != vb[0][i] {
            return Outcome::fail(
                "unmasked-byte",
                format!("observer {}: view byte {} is tape-independent but depends on the other parties' inputs ({} vs {})", obs, i, va[0][i], vb[0][i]),
            );
        }
    }
    // GF(2)-affine leak test. The affine span (over GF(2)) of the sampled views under assignment A
    // is computed from one half of the samples; views under assignment B that fall OUTSIDE that
    // span violate some XOR relation that holds on every sampled tape of A. If the two view
    // distributions are equal, a fresh B view is outside span(A-half) exactly as often as a fresh
    // A view is (the other half of A measures that rate: relations that hold "almost always",
    // e.g. between x - r and y + r in high bits, make it non-zero). A leak (mask reuse, a leaked
    // third share, an unmasked bit) puts a large fraction of B views outside. Alarm only if the
    // outside fraction is >= 10 % AND >= 10 x the calibrated same-assignment rate, and only if the
    // alarm repeats on two further independent sample sets.
    let mut rel_bits = 0usize;
    // twice: on the whole view (messages, output, the observer's own mask values) and on the
    // messages and output alone (a much smaller vector, which fits the sample budget when the
    // whole view does not)
    for with_own in [true, false] {
        let join = |v: &Vec<Vec<u8>>, o: &Vec<Vec<u8>>| -> Vec<Vec<u8>> {
            if with_own {
                v.iter().zip(o.iter()).map(|(x, y)| { let mut z = x.clone(); z.extend_from_slice(y); z }).collect()
            } else {
                v.clone()
            }
        };
        let fa = join(&va, &own_a);
        let fb = join(&vb, &own_b);
        // bytes that never vary over all samples of both assignments (opaque key constants, the
        // zero upper bytes of small integers ...) carry no information: project them away so that
        // larger views fit the sample budget
        let keep: Vec<usize> = if fa.iter().chain(fb.iter()).all(|x| x.len() == fa[0].len()) {
            (0..fa[0].len()).filter(|i| fa.iter().chain(fb.iter()).any(|x| x[*i] != fa[0][*i])).collect()
        } else {
            (0..fa[0].len()).collect()
        };
        let project = |v: &Vec<Vec<u8>>| -> Vec<Vec<u8>> { v.iter().map(|x| keep.iter().filter_map(|i| x.get(*i).copied()).collect()).collect() };
        let same_len = fa.iter().chain(fb.iter()).all(|x| x.len() == fa[0].len());
        let (fa, fb) = if same_len { (project(&fa), project(&fb)) } else { (fa, fb) };
        let d = fa[0].len() * 8;
        let half = fa.len().min(fb.len()) / 2;
        if fa.iter().chain(fb.iter()).all(|x| x.len() * 8 == d) && d + 128 <= half {
            rel_bits = rel_bits.max(d);
            let alarm = |fa: &Vec<Vec<u8>>, fb: &Vec<Vec<u8>>| -> Option<(String, usize, usize, usize)> {
                for (name, x, y) in [("A", fa, fb), ("B", fb, fa)] {
                    let span = Gf2Span::new(&x[..half], d);
                    let base = x[half..2 * half].iter().filter(|v| !span.contains(v)).count();
                    let out = y[half..2 * half].iter().filter(|v| !span.contains(v)).count();
                    if out * 10 >= half && out >= 10 * (base + 5) {
                        return Some((name.to_string(), out, base, half));
                    }
                }
                None
            };
            if let Some((name, out, base, n)) = alarm(&fa, &fb) {
                // repeat twice with fresh tapes
                let mut confirmed = true;
                for rep in 1..=2u64 {
                    let va2 = collect(&pin_a, &mut reqs, c.tape_seed ^ (0xA5A5 + rep * 0x1111_0000_0000));
                    let oa2: Vec<Vec<u8>> = full.borrow_mut().drain(..).collect();
                    let vb2 = collect(&pin_b, &mut reqs, c.tape_seed ^ (0x5A5A_0000 + rep * 0x2222_0000_0000));
                    let ob2: Vec<Vec<u8>> = full.borrow_mut().drain(..).collect();
                    match (va2, vb2) {
                        (Ok(va2), Ok(vb2)) => {
                            let (ja, jb) = (join(&va2, &oa2), join(&vb2, &ob2));
                            let (ja, jb) = if same_len && ja.iter().chain(jb.iter()).all(|x| x.len() > *keep.last().unwrap_or(&0)) { (project(&ja), project(&jb)) } else { (ja, jb) };
                            if ja.is_empty() || jb.is_empty() || ja[0].len() * 8 != d || alarm(&ja, &jb).is_none() {
                                confirmed = false;
                                break;
                            }
                        }
                        _ => {
                            confirmed = false;
                            break;
                        }
                    }
                }
                if confirmed {
                    return Outcome::fail(
                        "xor-relation",
                        format!(
                            "observer {}: {} of {} sampled views under one assignment violate XOR relations that hold on every sampled tape of assignment {} (same-assignment rate {} of {}); confirmed on 3 independent sample sets; assignments {:?} vs {:?}",
                            obs, out, n, name, base, n, a, b
                        ),
                    );
                }
            }
        }
    
    }
    let cap = len.min(96);
    // byte marginals
    for i in 0..cap {
        let mut ha = [0u32; 256];
        let mut hb = [0u32; 256];
        for x in &va {
            ha[x[i] as usize] += 1;
        }
        for x in &vb {
            hb[x[i] as usize] += 1;
        }
        let (s, _) = chi2_two_sample(&ha, &hb);
        if s > CHI2_255 {
            return Outcome::fail("byte-marginal", format!("observer {}: distribution of view byte {} differs (chi2={:.0})", obs, i, s));
        }
    }
    // pairwise differences and xors
    let cap2 = len.min(40);
    for i in 0..cap2 {
        for j in (i + 1)..cap2 {
            let mut da = [0u32; 256];
            let mut db = [0u32; 256];
            let mut xa = [0u32; 256];
            let mut xb = [0u32; 256];
            for x in &va {
                da[x[i].wrapping_sub(x[j]) as usize] += 1;
                xa[(x[i] ^ x[j]) as usize] += 1;
            }
            for x in &vb {
                db[x[i].wrapping_sub(x[j]) as usize] += 1;
                xb[(x[i] ^ x[j]) as usize] += 1;
            }
            let (s1, _) = chi2_two_sample(&da, &db);
            let (s2, _) = chi2_two_sample(&xa, &xb);
            if s1 > CHI2_255 || s2 > CHI2_255 {
                return Outcome::fail(
                    "byte-pair",
                    format!("observer {}: joint distribution of view bytes {} and {} differs (chi2 diff={:.0} xor={:.0})", obs, i, j, s1, s2),
                );
            }
        }
    }
    // hash of the whole view
    let mut ha = [0u32; 64];
    let mut hb = [0u32; 64];
    for x in &va {
        let mut h = 0xcbf2_9ce4_8422_2325u64;
        fnv(x, &mut h);
        ha[(h >> 58) as usize] += 1;
    }
    for x in &vb {
        let mut h = 0xcbf2_9ce4_8422_2325u64;
        fnv(x, &mut h);
        hb[(h >> 58) as usize] += 1;
    }
    let (s, _) = chi2_two_sample(&ha, &hb);
    if s > CHI2_63 {
        return Outcome::fail("view-hash", format!("observer {}: distribution of the hashed view differs (chi2={:.0})", obs, s));
    }
    let n_msgs = len;
    let mut o = Outcome::pass(n_msgs >= 1)
        .label(format!("observer:{}", obs))
        .label(format!("view-bytes:{}", crate::c01::bucket(len)))
        .label(format!("xor-relation-bits:{}", crate::c01::bucket(rel_bits)))
        .label(format!("compiled-nodes:{}", crate::c01::bucket(p.exec.nodes.len())))
        .label(if is_recipient { "observer-is-recipient" } else { "observer-not-recipient" });
    o = o.labels(p.labels.clone());
    o
}

/// pinned: out = CreateTuple(x*y, w) on bits, w owned by party 0 (the only output party and the
/// observer), x by party 1, y by party 2: the container holds an un-reshared product next to a
/// reshared value and must be reshared before it is revealed
pub fn pinned_tuple_of_product_and_input() -> Case {
    let st = |k: K, a: u16, b: u16, p: [u16; 4]| Step { k, a, b, c: 0, p };
    Case {
        recipe: Recipe {
            subs: vec![],
            steps: vec![
                st(K::InputSmallBit, 0, 0, [0, 0, 0, 0]),
                st(K::InputSmallBit, 0, 0, [0, 0, 0, 0]),
                st(K::InputSmallBit, 0, 0, [0, 0, 0, 0]),
                st(K::Mul, 0, 30000, [0, 3, 0, 0]),
                st(K::MkTuple, 0, 65535, [2, 0, 0, 0]),
            ],
            out: 0,
            vals: vec![],
        },
        cfg: MpcCfg { owners: vec![0, 1, 2], outs: vec![0], mode: 0, compile_seed: [3; 16] },
        observer: 0,
        tape_seed: 1,
    }
}

pub fn run(env: &Env) {
    env.assume("pseudo-random masks idealised: PRF keys are opaque identities, every (key, counter, type) request and every Random node is an independent uniform value");
    env.assume("junk supplied by other parties for inputs they do not own is held fixed (zero) inside a group");
    env.assume("sampled tier is statistical (two-sample chi-square, per-test threshold p<1e-18) and covers 8-bit sources only; only the exhaustive tier is exact");
    env.set_shrink_iters(150);
    let lim = env.pick(12u32, 15u32);
    env.campaign("exhaustive-bit-graphs", "exact view histograms over all relevant oracle assignments x all input assignments", env.n(240, 6000), arb_e_case, move |c| oracle_exhaustive(c, lim));
    env.pinned("tuple-of-product-and-input", &pinned_tuple_of_product_and_input(), move |c| oracle_exhaustive(c, 16));
    let nt = env.pick(2000usize, 5000usize);
    let mx = env.pick(700usize, 3000usize);
    env.set_shrink_iters(30);
    env.campaign("sampled-byte-graphs", "two-sample tests on sampled tapes", env.n(400, 8000), arb_s_case, move |c| oracle_sampled(c, nt, mx));
}

pub fn replay(check: &str, case: J) -> Outcome {
    match check {
        "exhaustive-bit-graphs" | "tuple-of-product-and-input" => replay_with::<Case, _>(case, |c| oracle_exhaustive(c, 16)),
        _ => replay_with::<Case, _>(case, |c| oracle_sampled(c, 5000, 3000)),
    }
}
