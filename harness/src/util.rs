//! Panic capture, stderr silencing, small helpers.
use std::cell::RefCell;
use std::panic::{catch_unwind, AssertUnwindSafe};
use std::sync::Once;

thread_local! {
    static LAST_PANIC: RefCell<String> = RefCell::new(String::new());
}
static HOOK: Once = Once::new();

pub fn install_panic_hook() {
    HOOK.call_once(|| {
        std::panic::set_hook(Box::new(|info| {
            let loc = info
                .location()
                .map(|l| format!("{}:{}", l.file(), l.line()))
                .unwrap_or_default();
            let msg = if let Some(s) = info.payload().downcast_ref::<&str>() {
                s.to_string()
            } else if let Some(s) = info.payload().downcast_ref::<String>() {
                s.clone()
            } else {
                "<non-string panic>".to_string()
            };
            LAST_PANIC.with(|p| *p.borrow_mut() = format!("{} @ {}", msg, loc));
        }));
    });
}

/// Runs `f`, converting a panic into Err(message @ location).
pub fn catch<T, F: FnOnce() -> T>(f: F) -> Result<T, String> {
    install_panic_hook();
    match catch_unwind(AssertUnwindSafe(f)) {
        Ok(v) => Ok(v),
        Err(_) => Err(LAST_PANIC.with(|p| p.borrow().clone())),
    }
}

/// ciphercore prints progress to stderr (compile_context statistics); send fd 2 to /dev/null
/// unless VH_STDERR=1.
pub fn silence_stderr() {
    if std::env::var("VH_STDERR").ok().as_deref() == Some("1") {
        return;
    }
    unsafe {
        let path = b"/dev/null\0";
        let fd = libc::open(path.as_ptr() as *const libc::c_char, libc::O_WRONLY);
        if fd >= 0 {
            libc::dup2(fd, 2);
            libc::close(fd);
        }
    }
}

/// Watchdog: exit 2 (inconclusive) when the whole check exceeds its wall-clock cap. Never a violation.
pub fn start_watchdog(max_secs: u64) {
    std::thread::spawn(move || {
        std::thread::sleep(std::time::Duration::from_secs(max_secs));
        println!("INCONCLUSIVE: watchdog fired after {} s", max_secs);
        std::process::exit(2);
    });
}

pub fn err_string<T>(r: &ciphercore_base::errors::Result<T>) -> String {
    match r {
        Ok(_) => String::new(),
        Err(e) => format!("{}", e),
    }
}
