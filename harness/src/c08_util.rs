//! C08 helpers: plain-data operation specs, two harness-defined custom operations (nesting),
//! instantiation closure / collision diagnosis, and the context oracle (totality + meaning).
use crate::core::Outcome;
use crate::hv::*;
use crate::util::catch;
use ciphercore_base::custom_ops::{
    run_instantiation_pass, CustomOperation, CustomOperationBody, Not, Or,
};
use ciphercore_base::data_types::Type;
use ciphercore_base::data_values::Value;
use ciphercore_base::errors::Result as CResult;
use ciphercore_base::evaluators::simple_evaluator::SimpleEvaluator;
use ciphercore_base::evaluators::Evaluator;
use ciphercore_base::graphs::{create_context, Context, Graph, Node, Operation};
use ciphercore_base::ops::adder::BinaryAdd;
use ciphercore_base::ops::auc::AucScore;
use ciphercore_base::ops::clip::Clip2K;
use ciphercore_base::ops::comparisons::{
    Equal, GreaterThan, GreaterThanEqualTo, LessThan, LessThanEqualTo, NotEqual,
};
use ciphercore_base::ops::fixed_precision::fixed_multiply::FixedMultiply;
use ciphercore_base::ops::fixed_precision::fixed_precision_config::FixedPrecisionConfig;
use ciphercore_base::ops::goldschmidt_division::GoldschmidtDivision;
use ciphercore_base::ops::integer_key_sort::SortByIntegerKey;
use ciphercore_base::ops::inverse_sqrt::InverseSqrt;
use ciphercore_base::ops::long_division::LongDivision;
use ciphercore_base::ops::min_max::{Max, Min};
use ciphercore_base::ops::multiplexer::Mux;
use ciphercore_base::ops::newton_inversion::NewtonInversion;
use ciphercore_base::ops::pwl::approx_exponent::ApproxExponent;
use ciphercore_base::ops::pwl::approx_gelu::ApproxGelu;
use ciphercore_base::ops::pwl::approx_gelu_derivative::ApproxGeluDerivative;
use ciphercore_base::ops::pwl::approx_sigmoid::ApproxSigmoid;
use ciphercore_base::ops::taylor_exponent::TaylorExponent;
use serde::{Deserialize, Serialize};
use std::collections::{BTreeMap, HashMap};

/// A library custom operation with its parameters, as plain data.
#[derive(Clone, Debug, Serialize, Deserialize, PartialEq, Eq, Hash)]
pub enum Spec {
    Not,
    Or,
    Mux,
    Equal,
    NotEqual,
    Lt(bool),
    Le(bool),
    Gt(bool),
    Ge(bool),
    Min(bool),
    Max(bool),
    BinAdd(bool),
    Clip(u64),
    LongDiv(bool),
    SortKey(String),
    FixMul { frac: u64, debug: bool },
    Newton { it: u64, cap: u64 },
    InvSqrt { it: u64, cap: u64 },
    Gold { it: u64, cap: u64 },
    Taylor { terms: u64, fpp: u64 },
    ApproxExp { prec: u64 },
    ApproxSigmoid { prec: u64, lb: u64 },
    ApproxGelu { prec: u64, lb: u64 },
    ApproxGeluD { prec: u64, lb: u64 },
    Auc { frac: u64, debug: bool },
    /// harness-defined: applies the inner operation, and once more when the result type allows it
    Twice(Box<Spec>, u8),
    /// harness-defined: applies both operations to the same arguments, returns the pair
    Both(Box<Spec>, Box<Spec>),
}

pub fn to_op(s: &Spec) -> CustomOperation {
    match s {
        Spec::Not => CustomOperation::new(Not {}),
        Spec::Or => CustomOperation::new(Or {}),
        Spec::Mux => CustomOperation::new(Mux {}),
        Spec::Equal => CustomOperation::new(Equal {}),
        Spec::NotEqual => CustomOperation::new(NotEqual {}),
        Spec::Lt(s) => CustomOperation::new(LessThan { signed_comparison: *s }),
        Spec::Le(s) => CustomOperation::new(LessThanEqualTo { signed_comparison: *s }),
        Spec::Gt(s) => CustomOperation::new(GreaterThan { signed_comparison: *s }),
        Spec::Ge(s) => CustomOperation::new(GreaterThanEqualTo { signed_comparison: *s }),
        Spec::Min(s) => CustomOperation::new(Min { signed_comparison: *s }),
        Spec::Max(s) => CustomOperation::new(Max { signed_comparison: *s }),
        Spec::BinAdd(o) => CustomOperation::new(BinaryAdd { overflow_bit: *o }),
        Spec::Clip(k) => CustomOperation::new(Clip2K { k: *k }),
        Spec::LongDiv(s) => CustomOperation::new(LongDivision { signed: *s }),
        Spec::SortKey(k) => CustomOperation::new(SortByIntegerKey { key: k.clone() }),
        Spec::FixMul { frac, debug } => CustomOperation::new(FixedMultiply {
            config: FixedPrecisionConfig { fractional_bits: *frac, debug: *debug },
        }),
        Spec::Newton { it, cap } => CustomOperation::new(NewtonInversion { iterations: *it, denominator_cap_2k: *cap }),
        Spec::InvSqrt { it, cap } => CustomOperation::new(InverseSqrt { iterations: *it, denominator_cap_2k: *cap }),
        Spec::Gold { it, cap } => CustomOperation::new(GoldschmidtDivision { iterations: *it, denominator_cap_2k: *cap }),
        Spec::Taylor { terms, fpp } => CustomOperation::new(TaylorExponent { taylor_terms: *terms, fixed_precision_points: *fpp }),
        Spec::ApproxExp { prec } => CustomOperation::new(ApproxExponent { precision: *prec }),
        Spec::ApproxSigmoid { prec, lb } => CustomOperation::new(ApproxSigmoid { precision: *prec, approximation_log_buckets: *lb }),
        Spec::ApproxGelu { prec, lb } => CustomOperation::new(ApproxGelu { precision: *prec, approximation_log_buckets: *lb }),
        Spec::ApproxGeluD { prec, lb } => CustomOperation::new(ApproxGeluDerivative { precision: *prec, approximation_log_buckets: *lb }),
        Spec::Auc { frac, debug } => CustomOperation::new(AucScore {
            fp: FixedPrecisionConfig { fractional_bits: *frac, debug: *debug },
        }),
        Spec::Twice(inner, tag) => CustomOperation::new(C08Twice { inner: (**inner).clone(), tag: *tag }),
        Spec::Both(a, b) => CustomOperation::new(C08Both { a: (**a).clone(), b: (**b).clone() }),
    }
}

/// operation family (the struct name in ciphercore)
pub fn fam(s: &Spec) -> &'static str {
    match s {
        Spec::Not => "Not",
        Spec::Or => "Or",
        Spec::Mux => "Mux",
        Spec::Equal => "Equal",
        Spec::NotEqual => "NotEqual",
        Spec::Lt(_) => "LessThan",
        Spec::Le(_) => "LessThanEqualTo",
        Spec::Gt(_) => "GreaterThan",
        Spec::Ge(_) => "GreaterThanEqualTo",
        Spec::Min(_) => "Min",
        Spec::Max(_) => "Max",
        Spec::BinAdd(_) => "BinaryAdd",
        Spec::Clip(_) => "Clip2K",
        Spec::LongDiv(_) => "LongDivision",
        Spec::SortKey(_) => "SortByIntegerKey",
        Spec::FixMul { .. } => "FixedMultiply",
        Spec::Newton { .. } => "NewtonInversion",
        Spec::InvSqrt { .. } => "InverseSqrt",
        Spec::Gold { .. } => "GoldschmidtDivision",
        Spec::Taylor { .. } => "TaylorExponent",
        Spec::ApproxExp { .. } => "ApproxExponent",
        Spec::ApproxSigmoid { .. } => "ApproxSigmoid",
        Spec::ApproxGelu { .. } => "ApproxGelu",
        Spec::ApproxGeluD { .. } => "ApproxGeluDerivative",
        Spec::Auc { .. } => "AucScore",
        Spec::Twice(..) => "C08Twice",
        Spec::Both(..) => "C08Both",
    }
}

// ---------------------------------------------------------------------------------------------
// harness-defined custom operations (their reported names contain every parameter)

#[derive(Debug, Serialize, Deserialize, PartialEq, Eq, Hash)]
pub struct C08Twice {
    pub inner: Spec,
    pub tag: u8,
}

#[typetag::serde]
impl CustomOperationBody for C08Twice {
    fn instantiate(&self, context: Context, arguments_types: Vec<Type>) -> CResult<Graph> {
        let g = context.create_graph()?;
        let mut ins = vec![];
        for t in &arguments_types {
            ins.push(g.input(t.clone())?);
        }
        let op = to_op(&self.inner);
        let r1 = g.custom_op(op.clone(), ins.clone())?;
        let out = if !ins.is_empty() && r1.get_type()? == arguments_types[0] {
            let mut again = ins.clone();
            again[0] = r1;
            g.custom_op(op, again)?
        } else {
            r1
        };
        out.set_as_output()?;
        g.finalize()?;
        Ok(g)
    }
    fn get_name(&self) -> String {
        format!("C08Twice({:?},{})", self.inner, self.tag)
    }
}

#[derive(Debug, Serialize, Deserialize, PartialEq, Eq, Hash)]
pub struct C08Both {
    pub a: Spec,
    pub b: Spec,
}

#[typetag::serde]
impl CustomOperationBody for C08Both {
    fn instantiate(&self, context: Context, arguments_types: Vec<Type>) -> CResult<Graph> {
        let g = context.create_graph()?;
        let mut ins = vec![];
        for t in &arguments_types {
            ins.push(g.input(t.clone())?);
        }
        let ra = g.custom_op(to_op(&self.a), ins.clone())?;
        let rb = g.custom_op(to_op(&self.b), ins)?;
        g.create_tuple(vec![ra, rb])?.set_as_output()?;
        g.finalize()?;
        Ok(g)
    }
    fn get_name(&self) -> String {
        format!("C08Both({:?},{:?})", self.a, self.b)
    }
}

// ---------------------------------------------------------------------------------------------
// instantiation closure and collision diagnosis

#[derive(Clone, Debug)]
pub struct InstInfo {
    /// the graph name run_instantiation_pass gives to this instantiation
    pub name: String,
    /// identity of the instantiation: serialized operation (all parameters) + argument types
    pub key: String,
    /// typetag of the operation struct
    pub tag: String,
    pub depth: usize,
}

pub fn tag_of(op: &CustomOperation) -> String {
    serde_json::to_value(op)
        .ok()
        .and_then(|v| v["body"]["type"].as_str().map(|s| s.to_string()))
        .unwrap_or_else(|| "?".to_string())
}

pub fn key_of(op: &CustomOperation, types: &[Type]) -> String {
    let ts: Vec<String> = types.iter().map(|t| serde_json::to_string(t).unwrap_or_default()).collect();
    format!("{}|{}", serde_json::to_string(op).unwrap_or_default(), ts.join(","))
}

pub fn inst_name(op: &CustomOperation, types: &[Type]) -> String {
    let ts: Vec<String> = types.iter().map(|t| t.to_string()).collect();
    format!("__{}::<{}>", op.get_name(), ts.join(", "))
}

pub fn dep_types(node: &Node) -> Vec<Type> {
    node.get_node_dependencies().iter().map(|d| d.get_type().expect("untyped node")).collect()
}

#[derive(Clone, Debug)]
pub struct Collision {
    pub sig: String,
    pub name: String,
    pub keys: Vec<String>,
}

pub struct Iso {
    pub _ctx: Context,
    pub _inst: Context,
    pub main: Graph,
}

#[derive(Default)]
pub struct Work {
    clos: HashMap<String, Vec<InstInfo>>,
    iso: HashMap<String, Result<std::rc::Rc<Iso>, (String, String)>>,
}

impl Work {
    /// every instantiation needed for (op, types), itself included (depth 1)
    pub fn closure(&mut self, op: &CustomOperation, types: &[Type]) -> Vec<InstInfo> {
        let key = key_of(op, types);
        if let Some(v) = self.clos.get(&key) {
            return v.clone();
        }
        let mut out = vec![InstInfo { name: inst_name(op, types), key: key.clone(), tag: tag_of(op), depth: 1 }];
        self.clos.insert(key.clone(), out.clone());
        let children: Vec<(CustomOperation, Vec<Type>)> = catch(|| -> Vec<(CustomOperation, Vec<Type>)> {
            let mut v = vec![];
            let fc = match create_context() {
                Ok(c) => c,
                Err(_) => return v,
            };
            if op.instantiate(fc.clone(), types.to_vec()).is_err() {
                return v;
            }
            for g in fc.get_graphs() {
                for n in g.get_nodes() {
                    if let Operation::Custom(c) = n.get_operation() {
                        v.push((c, dep_types(&n)));
                    }
                }
            }
            v
        })
        .unwrap_or_default();
        for (c, ts) in children {
            for mut i in self.closure(&c, &ts) {
                i.depth += 1;
                match out.iter_mut().find(|o| o.key == i.key) {
                    Some(o) => o.depth = o.depth.max(i.depth),
                    None => out.push(i),
                }
            }
        }
        self.clos.insert(key, out.clone());
        out
    }

    /// the context containing exactly one node `op(args of these types)`, instantiated alone
    fn isolated(&mut self, op: &CustomOperation, types: &[Type], excl: &[String]) -> Result<std::rc::Rc<Iso>, (String, String)> {
        let key = key_of(op, types);
        if let Some(r) = self.iso.get(&key) {
            return r.clone();
        }
        let built = catch(|| -> Result<Context, String> {
            let c = create_context().map_err(|e| e.to_string())?;
            let g = c.create_graph().map_err(|e| e.to_string())?;
            let mut ins = vec![];
            for t in types {
                ins.push(g.input(t.clone()).map_err(|e| e.to_string())?);
            }
            let n = g.custom_op(op.clone(), ins).map_err(|e| e.to_string())?;
            g.set_output_node(n).map_err(|e| e.to_string())?;
            g.finalize().map_err(|e| e.to_string())?;
            c.set_main_graph(g).map_err(|e| e.to_string())?;
            c.finalize().map_err(|e| e.to_string())?;
            Ok(c)
        });
        let r = match built {
            Err(p) => Err(("iso-build-panic".to_string(), p)),
            Ok(Err(e)) => Err(("iso-build".to_string(), format!("a node accepted in its graph is rejected alone: {}", e))),
            Ok(Ok(c)) => match catch(|| run_instantiation_pass(c.clone())) {
                Err(p) => Err(("iso-instantiation-panic".to_string(), p)),
                Ok(Err(e)) => {
                    let infos = self.closure(op, types);
                    let (sig, msg) = classify_inst_error(&e.to_string(), &infos, excl);
                    Err((sig, format!("single-node context {}: {}", inst_name(op, types), msg)))
                }
                Ok(Ok(m)) => {
                    let ic = m.get_context();
                    match ic.get_main_graph() {
                        Ok(main) => Ok(std::rc::Rc::new(Iso { _ctx: c, _inst: ic, main })),
                        Err(e) => Err(("iso-instantiation".to_string(), e.to_string())),
                    }
                }
            },
        };
        self.iso.insert(key, r.clone());
        r
    }
}

/// groups of instantiations that get the same graph name although they are different
pub fn collisions(infos: &[InstInfo]) -> Vec<Collision> {
    let mut by_name: BTreeMap<String, Vec<&InstInfo>> = BTreeMap::new();
    for i in infos {
        let e = by_name.entry(i.name.clone()).or_default();
        if !e.iter().any(|x| x.key == i.key) {
            e.push(i);
        }
    }
    let mut out = vec![];
    for (name, v) in by_name {
        if v.len() >= 2 {
            let mut tags: Vec<String> = v.iter().map(|x| x.tag.clone()).collect();
            tags.sort();
            tags.dedup();
            out.push(Collision {
                sig: format!("name-collision-{}", tags.join("-vs-")),
                name,
                keys: v.iter().map(|x| x.key.clone()).collect(),
            });
        }
    }
    out.sort_by(|a, b| a.sig.cmp(&b.sig));
    out
}

/// signature + message for an Err of run_instantiation_pass
pub fn classify_inst_error(err: &str, infos: &[InstInfo], excl: &[String]) -> (String, String) {
    if err.contains("Graph names must be unique") {
        let cols = collisions(infos);
        // prefer a collision that is not a known finding, so that new ones surface
        let pickd = cols.iter().find(|c| !excl.contains(&c.sig)).or_else(|| cols.first());
        if let Some(c) = pickd {
            return (
                c.sig.clone(),
                format!(
                    "run_instantiation_pass -> Err(Graph names must be unique): {} distinct instantiations are all named {} : {:?}",
                    c.keys.len(),
                    c.name,
                    c.keys
                ),
            );
        }
    }
    ("instantiation-error".to_string(), format!("run_instantiation_pass -> Err: {}", err.chars().take(400).collect::<String>()))
}

// ---------------------------------------------------------------------------------------------
// evaluation: reference (per-node definition) and instantiated

type NodeVals = Vec<Result<Value, String>>;

fn collect_deps(node: &Node, vals: &NodeVals) -> Result<Vec<Value>, String> {
    let mut deps = vec![];
    for d in node.get_node_dependencies() {
        match &vals[d.get_id() as usize] {
            Ok(v) => deps.push(v.clone()),
            Err(_) => return Err("dependency failed".to_string()),
        }
    }
    Ok(deps)
}

/// Reference: walks the ORIGINAL graph; a Custom node is evaluated by the single-node context of
/// exactly its (operation, argument types); Call recurses with the same rule.
/// Err(outcome) = the reference itself could not be built (judged by the caller).
pub fn ref_walk(
    w: &mut Work,
    ev: &mut SimpleEvaluator,
    graph: &Graph,
    inputs: &[Value],
    excl: &[String],
) -> Result<NodeVals, (String, String)> {
    let mut vals: NodeVals = vec![];
    let mut next_input = 0usize;
    for node in graph.get_nodes() {
        let v: Result<Value, String> = match node.get_operation() {
            Operation::Input(_) => {
                let v = inputs.get(next_input).cloned().ok_or_else(|| "too few inputs".to_string());
                next_input += 1;
                v
            }
            Operation::Custom(op) => match collect_deps(&node, &vals) {
                Err(e) => Err(e),
                Ok(deps) => {
                    let iso = w.isolated(&op, &dep_types(&node), excl)?;
                    match catch(|| ev.evaluate_graph(iso.main.clone(), deps)) {
                        Ok(Ok(v)) => Ok(v),
                        Ok(Err(e)) => Err(format!("runtime error: {}", e)),
                        Err(p) => Err(format!("panic: {}", p)),
                    }
                }
            },
            Operation::Call => match collect_deps(&node, &vals) {
                Err(e) => Err(e),
                Ok(deps) => {
                    let callee = node.get_graph_dependencies()[0].clone();
                    let sub = ref_walk(w, ev, &callee, &deps, excl)?;
                    let out_id = callee.get_output_node().map_err(|e| ("harness".to_string(), e.to_string()))?.get_id() as usize;
                    // a graph evaluation fails as a whole when any of its nodes fails (also an unused one)
                    match sub.iter().find_map(|r| r.as_ref().err()) {
                        Some(e) => Err(format!("callee node failed: {}", e)),
                        None => sub[out_id].clone(),
                    }
                }
            },
            Operation::Iterate => Err("Iterate is not generated by C08".to_string()),
            _ => match collect_deps(&node, &vals) {
                Err(e) => Err(e),
                Ok(deps) => match catch(|| ev.evaluate_node(node.clone(), deps)) {
                    Ok(Ok(v)) => Ok(v),
                    Ok(Err(e)) => Err(format!("runtime error: {}", e)),
                    Err(p) => Err(format!("panic: {}", p)),
                },
            },
        };
        vals.push(v);
    }
    Ok(vals)
}

/// evaluates an instantiated graph keeping every node value; a failing node does not stop the walk
pub fn inst_walk(ev: &mut SimpleEvaluator, graph: &Graph, inputs: &[Value]) -> NodeVals {
    let mut vals: NodeVals = vec![];
    let mut next_input = 0usize;
    for node in graph.get_nodes() {
        let v: Result<Value, String> = match node.get_operation() {
            Operation::Input(_) => {
                let v = inputs.get(next_input).cloned().ok_or_else(|| "too few inputs".to_string());
                next_input += 1;
                v
            }
            Operation::Call | Operation::Iterate => match collect_deps(&node, &vals) {
                Err(e) => Err(e),
                Ok(deps) => match catch(|| ev.evaluate_call_iterate(node.clone(), deps)) {
                    Ok(Ok(v)) => Ok(v),
                    Ok(Err(e)) => Err(format!("runtime error: {}", e)),
                    Err(p) => Err(format!("panic: {}", p)),
                },
            },
            _ => match collect_deps(&node, &vals) {
                Err(e) => Err(e),
                Ok(deps) => match catch(|| ev.evaluate_node(node.clone(), deps)) {
                    Ok(Ok(v)) => Ok(v),
                    Ok(Err(e)) => Err(format!("runtime error: {}", e)),
                    Err(p) => Err(format!("panic: {}", p)),
                },
            },
        };
        vals.push(v);
    }
    vals
}

pub struct Checked {
    pub labels: Vec<String>,
    pub max_depth: usize,
    pub n_custom: usize,
    /// >= 2 custom nodes share the operation struct but differ in parameters or argument types
    pub shared_family: bool,
    /// >= 2 custom nodes share struct AND argument types and differ in parameters only
    pub same_types_diff_params: bool,
    /// decoded reference values of the main graph's nodes (None where evaluation failed)
    pub ref_vals: Vec<Option<HVal>>,
    pub runtime_errors: usize,
}

fn short(s: &str) -> String {
    s.chars().take(500).collect()
}

/// The C08 oracle on a finished context: (1) run_instantiation_pass returns Ok and leaves no Custom
/// node, (2) every node of the main graph evaluates to the per-node definition's value.
pub fn check_context(w: &mut Work, ctx: &Context, inputs: &[Value], seed: [u8; 16], excl: &[String]) -> Result<Checked, Outcome> {
    let main = ctx.get_main_graph().map_err(|e| Outcome::fail("harness", e.to_string()))?;
    // inventory of custom nodes
    let mut infos: Vec<InstInfo> = vec![];
    let mut top: Vec<(String, String, String)> = vec![]; // (tag, op json, key)
    for g in ctx.get_graphs() {
        for n in g.get_nodes() {
            if let Operation::Custom(op) = n.get_operation() {
                let ts = dep_types(&n);
                top.push((tag_of(&op), serde_json::to_string(&op).unwrap_or_default(), key_of(&op, &ts)));
                for i in w.closure(&op, &ts) {
                    match infos.iter_mut().find(|o| o.key == i.key) {
                        Some(o) => o.depth = o.depth.max(i.depth),
                        None => infos.push(i),
                    }
                }
            }
        }
    }
    let max_depth = infos.iter().map(|i| i.depth).max().unwrap_or(0);
    let mut shared_family = false;
    let mut same_types_diff_params = false;
    for i in 0..top.len() {
        for j in 0..i {
            if top[i].0 == top[j].0 && top[i].2 != top[j].2 {
                shared_family = true;
                let ti = top[i].2.split_once('|').map(|x| x.1.to_string());
                let tj = top[j].2.split_once('|').map(|x| x.1.to_string());
                if top[i].1 != top[j].1 && ti == tj {
                    same_types_diff_params = true;
                }
            }
        }
    }
    // (1) totality
    let mapped = match catch(|| run_instantiation_pass(ctx.clone())) {
        Err(p) => return Err(Outcome::fail("instantiation-panic", format!("run_instantiation_pass panicked: {}", short(&p)))),
        Ok(Err(e)) => {
            let (sig, msg) = classify_inst_error(&e.to_string(), &infos, excl);
            return Err(Outcome::fail(&sig, short(&msg)));
        }
        Ok(Ok(m)) => m,
    };
    let ictx = mapped.get_context();
    for g in ictx.get_graphs() {
        for n in g.get_nodes() {
            if let Operation::Custom(op) = n.get_operation() {
                return Err(Outcome::fail("custom-node-left", format!("instantiated context still contains Custom node {}", op.get_name())));
            }
        }
    }
    let imain = ictx.get_main_graph().map_err(|e| Outcome::fail("instantiated-no-main", e.to_string()))?;
    // (2) meaning
    let mut ev = SimpleEvaluator::new(Some(seed)).map_err(|e| Outcome::fail("harness", e.to_string()))?;
    let rv = match ref_walk(w, &mut ev, &main, inputs, excl) {
        Ok(v) => v,
        Err((sig, msg)) => return Err(Outcome::fail(&sig, short(&msg))),
    };
    let mut ev2 = SimpleEvaluator::new(Some(seed)).map_err(|e| Outcome::fail("harness", e.to_string()))?;
    let iv = inst_walk(&mut ev2, &imain, inputs);
    let mut ref_vals = vec![];
    let mut runtime_errors = 0;
    for node in main.get_nodes() {
        let id = node.get_id() as usize;
        let t = node.get_type().map_err(|e| Outcome::fail("harness", e.to_string()))?;
        let m = match catch(|| mapped.mappings.get_node(&node)) {
            Ok(m) => m,
            Err(p) => return Err(Outcome::fail("mapping-missing", format!("node {} has no image: {}", id, p))),
        };
        if m.get_graph() != imain {
            return Err(Outcome::fail("mapping-wrong-graph", format!("image of main node {} is not in the new main graph", id)));
        }
        let mt = m.get_type().map_err(|e| Outcome::fail("harness", e.to_string()))?;
        if mt != t {
            return Err(Outcome::fail("type-changed", format!("node {} ({}): type {} became {}", id, node.get_operation(), t, mt)));
        }
        let what = format!("node {} ({})", id, node.get_operation());
        match (&rv[id], &iv[m.get_id() as usize]) {
            (Ok(a), Ok(b)) => {
                let ha = decode(a, &t).map_err(|e| Outcome::fail("reference-ill-typed", format!("{}: {}", what, e)))?;
                let hb = decode(b, &t).map_err(|e| Outcome::fail("meaning-ill-typed", format!("{}: instantiated value does not fit {}: {}", what, t, e)))?;
                if ha != hb {
                    return Err(Outcome::fail(
                        "meaning-value",
                        short(&format!("{}: instantiated context gives {:?}, the operation's own definition gives {:?}", what, hb, ha)),
                    ));
                }
                ref_vals.push(Some(ha));
            }
            (Err(_), Err(_)) => {
                runtime_errors += 1;
                ref_vals.push(None);
            }
            (Ok(_), Err(e)) => {
                return Err(Outcome::fail("meaning-error", short(&format!("{}: instantiated context fails ({}) where the definition evaluates", what, e))))
            }
            (Err(e), Ok(_)) => {
                return Err(Outcome::fail("meaning-error", short(&format!("{}: definition fails ({}) where the instantiated context evaluates", what, e))))
            }
        }
    }
    let mut labels = vec![
        format!("depth:{}", max_depth.min(6)),
        format!("custom-nodes:{}", top.len().min(12)),
        format!("distinct-instantiations:{}", match infos.len() { 0..=4 => "<=4", 5..=9 => "5-9", 10..=19 => "10-19", _ => ">=20" }),
    ];
    if shared_family {
        labels.push("shared-family".into());
    }
    if same_types_diff_params {
        labels.push("same-types-different-params".into());
    }
    if runtime_errors > 0 {
        labels.push("runtime-error-both-ways".into());
    }
    let mut tags: Vec<String> = top.iter().map(|t| t.0.clone()).collect();
    tags.sort();
    tags.dedup();
    for t in tags {
        labels.push(format!("op:{}", t));
    }
    Ok(Checked { labels, max_depth, n_custom: top.len(), shared_family, same_types_diff_params, ref_vals, runtime_errors })
}

// ---------------------------------------------------------------------------------------------
// input values

pub fn sm(x: &mut u64) -> u64 {
    crate::graphgen::splitmix(x)
}

fn gen_leaf(st: ScalarType, n: usize, s: &mut u64) -> Vec<u128> {
    let b = bits(st);
    let m = mask(st);
    // one magnitude class per leaf: small values exercise the approximations' interesting range
    let mag = [4u32, 10, 18, 40, 128][(sm(s) % 5) as usize].min(b);
    (0..n)
        .map(|_| {
            let r = ((sm(s) as u128) << 64) | sm(s) as u128;
            if b == 1 {
                return r & 1;
            }
            let k = sm(s) % 12;
            match k {
                0 => 0,
                1 => 1,
                2 => m,
                3 => 1u128 << (b - 1),
                4 => (1u128 << (b - 1)) - 1,
                _ => {
                    let v = r & mask_bits(mag);
                    if k % 2 == 0 {
                        v & m
                    } else {
                        v.wrapping_neg() & m
                    }
                }
            }
        })
        .collect()
}

pub fn gen_value(t: &Type, s: &mut u64) -> HVal {
    if is_leaf(t) {
        HVal::A(gen_leaf(leaf_st(t), type_elems(t), s))
    } else {
        HVal::V(children_types(t).iter().map(|c| gen_value(c, s)).collect())
    }
}

use ciphercore_base::data_types::ScalarType;
