//! Helpers of C12: decorated copies of recipe contexts, feature extraction, the round-trip oracle,
//! the well-formedness checker (public getters only) and the envelope mutator (DESIGN §2.8).
use crate::gen::pick;
use crate::graphgen::{leaf_type, shape_from, splitmix};
use crate::hv::*;
use crate::mpcx::junk;
use ciphercore_base::custom_ops::{run_instantiation_pass, CustomOperation};
use ciphercore_base::data_types::{array_type, named_tuple_type, scalar_type, ScalarType, Type, BIT, INT64, UINT64};
use ciphercore_base::data_values::Value;
use ciphercore_base::evaluators::simple_evaluator::SimpleEvaluator;
use ciphercore_base::evaluators::Evaluator;
use ciphercore_base::graphs::{create_context, Context, Graph, GraphAnnotation, JoinType, Node, NodeAnnotation, Operation};
use ciphercore_base::ops::auc::AucScore;
use ciphercore_base::ops::fixed_precision::fixed_multiply::FixedMultiply;
use ciphercore_base::ops::fixed_precision::fixed_precision_config::FixedPrecisionConfig;
use ciphercore_base::ops::goldschmidt_division::GoldschmidtDivision;
use ciphercore_base::ops::integer_key_sort::SortByIntegerKey;
use ciphercore_base::ops::inverse_sqrt::InverseSqrt;
use ciphercore_base::ops::long_division::LongDivision;
use ciphercore_base::ops::newton_inversion::NewtonInversion;
use ciphercore_base::ops::pwl::approx_exponent::ApproxExponent;
use ciphercore_base::ops::pwl::approx_gelu::ApproxGelu;
use ciphercore_base::ops::pwl::approx_gelu_derivative::ApproxGeluDerivative;
use ciphercore_base::ops::pwl::approx_sigmoid::ApproxSigmoid;
use ciphercore_base::ops::taylor_exponent::TaylorExponent;
use ciphercore_base::type_inference::NULL_HEADER;
use proptest::prelude::*;
use serde::{Deserialize, Serialize};
use serde_json::{json, Value as J};
use std::collections::{BTreeSet, HashMap};

// ---------------------------------------------------------------------------------------------
// small helpers

/// "file.rs:LINE" of a message produced by util::catch ("msg @ path:line")
pub fn site_of(p: &str) -> String {
    match p.rfind(" @ ") {
        Some(i) => {
            let loc = &p[i + 3..];
            loc.rsplit('/').next().unwrap_or(loc).to_string()
        }
        None => "unknown".to_string(),
    }
}

/// Stable signature of a panic site: "file.rs:<source text of the panicking line>" (whitespace collapsed, clipped).
/// The text of the line — not its number — identifies the site, so that unrelated edits above it (the repository
/// receives fix commits) do not move the signature. Falls back to "file.rs:L<line>" when the source is unreadable.
pub fn site_sig(p: &str) -> String {
    use std::sync::Mutex;
    static CACHE: Mutex<Option<HashMap<String, String>>> = Mutex::new(None);
    let loc = match p.rfind(" @ ") {
        Some(i) => p[i + 3..].to_string(),
        None => return "unknown".to_string(),
    };
    let mut guard = CACHE.lock().unwrap();
    let cache = guard.get_or_insert_with(HashMap::new);
    if let Some(v) = cache.get(&loc) {
        return v.clone();
    }
    let (path, line) = match loc.rsplit_once(':') {
        Some((a, b)) => (a.to_string(), b.parse::<usize>().unwrap_or(0)),
        None => (loc.clone(), 0),
    };
    let file = path.rsplit('/').next().unwrap_or(&path).to_string();
    // one root cause, many sites: the MPC-internal custom operations (src/mpc/*.rs) and the
    // panicking type getters they call trust that the compiler produced their arguments, and
    // type inference instantiates them while a deserialized graph is rebuilt
    if path.contains("/src/mpc/") {
        let sig = "mpc-internal-custom-op-instantiate".to_string();
        cache.insert(loc, sig.clone());
        return sig;
    }
    let sig = match std::fs::read_to_string(&path) {
        Ok(text) if line >= 1 => match text.lines().nth(line - 1) {
            Some(l) => {
                let t: Vec<&str> = l.split_whitespace().collect();
                format!("{}:{}", file, t.join(" ").chars().take(90).collect::<String>())
            }
            None => format!("{}:L{}", file, line),
        },
        _ => format!("{}:L{}", file, line),
    };
    cache.insert(loc, sig.clone());
    sig
}

pub fn first_words(s: &str, n: usize) -> String {
    let cut = s.split(" at line ").next().unwrap_or(s);
    let w: Vec<String> = cut
        .split_whitespace()
        .take(n)
        .map(|x| x.chars().filter(|c| !c.is_ascii_digit()).take(24).collect::<String>())
        .collect();
    w.join(" ")
}

pub fn clip(s: &str, n: usize) -> String {
    if s.chars().count() <= n {
        s.to_string()
    } else {
        format!("{}…(+{} chars)", s.chars().take(n).collect::<String>(), s.chars().count() - n)
    }
}

pub fn ser(c: &Context) -> Result<String, String> {
    match crate::util::catch(|| serde_json::to_string(c)) {
        Ok(Ok(s)) => Ok(s),
        Ok(Err(e)) => Err(format!("to_string returned Err: {}", e)),
        Err(p) => Err(format!("to_string panicked: {}", p)),
    }
}

pub enum De {
    Ok(Context),
    Err(String),
    Panic(String),
}

pub fn deser(s: &str) -> De {
    match crate::util::catch(|| serde_json::from_str::<Context>(s)) {
        Ok(Ok(c)) => De::Ok(c),
        Ok(Err(e)) => De::Err(e.to_string()),
        Err(p) => De::Panic(p),
    }
}

/// (outer, inner) of a serialized context
pub fn split_env(text: &str) -> Option<(J, J)> {
    let outer: J = serde_json::from_str(text).ok()?;
    let data = outer.get("data")?.as_str()?.to_string();
    let inner: J = serde_json::from_str(&data).ok()?;
    Some((outer, inner))
}

pub fn outer_parses(text: &str) -> bool {
    match serde_json::from_str::<J>(text) {
        Ok(o) => o.get("data").map(|d| d.is_string()).unwrap_or(false),
        Err(_) => false,
    }
}

// ---------------------------------------------------------------------------------------------
// decorations

#[derive(Clone, Debug, Serialize, Deserialize, PartialEq, Eq, Hash)]
pub struct Extra {
    pub kind: u8,
    pub p: [u16; 4],
    pub seed: u64,
}

#[derive(Clone, Debug, Serialize, Deserialize, PartialEq, Eq, Hash)]
pub struct Deco {
    /// (graph pick, node pick, name kind)
    pub node_names: Vec<(u16, u16, u8)>,
    /// (graph pick, name kind)
    pub graph_names: Vec<(u16, u8)>,
    /// (graph pick, node pick, annotation kind, send a, send b)
    pub node_annos: Vec<(u16, u16, u8, u8, u8)>,
    /// (graph pick, annotation kind)
    pub graph_annos: Vec<(u16, u8)>,
    pub extras: Vec<Extra>,
    /// 0 finalized; 1 main set, context not finalized; 2 main not set; 3 last graph has an output but
    /// is not finalized; 4 last graph has no output; 5 an extra empty unfinalized graph is appended
    pub unfin: u8,
}

pub const N_EXTRA: u8 = 20;

pub fn extra_name(k: u8) -> &'static str {
    [
        "const-u128", "const-i128", "LongDivision", "InverseSqrt", "NewtonInversion", "GoldschmidtDivision", "TaylorExponent",
        "ApproxExponent", "ApproxSigmoid", "ApproxGelu", "ApproxGeluDerivative", "FixedMultiply", "AucScore", "SortByIntegerKey",
        "Join", "Print", "Assert", "Gather", "InversePermutation", "JoinWithColumnMasks",
    ][(k % N_EXTRA) as usize]
}

pub fn extra_is_light(e: &Extra) -> bool {
    e.kind % N_EXTRA <= 1
}

pub fn arb_deco(scale: usize) -> BoxedStrategy<Deco> {
    let extra = (
        prop_oneof![3 => 0u8..2, 10 => 2u8..N_EXTRA],
        any::<[u16; 4]>(),
        any::<u64>(),
    )
        .prop_map(|(kind, p, seed)| Extra { kind, p, seed });
    (
        proptest::collection::vec((any::<u16>(), any::<u16>(), 0u8..10), 0..=2 * scale),
        proptest::collection::vec((any::<u16>(), 0u8..10), 0..=scale),
        proptest::collection::vec((any::<u16>(), any::<u16>(), 0u8..7, 0u8..6, 0u8..6), 0..=2 * scale),
        proptest::collection::vec((any::<u16>(), 0u8..3), 0..=scale),
        proptest::collection::vec(extra, 0..=scale.min(3)),
        prop_oneof![12 => Just(0u8), 1 => Just(1u8), 1 => Just(2u8), 1 => Just(3u8), 1 => Just(4u8), 1 => Just(5u8)],
    )
        .prop_map(|(node_names, graph_names, node_annos, graph_annos, extras, unfin)| Deco {
            node_names,
            graph_names,
            node_annos,
            graph_annos,
            extras,
            unfin,
        })
        .boxed()
}

fn name_from(kind: u8, k: usize) -> String {
    match kind % 10 {
        0 => format!("n{}", k),
        1 => format!("in put {}", k),
        2 => format!("ключ-ü-名{}", k),
        3 => format!("q\"uo\\te{}", k),
        4 => format!("nl\n\t\u{1}{}", k),
        5 => {
            if k == 0 {
                String::new()
            } else {
                format!("{}", k)
            }
        }
        6 => format!("{}{}", "x".repeat(300), k),
        7 => format!("🦀{}", k),
        8 => format!("{{\"version\":2,\"data\":\"\"}}{}", k),
        _ => format!("a/b.c:{}", k),
    }
}

fn node_anno(kind: u8, a: u8, b: u8) -> NodeAnnotation {
    const T: [u64; 6] = [0, 1, 2, 3, 1 << 32, u64::MAX];
    match kind % 7 {
        0 => NodeAnnotation::AssociativeOperation,
        1 => NodeAnnotation::Private,
        2 => NodeAnnotation::Send(T[(a % 6) as usize], T[(b % 6) as usize]),
        3 => NodeAnnotation::PRFMultiplication,
        4 => NodeAnnotation::PRFB2A,
        5 => NodeAnnotation::PRFTruncate,
        _ => NodeAnnotation::MpcCall,
    }
}

fn graph_anno(kind: u8) -> GraphAnnotation {
    match kind % 3 {
        0 => GraphAnnotation::AssociativeOperation,
        1 => GraphAnnotation::OneBitState,
        _ => GraphAnnotation::SmallState,
    }
}

fn cst(g: &Graph, t: &Type, xs: &[u128]) -> Option<Node> {
    g.constant(t.clone(), Value::from_bytes(encode_leaf(xs, leaf_st(t)))).ok()
}

fn rnd128(s: &mut u64) -> u128 {
    ((splitmix(s) as u128) << 64) | splitmix(s) as u128
}

fn small_vals(s: &mut u64, n: usize, lo: u128, span: u128) -> Vec<u128> {
    (0..n).map(|_| lo + (splitmix(s) as u128) % span).collect()
}

/// Builds one extra sub-expression from constants in `g`. None = the builder rejected it.
fn build_extra(g: &Graph, e: &Extra) -> Option<Node> {
    let mut s = e.seed;
    let n = 1 + (e.p[3] % 3) as usize;
    let fp = FixedPrecisionConfig { fractional_bits: (e.p[0] % 12) as u64, debug: e.p[1] & 1 == 1 };
    match e.kind % N_EXTRA {
        0 | 1 => {
            let st = if e.kind % N_EXTRA == 0 { ScalarType::U128 } else { ScalarType::I128 };
            let t = leaf_type(st, &shape_from(e.p[0], e.p[1]));
            let xs: Vec<u128> = (0..type_elems(&t))
                .map(|i| match (splitmix(&mut s) % 6, i) {
                    (_, 0) => (1u128 << 64) + 1,
                    (0, _) => u128::MAX,
                    (1, _) => 1u128 << 127,
                    (2, _) => (1u128 << 127) - 1,
                    (3, _) => 1u128 << 64,
                    _ => rnd128(&mut s) | (1u128 << 100),
                })
                .collect();
            cst(g, &t, &xs)
        }
        2 => {
            let st = if e.p[1] & 1 == 1 { ScalarType::I8 } else { ScalarType::U8 };
            let t = array_type(vec![n as u64], st);
            let a = cst(g, &t, &small_vals(&mut s, n, 0, 256))?.a2b().ok()?;
            let b = cst(g, &t, &small_vals(&mut s, n, 1, 100))?.a2b().ok()?;
            let r = g.custom_op(CustomOperation::new(LongDivision { signed: e.p[1] & 1 == 1 }), vec![a, b]).ok()?;
            r.tuple_get((e.p[2] & 1) as u64).ok()
        }
        3 | 4 | 5 => {
            let t = array_type(vec![n as u64], UINT64);
            let x = cst(g, &t, &small_vals(&mut s, n, 1, 200))?;
            let y = cst(g, &t, &small_vals(&mut s, n, 1, 200))?;
            let guess = cst(g, &t, &small_vals(&mut s, n, 1, 4))?;
            let iterations = 1 + (e.p[0] % 3) as u64;
            let denominator_cap_2k = 3 + (e.p[1] % 6) as u64;
            let with_guess = e.p[2] & 1 == 1;
            let (op, mut args) = match e.kind % N_EXTRA {
                3 => (CustomOperation::new(InverseSqrt { iterations, denominator_cap_2k }), vec![x]),
                4 => (CustomOperation::new(NewtonInversion { iterations, denominator_cap_2k }), vec![x]),
                _ => (CustomOperation::new(GoldschmidtDivision { iterations, denominator_cap_2k }), vec![x, y]),
            };
            if with_guess {
                args.push(guess);
            }
            g.custom_op(op, args).ok()
        }
        6..=10 => {
            let t = if e.p[2] % 4 == 0 { scalar_type(INT64) } else { array_type(vec![n as u64], INT64) };
            let xs: Vec<u128> = (0..type_elems(&t)).map(|_| ((splitmix(&mut s) % 64) as i128 - 32) as u128 & mask(INT64)).collect();
            let x = cst(g, &t, &xs)?;
            let precision = 2 + (e.p[0] % 8) as u64;
            let approximation_log_buckets = 2 + (e.p[1] % 4) as u64;
            let op = match e.kind % N_EXTRA {
                6 => CustomOperation::new(TaylorExponent { taylor_terms: 2 + (e.p[1] % 4) as u64, fixed_precision_points: precision }),
                7 => CustomOperation::new(ApproxExponent { precision }),
                8 => CustomOperation::new(ApproxSigmoid { precision, approximation_log_buckets }),
                9 => CustomOperation::new(ApproxGelu { precision, approximation_log_buckets }),
                _ => CustomOperation::new(ApproxGeluDerivative { precision, approximation_log_buckets }),
            };
            g.custom_op(op, vec![x]).ok()
        }
        11 => {
            let t = array_type(vec![n as u64], INT64);
            let a = cst(g, &t, &small_vals(&mut s, n, 0, 5000))?;
            let b = cst(g, &t, &small_vals(&mut s, n, 0, 5000))?;
            g.custom_op(CustomOperation::new(FixedMultiply { config: fp }), vec![a, b]).ok()
        }
        12 => {
            let m = 3 + n;
            let t = array_type(vec![m as u64], INT64);
            let one = 1u128 << fp.fractional_bits;
            let mut labels: Vec<u128> = (0..m).map(|_| (splitmix(&mut s) % 2) as u128 * one).collect();
            labels[0] = one;
            labels[1] = 0;
            let y_true = cst(g, &t, &labels)?;
            let y_pred = cst(g, &t, &small_vals(&mut s, m, 0, 1000))?;
            g.custom_op(CustomOperation::new(AucScore { fp }), vec![y_true, y_pred]).ok()
        }
        13 => {
            let m = 2 + n;
            let st = [UINT64, ScalarType::U8, ScalarType::I16, ScalarType::U32][(e.p[0] % 4) as usize];
            let k = cst(g, &array_type(vec![m as u64], st), &small_vals(&mut s, m, 0, 100))?;
            let v = cst(g, &array_type(vec![m as u64, 2], ScalarType::I32), &small_vals(&mut s, 2 * m, 0, 1000))?;
            let key = ["k", "key col", "ключ"][(e.p[1] % 3) as usize].to_string();
            let nt = g.create_named_tuple(vec![("v".to_string(), v), (key.clone(), k)]).ok()?;
            g.custom_op(CustomOperation::new(SortByIntegerKey { key }), vec![nt]).ok()
        }
        14 | 19 => {
            let masks = e.kind % N_EXTRA == 19;
            let (ra, rb) = (2 + n, 1 + n);
            let col = |g: &Graph, s: &mut u64, rows: usize, t: Type, span: u128| -> Option<Node> {
                let data = cst(g, &t, &small_vals(s, type_elems(&t), 0, span))?;
                if masks {
                    let m = cst(g, &array_type(vec![rows as u64], BIT), &vec![1u128; rows])?;
                    g.create_tuple(vec![m, data]).ok()
                } else {
                    Some(data)
                }
            };
            let null = |g: &Graph, rows: usize| cst(g, &array_type(vec![rows as u64], BIT), &vec![1u128; rows]);
            let a = g
                .create_named_tuple(vec![
                    (NULL_HEADER.to_string(), null(g, ra)?),
                    ("id".to_string(), col(g, &mut s, ra, array_type(vec![ra as u64], ScalarType::I32), 4)?),
                    ("job".to_string(), col(g, &mut s, ra, array_type(vec![ra as u64, 3], BIT), 2)?),
                    ("rev".to_string(), col(g, &mut s, ra, array_type(vec![ra as u64], INT64), 1000)?),
                ])
                .ok()?;
            let b = g
                .create_named_tuple(vec![
                    (NULL_HEADER.to_string(), null(g, rb)?),
                    ("ID".to_string(), col(g, &mut s, rb, array_type(vec![rb as u64], ScalarType::I32), 4)?),
                    ("occupation".to_string(), col(g, &mut s, rb, array_type(vec![rb as u64, 3], BIT), 2)?),
                    ("age".to_string(), col(g, &mut s, rb, array_type(vec![rb as u64], ScalarType::U8), 99)?),
                ])
                .ok()?;
            let jt = [JoinType::Inner, JoinType::Left, JoinType::Union, JoinType::Full][(e.p[0] % 4) as usize];
            let mut h = HashMap::new();
            h.insert("id".to_string(), "ID".to_string());
            if e.p[1] % 4 != 0 {
                h.insert("job".to_string(), "occupation".to_string());
            }
            if masks {
                g.join_with_column_masks(a, b, jt, h).ok()
            } else {
                g.join(a, b, jt, h).ok()
            }
        }
        15 => {
            let x = cst(g, &array_type(vec![n as u64], ScalarType::I16), &small_vals(&mut s, n, 0, 9))?;
            g.print(name_from((e.p[0] % 10) as u8, 1), x).ok()
        }
        16 => {
            let x = cst(g, &array_type(vec![n as u64], ScalarType::U16), &small_vals(&mut s, n, 0, 9))?;
            let cond = cst(g, &scalar_type(BIT), &[if e.p[0] % 8 == 0 { 0 } else { 1 }])?;
            g.assert(name_from((e.p[1] % 10) as u8, 2), cond, x).ok()
        }
        17 => {
            let m = 2 + n;
            let x = cst(g, &array_type(vec![m as u64, 2], ScalarType::I32), &small_vals(&mut s, 2 * m, 0, 99))?;
            let mut idx: Vec<u128> = (0..m as u128).collect();
            idx.rotate_left((e.p[0] as usize) % m);
            idx.truncate(1 + (e.p[1] as usize) % m);
            let i = cst(g, &array_type(vec![idx.len() as u64], UINT64), &idx)?;
            g.gather(x, i, 0).ok()
        }
        _ => {
            let m = 2 + n;
            let mut perm: Vec<u128> = (0..m as u128).collect();
            for i in (1..m).rev() {
                perm.swap(i, (splitmix(&mut s) % (i as u64 + 1)) as usize);
            }
            let p = cst(g, &array_type(vec![m as u64], UINT64), &perm)?;
            g.inverse_permutation(p).ok()
        }
    }
}

pub struct Copied {
    pub ctx: Context,
    pub extras_applied: Vec<String>,
}

/// Copies `src` (a finalized recipe context) node by node through the public builder into a fresh
/// context, adding the decorations.
pub fn decorated_copy(src: &Context, d: &Deco) -> Result<Copied, String> {
    let es = |e: ciphercore_base::errors::Error| e.to_string();
    let dst = create_context().map_err(es)?;
    let src_graphs = src.get_graphs();
    let src_main = src.get_main_graph().map_err(es)?;
    let unfin = d.unfin % 6;
    let mut gmap: Vec<Graph> = vec![];
    let mut extras_applied = vec![];
    let last = src_graphs.len() - 1;
    for (gi, g) in src_graphs.iter().enumerate() {
        let ng = dst.create_graph().map_err(es)?;
        let mut nmap: Vec<Node> = vec![];
        for n in g.get_nodes() {
            let deps = n.get_node_dependencies().iter().map(|x| nmap[x.get_id() as usize].clone()).collect();
            let gdeps = n.get_graph_dependencies().iter().map(|x| gmap[x.get_id() as usize].clone()).collect();
            nmap.push(ng.add_node(deps, gdeps, n.get_operation()).map_err(es)?);
        }
        let mut out = nmap[g.get_output_node().map_err(es)?.get_id() as usize].clone();
        if *g == src_main {
            let mut parts = vec![out.clone()];
            for e in &d.extras {
                match build_extra(&ng, e) {
                    Some(x) => {
                        parts.push(x);
                        extras_applied.push(extra_name(e.kind).to_string());
                    }
                    None => extras_applied.push(format!("REJECTED-{}", extra_name(e.kind))),
                }
            }
            if parts.len() > 1 {
                out = ng.create_tuple(parts).map_err(es)?;
            }
        }
        match (gi == last, unfin) {
            (true, 4) => {}
            (true, 3) => ng.set_output_node(out).map_err(es)?,
            _ => {
                ng.set_output_node(out).map_err(es)?;
                ng.finalize().map_err(es)?;
            }
        }
        gmap.push(ng);
    }
    if unfin == 5 {
        gmap.push(dst.create_graph().map_err(es)?);
    }
    let mut counter = 0usize;
    for (gs, ns, kind) in &d.node_names {
        let g = &gmap[pick(*gs, gmap.len())];
        let nodes = g.get_nodes();
        if nodes.is_empty() {
            continue;
        }
        let _ = nodes[pick(*ns, nodes.len())].set_name(&name_from(*kind, counter));
        counter += 1;
    }
    for (gs, kind) in &d.graph_names {
        let _ = gmap[pick(*gs, gmap.len())].set_name(&name_from(*kind, counter));
        counter += 1;
    }
    for (gs, ns, kind, a, b) in &d.node_annos {
        let g = &gmap[pick(*gs, gmap.len())];
        let nodes = g.get_nodes();
        if nodes.is_empty() {
            continue;
        }
        let _ = nodes[pick(*ns, nodes.len())].add_annotation(node_anno(*kind, *a, *b));
    }
    for (gs, kind) in &d.graph_annos {
        let _ = gmap[pick(*gs, gmap.len())].add_annotation(graph_anno(*kind));
    }
    let main = gmap[src_main.get_id() as usize].clone();
    match unfin {
        0 => {
            dst.set_main_graph(main).map_err(es)?;
            dst.finalize().map_err(es)?;
        }
        1 | 5 => {
            dst.set_main_graph(main).map_err(es)?;
        }
        _ => {}
    }
    Ok(Copied { ctx: dst, extras_applied })
}

// ---------------------------------------------------------------------------------------------
// features of a context (for the non-triviality rule and the histogram)

#[derive(Default, Debug)]
pub struct Feats {
    pub graphs: usize,
    pub nodes: usize,
    pub node_names: usize,
    pub graph_names: usize,
    pub node_annos: usize,
    pub graph_annos: usize,
    pub custom: usize,
    pub const128: usize,
    pub calls: usize,
    pub random: usize,
    pub n_extras: usize,
    pub anno_kinds: BTreeSet<String>,
}

fn has128(t: &Type) -> bool {
    if is_leaf(t) {
        bits(leaf_st(t)) == 128
    } else {
        children_types(t).iter().any(has128)
    }
}

pub fn features(c: &Context) -> Feats {
    let mut f = Feats::default();
    for g in c.get_graphs() {
        f.graphs += 1;
        if c.get_graph_name(g.clone()).is_ok() {
            f.graph_names += 1;
        }
        for a in g.get_annotations().unwrap_or_default() {
            f.graph_annos += 1;
            f.anno_kinds.insert(format!("graph-{:?}", a));
        }
        for n in g.get_nodes() {
            f.nodes += 1;
            if let Ok(Some(_)) = n.get_name() {
                f.node_names += 1;
            }
            for a in n.get_annotations().unwrap_or_default() {
                f.node_annos += 1;
                let s = format!("{:?}", a);
                f.anno_kinds.insert(s.split('(').next().unwrap_or("").to_string());
            }
            match n.get_operation() {
                Operation::Custom(_) => f.custom += 1,
                Operation::Constant(t, _) => {
                    if has128(&t) {
                        f.const128 += 1
                    }
                }
                Operation::Call | Operation::Iterate => f.calls += 1,
                Operation::Random(_) | Operation::RandomPermutation(_) | Operation::PRF(_, _) | Operation::PermutationFromPRF(_, _) => f.random += 1,
                _ => {}
            }
        }
    }
    f
}

/// values for the inputs of the main graph: the given ones where they fit the input types,
/// generated ones otherwise
pub fn fit_inputs(c: &Context, vals: Vec<Value>, seed: u64) -> Vec<Value> {
    let mut s = seed;
    let main = match c.get_main_graph() {
        Ok(m) => m,
        Err(_) => return vals,
    };
    let mut out = vec![];
    let mut i = 0usize;
    for n in main.get_nodes() {
        if let Operation::Input(t) = n.get_operation() {
            let fits = vals.get(i).map(|v| v.check_type(t.clone()).unwrap_or(false)).unwrap_or(false);
            if fits {
                out.push(vals[i].clone());
            } else {
                out.push(encode(&junk(&t, &mut s), &t));
            }
            i += 1;
        }
    }
    out
}

pub fn evaluate(c: &Context, inputs: &[Value], instantiate: bool, seed: [u8; 16]) -> Result<Result<Value, String>, String> {
    let inputs = inputs.to_vec();
    crate::util::catch(|| {
        let c2 = if instantiate {
            run_instantiation_pass(c.clone()).map_err(|e| format!("instantiation: {}", e))?.get_context()
        } else {
            c.clone()
        };
        let mut ev = SimpleEvaluator::new(Some(seed)).map_err(|e| e.to_string())?;
        ev.preprocess(&c2).map_err(|e| e.to_string())?;
        ev.evaluate_graph(c2.get_main_graph().map_err(|e| e.to_string())?, inputs).map_err(|e| e.to_string())
    })
}

// ---------------------------------------------------------------------------------------------
// independent comparison through public getters

fn ids(ns: &[Node]) -> Vec<u64> {
    ns.iter().map(|n| n.get_id()).collect()
}

pub fn same_structure(a: &Context, b: &Context) -> Result<(), (String, String)> {
    let f = |k: &str, m: String| Err((format!("rt-getter-{}", k), m));
    let (ga, gb) = (a.get_graphs(), b.get_graphs());
    if ga.len() != gb.len() {
        return f("graph-count", format!("{} graphs vs {}", ga.len(), gb.len()));
    }
    if a.check_finalized().is_ok() != b.check_finalized().is_ok() {
        return f("context-finalized", "context finalization flag differs".into());
    }
    let main = |c: &Context| c.get_main_graph().ok().map(|g| g.get_id());
    if main(a) != main(b) {
        return f("main-graph", format!("main graph {:?} vs {:?}", main(a), main(b)));
    }
    for (i, (x, y)) in ga.iter().zip(gb.iter()).enumerate() {
        if x.get_id() != y.get_id() {
            return f("graph-id", format!("graph {} has ids {} vs {}", i, x.get_id(), y.get_id()));
        }
        let (na, nb) = (a.get_graph_name(x.clone()).ok(), b.get_graph_name(y.clone()).ok());
        if na != nb {
            return f("graph-name", format!("graph {}: name {:?} vs {:?}", i, na, nb));
        }
        if let Some(nm) = &nb {
            match b.retrieve_graph(nm) {
                Ok(g) if g == *y => {}
                _ => return f("graph-name", format!("graph {}: name {:?} does not resolve in the reloaded context", i, nm)),
            }
        }
        let (aa, ab) = (x.get_annotations().ok(), y.get_annotations().ok());
        if aa != ab {
            return f("graph-annotations", format!("graph {}: annotations {:?} vs {:?}", i, aa, ab));
        }
        let out = |g: &Graph| g.get_output_node().ok().map(|n| n.get_id());
        if out(x) != out(y) {
            return f("output-node", format!("graph {}: output node {:?} vs {:?}", i, out(x), out(y)));
        }
        let (xs, ys) = (x.get_nodes(), y.get_nodes());
        if xs.len() != ys.len() {
            return f("node-count", format!("graph {}: {} nodes vs {}", i, xs.len(), ys.len()));
        }
        for (j, (n, m)) in xs.iter().zip(ys.iter()).enumerate() {
            if n.get_operation() != m.get_operation() {
                return f("operation", format!("node ({},{}) operation {:?} vs {:?}", i, j, n.get_operation(), m.get_operation()));
            }
            if ids(&n.get_node_dependencies()) != ids(&m.get_node_dependencies()) {
                return f("node-deps", format!("node ({},{}) dependencies differ", i, j));
            }
            let gd = |n: &Node| n.get_graph_dependencies().iter().map(|g| g.get_id()).collect::<Vec<u64>>();
            if gd(n) != gd(m) {
                return f("graph-deps", format!("node ({},{}) graph dependencies differ", i, j));
            }
            let ta = n.get_type().map(|t| t.to_string()).map_err(|e| e.to_string());
            let tb = m.get_type().map(|t| t.to_string()).map_err(|e| e.to_string());
            let same_type = match (n.get_type(), m.get_type()) {
                (Ok(p), Ok(q)) => p == q,
                _ => false,
            };
            if !same_type {
                return Err((
                    "rt-type-differs".to_string(),
                    format!("node ({},{}) {:?}: type {:?} before, {:?} after reload", i, j, n.get_operation(), ta, tb),
                ));
            }
            let (pa, pb) = (n.get_name().ok().flatten(), m.get_name().ok().flatten());
            if pa != pb {
                return f("node-name", format!("node ({},{}) name {:?} vs {:?}", i, j, pa, pb));
            }
            if let Some(nm) = &pb {
                match y.retrieve_node(nm) {
                    Ok(r) if r == *m => {}
                    _ => return f("node-name", format!("node ({},{}) name {:?} does not resolve after reload", i, j, nm)),
                }
            }
            let (qa, qb) = (n.get_annotations().ok(), m.get_annotations().ok());
            if qa != qb {
                return f("node-annotations", format!("node ({},{}) annotations {:?} vs {:?}", i, j, qa, qb));
            }
        }
    }
    Ok(())
}

// ---------------------------------------------------------------------------------------------
// well-formedness through public getters (+ the finalized flags / tables of the re-serialization)

pub fn wf(c: &Context, inner: &J) -> Result<(), (String, String)> {
    let f = |k: &str, m: String| Err((k.to_string(), m));
    let graphs = c.get_graphs();
    let jg = inner.get("graphs").and_then(|x| x.as_array()).cloned().unwrap_or_default();
    if jg.len() != graphs.len() {
        return f("graph-count", format!("{} graphs but serialization lists {}", graphs.len(), jg.len()));
    }
    if c.get_num_graphs() != graphs.len() as u64 {
        return f("graph-count", "get_num_graphs disagrees with get_graphs".into());
    }
    let fin = |i: usize| jg[i].get("finalized").and_then(|x| x.as_bool()).unwrap_or(false);
    for (i, g) in graphs.iter().enumerate() {
        if g.get_id() != i as u64 {
            return f("graph-id", format!("graph at position {} has id {}", i, g.get_id()));
        }
        if g.get_context() != *c {
            return f("graph-context", format!("graph {} belongs to another context", i));
        }
        let nodes = g.get_nodes();
        if g.get_num_nodes() != nodes.len() as u64 {
            return f("node-count", format!("graph {}: get_num_nodes disagrees", i));
        }
        for (j, n) in nodes.iter().enumerate() {
            if n.get_id() != j as u64 {
                return f("node-id", format!("node at ({},{}) has id {}", i, j, n.get_id()));
            }
            if n.get_graph() != *g {
                return f("node-graph", format!("node ({},{}) belongs to another graph", i, j));
            }
            for d in n.get_node_dependencies() {
                if d.get_graph() != *g || d.get_id() >= j as u64 || nodes[d.get_id() as usize] != d {
                    return f("node-dependency", format!("node ({},{}) depends on ({},{})", i, j, d.get_graph().get_id(), d.get_id()));
                }
            }
            for d in n.get_graph_dependencies() {
                let k = d.get_id() as usize;
                if d.get_context() != *c || k >= i || graphs[k] != d {
                    return f("graph-dependency", format!("node ({},{}) calls graph {}", i, j, d.get_id()));
                }
                if !fin(k) || d.get_output_node().is_err() {
                    return f("graph-dependency-unfinalized", format!("node ({},{}) calls unfinalized graph {}", i, j, k));
                }
            }
            let op = n.get_operation();
            let n_gd = n.get_graph_dependencies().len();
            if matches!(op, Operation::Call | Operation::Iterate) != (n_gd == 1) || n_gd > 1 {
                return f("graph-dependency-arity", format!("node ({},{}) {:?} has {} graph dependencies", i, j, op, n_gd));
            }
            if let Err(e) = n.get_type() {
                return f("node-untyped", format!("node ({},{}) {:?} has no type: {}", i, j, op, e));
            }
            match n.get_name() {
                Ok(Some(nm)) => match g.retrieve_node(&nm) {
                    Ok(r) if r == *n => {}
                    _ => return f("node-name", format!("name {:?} of node ({},{}) does not resolve to it", nm, i, j)),
                },
                Ok(None) => {}
                Err(e) => return f("node-name", format!("get_name failed on ({},{}): {}", i, j, e)),
            }
            if n.get_annotations().is_err() {
                return f("node-annotations", format!("get_annotations failed on ({},{})", i, j));
            }
        }
        match g.get_output_node() {
            Ok(o) => {
                if o.get_graph() != *g || (o.get_id() as usize) >= nodes.len() || nodes[o.get_id() as usize] != o {
                    return f("output-node", format!("output node of graph {} is not one of its nodes", i));
                }
            }
            Err(_) => {
                if fin(i) {
                    return f("output-node", format!("finalized graph {} has no output node", i));
                }
            }
        }
        if let Ok(nm) = c.get_graph_name(g.clone()) {
            match c.retrieve_graph(&nm) {
                Ok(r) if r == *g => {}
                _ => return f("graph-name", format!("name {:?} of graph {} does not resolve to it", nm, i)),
            }
        }
        if g.get_annotations().is_err() {
            return f("graph-annotations", format!("get_annotations failed on graph {}", i));
        }
    }
    match c.get_main_graph() {
        Ok(m) => {
            let k = m.get_id() as usize;
            if m.get_context() != *c || k >= graphs.len() || graphs[k] != m {
                return f("main-graph", "main graph is not a graph of the context".into());
            }
            if !fin(k) {
                return f("main-graph", "main graph is not finalized".into());
            }
        }
        Err(_) => {
            if c.check_finalized().is_ok() {
                return f("main-graph", "finalized context without main graph".into());
            }
        }
    }
    if c.check_finalized().is_ok() && (0..graphs.len()).any(|i| !fin(i)) {
        return f("context-finalized", "finalized context holds an unfinalized graph".into());
    }
    // tables of the serialization must point at existing graphs / nodes
    let n_nodes = |gi: u64| graphs.get(gi as usize).map(|g| g.get_num_nodes());
    for (table, with_node) in [("graphs_names", false), ("graphs_annotations", false), ("nodes_names", true), ("nodes_annotations", true)] {
        for e in inner.get(table).and_then(|x| x.as_array()).cloned().unwrap_or_default() {
            let key = &e[0];
            let ok = if with_node {
                match (key[0].as_u64(), key[1].as_u64()) {
                    (Some(g), Some(n)) => n_nodes(g).map(|k| n < k).unwrap_or(false),
                    _ => false,
                }
            } else {
                key.as_u64().map(|g| n_nodes(g).is_some()).unwrap_or(false)
            };
            if !ok {
                return f("table-id", format!("{} holds the key {} which does not exist", table, key));
            }
        }
    }
    Ok(())
}

// ---------------------------------------------------------------------------------------------
// the round-trip oracle (A)

pub fn round_trip(c: &Context, inputs: Option<&Vec<Value>>, instantiate: bool, seed: [u8; 16]) -> Result<Vec<String>, (String, String)> {
    let mut labels = vec![];
    let s1 = ser(c).map_err(|e| ("ser-fail".to_string(), e))?;
    let s2 = ser(c).map_err(|e| ("ser-fail".to_string(), e))?;
    if s1 != s2 {
        return Err(("ser-nondeterministic".into(), "two serializations of the same context differ".into()));
    }
    let c2 = match deser(&s1) {
        De::Ok(c2) => c2,
        De::Err(e) => return Err(("rt-deser-err".into(), format!("from_str(to_string(c)) = Err({}) | text {}", e, clip(&s1, 600)))),
        De::Panic(p) => return Err((format!("rt-deser-panic-{}", site_sig(&p)), format!("from_str(to_string(c)) panicked: {} | text {}", p, clip(&s1, 600)))),
    };
    let de = crate::util::catch(|| c.deep_equal(c2.clone()) && c2.deep_equal(c.clone()));
    match de {
        Ok(true) => {}
        Ok(false) => {
            let detail = same_structure(c, &c2).err().map(|x| x.1).unwrap_or_default();
            return Err(("rt-not-deep-equal".into(), format!("deep_equal is false after the round trip; {} | text {}", detail, clip(&s1, 600))));
        }
        Err(p) => return Err(("rt-deep-equal-panic".into(), p)),
    }
    same_structure(c, &c2).map_err(|(k, m)| (k, format!("{} | text {}", m, clip(&s1, 600))))?;
    let s3 = ser(&c2).map_err(|e| ("rt-reser-fail".to_string(), e))?;
    let (i1, i3) = match (split_env(&s1), split_env(&s3)) {
        (Some(a), Some(b)) => (a.1, b.1),
        _ => return Err(("rt-envelope".into(), "serialization is not {version, data: JSON string}".into())),
    };
    if i1 != i3 {
        return Err(("rt-reser-differs".into(), format!("re-serialization of the reloaded context differs as JSON | before {} | after {}", clip(&s1, 400), clip(&s3, 400))));
    }
    labels.push(if s1 == s3 { "reser:text-identical".to_string() } else { "reser:json-equal-only".to_string() });
    wf(&c2, &i3).map_err(|(k, m)| (format!("rt-reloaded-illformed-{}", k), m))?;
    match inputs {
        None => labels.push("eval:not-evaluable".into()),
        Some(inp) => {
            let r1 = evaluate(c, inp, instantiate, seed);
            let r2 = evaluate(&c2, inp, instantiate, seed);
            match (&r1, &r2) {
                (Ok(Ok(a)), Ok(Ok(b))) => {
                    if a != b {
                        return Err(("rt-eval-differs".into(), "evaluation results differ after the round trip".into()));
                    }
                    labels.push("eval:ok".into());
                }
                (Ok(Err(a)), Ok(Err(b))) => {
                    if a != b {
                        return Err(("rt-eval-differs".into(), format!("runtime errors differ: {} vs {}", a, b)));
                    }
                    labels.push(format!("eval:same-error:{}", first_words(a, 4)));
                }
                (Err(a), Err(b)) if site_of(a) == site_of(b) => labels.push(format!("eval:same-panic:{}", site_of(a))),
                _ => {
                    let show = |r: &Result<Result<Value, String>, String>| match r {
                        Ok(Ok(_)) => "Ok".to_string(),
                        Ok(Err(e)) => format!("Err({})", e),
                        Err(p) => format!("panic({})", p),
                    };
                    return Err(("rt-eval-differs".into(), format!("evaluation: {} before, {} after reload", show(&r1), show(&r2))));
                }
            }
        }
    }
    Ok(labels)
}

// ---------------------------------------------------------------------------------------------
// judging an arbitrary text (B)

pub enum Judged {
    Err(String),
    Ok(Vec<String>),
    Fail(String, String),
}

pub fn judge_text(text: &str) -> Judged {
    let c = match deser(text) {
        De::Panic(p) => return Judged::Fail(format!("deser-panic-{}", site_sig(&p)), format!("from_str::<Context> panicked: {}", p)),
        De::Err(e) => return Judged::Err(first_words(&e, 3)),
        De::Ok(c) => c,
    };
    // "wrong version" is one of the corruptions the property lists: a text whose outer envelope
    // carries an integer version other than the one the library itself writes must be rejected
    if let Ok(J::Object(o)) = serde_json::from_str::<J>(text) {
        if let Some(v) = o.get("version") {
            let current = ser(&c).ok().and_then(|s| serde_json::from_str::<J>(&s).ok()).and_then(|j| j["version"].as_u64());
            if (v.is_u64() || v.is_i64()) && current.is_some() && v.as_u64() != current {
                return Judged::Fail("wrong-version-accepted".into(), format!("from_str accepted a context whose envelope says version {} (the library writes {})", v, current.unwrap()));
            }
        }
    }
    let s = match ser(&c) {
        Ok(s) => s,
        Err(e) => return Judged::Fail("accepted-not-serializable".into(), e),
    };
    let inner = match split_env(&s) {
        Some(x) => x.1,
        None => return Judged::Fail("accepted-not-serializable".into(), "re-serialization is not an envelope".into()),
    };
    if let Err((k, m)) = wf(&c, &inner) {
        return Judged::Fail(format!("deser-illformed-{}", k), format!("from_str accepted an ill-formed context: {}", m));
    }
    match deser(&s) {
        De::Ok(c2) => {
            if !c.deep_equal(c2.clone()) || same_structure(&c, &c2).is_err() {
                return Judged::Fail("accepted-unstable".into(), "the accepted context does not survive its own round trip".into());
            }
        }
        De::Err(e) => return Judged::Fail("accepted-unstable".into(), format!("re-serialization of the accepted context is rejected: {}", e)),
        De::Panic(p) => return Judged::Fail(format!("deser-panic-{}", site_sig(&p)), format!("re-load of an accepted context panicked: {}", p)),
    }
    let n: u64 = c.get_graphs().iter().map(|g| g.get_num_nodes()).sum();
    Judged::Ok(vec![format!("accepted-nodes:{}", crate::c01::bucket(n as usize))])
}

// ---------------------------------------------------------------------------------------------
// every custom-operation tag registered by the library, with parameters

pub fn library_custom_ops() -> Vec<String> {
    let mut v: Vec<J> = vec![];
    for t in ["Not", "Or", "Mux", "Equal", "NotEqual", "A2BMPC", "AddMPC", "SubtractMPC", "MultiplyMPC", "DotMPC", "MatmulMPC", "MixedMultiplyMPC"] {
        v.push(json!({"body": {"type": t}}));
    }
    v.push(json!({"body": {"type": "SimpleHash"}}));
    for t in ["LessThan", "LessThanEqualTo", "GreaterThan", "GreaterThanEqualTo", "Min", "Max"] {
        for b in [false, true] {
            v.push(json!({"body": {"type": t, "signed_comparison": b}}));
        }
    }
    for b in [false, true] {
        v.push(json!({"body": {"type": "BinaryAdd", "overflow_bit": b}}));
        v.push(json!({"body": {"type": "BinaryAddTransposed", "overflow_bit": b}}));
        v.push(json!({"body": {"type": "LongDivision", "signed": b}}));
        v.push(json!({"body": {"type": "GemmMPC", "transpose_a": b, "transpose_b": !b}}));
        v.push(json!({"body": {"type": "ApplyPermutationMPC", "inverse_permutation": b, "reveal_output": !b}}));
        v.push(json!({"body": {"type": "FixedMultiply", "config": {"fractional_bits": 10, "debug": b}}}));
        v.push(json!({"body": {"type": "AucScore", "fp": {"fractional_bits": 0, "debug": b}}}));
    }
    for k in [0u64, 1, 63, u64::MAX] {
        v.push(json!({"body": {"type": "Clip2K", "k": k}}));
        v.push(json!({"body": {"type": "TruncateMPC2K", "k": k}}));
        v.push(json!({"body": {"type": "InverseSqrt", "iterations": k, "denominator_cap_2k": 4}}));
        v.push(json!({"body": {"type": "NewtonInversion", "iterations": 3, "denominator_cap_2k": k}}));
        v.push(json!({"body": {"type": "GoldschmidtDivision", "iterations": k, "denominator_cap_2k": k}}));
        v.push(json!({"body": {"type": "TaylorExponent", "taylor_terms": k, "fixed_precision_points": 4}}));
        v.push(json!({"body": {"type": "ApproxExponent", "precision": k}}));
        v.push(json!({"body": {"type": "ApproxSigmoid", "precision": k, "approximation_log_buckets": 5}}));
        v.push(json!({"body": {"type": "ApproxGelu", "precision": 4, "approximation_log_buckets": k}}));
        v.push(json!({"body": {"type": "ApproxGeluDerivative", "precision": k, "approximation_log_buckets": k}}));
        v.push(json!({"body": {"type": "ObliviousTransfer", "sender_id": k, "receiver_id": 1}}));
        v.push(json!({"body": {"type": "PermutationMPC", "sender_id": 0, "programmer_id": k}}));
        v.push(json!({"body": {"type": "DuplicationMPC", "sender_id": k, "programmer_id": 2}}));
        v.push(json!({"body": {"type": "SwitchingMPC", "sender_id": 1, "programmer_id": k}}));
        v.push(json!({"body": {"type": "RadixSortMPC", "key": "k\"ey", "bits_chunk_size": k}}));
        v.push(json!({"body": {"type": "LowMC", "s_boxes_per_round": k, "rounds": 3, "block_size": if k & 1 == 0 { "SIZE80" } else { "SIZE128" }}}));
    }
    for key in ["", "key", "ключ \"q\" \\ \n"] {
        v.push(json!({"body": {"type": "SortByIntegerKey", "key": key}}));
    }
    let scale128: J = serde_json::from_str("340282366920938463463374607431768211455").unwrap();
    v.push(json!({"body": {"type": "TruncateMPC", "scale": 1}}));
    v.push(json!({"body": {"type": "TruncateMPC", "scale": scale128}}));
    for st in ["bit", "u8", "i8", "u16", "i16", "u32", "i32", "u64", "i64", "u128", "i128"] {
        v.push(json!({"body": {"type": "B2AMPC", "st": st}}));
    }
    for jt in ["Inner", "Left", "Union", "Full"] {
        v.push(json!({"body": {"type": "JoinMPC", "join_t": jt, "headers": [["a", "b"], ["c d", "é"]], "has_column_masks": jt == "Left"}}));
    }
    v.into_iter().map(|x| x.to_string()).collect()
}

// ---------------------------------------------------------------------------------------------
// the envelope mutator (DESIGN §2.8)

#[derive(Clone, Copy, Debug, Serialize, Deserialize, PartialEq, Eq, Hash)]
pub enum MK {
    // payload stays decodable
    NodeDep,
    GraphDep,
    OutputNode,
    MainGraph,
    GraphNameId,
    NodeNameGid,
    NodeNameNid,
    DupName,
    NodeAnnoGid,
    NodeAnnoNid,
    GraphAnnoId,
    DupAnnoKey,
    FlipGraphFinal,
    FlipCtxFinal,
    SwapNodes,
    SwapGraphs,
    DropNode,
    DupNode,
    DropGraph,
    CopyOp,
    ReplaceOp,
    CustomTag,
    NumLeaf,
    StrLeaf,
    TypeLeaf,
    // the encoding itself
    DelField,
    DupField,
    Retype,
    BadNumber,
    UnknownOp,
    UnknownCustomTag,
    ConstEnvelope,
    Version,
    TruncInner,
    TruncOuter,
    OuterField,
    DataNotJson,
}

#[derive(Clone, Debug, Serialize, Deserialize, PartialEq, Eq, Hash)]
pub struct Mut {
    pub k: MK,
    pub a: u16,
    pub b: u16,
    pub c: u16,
    pub v: u8,
}

pub fn structural_kinds() -> Vec<(u32, MK)> {
    vec![
        (6, MK::NodeDep),
        (5, MK::GraphDep),
        (4, MK::OutputNode),
        (4, MK::MainGraph),
        (4, MK::GraphNameId),
        (4, MK::NodeNameGid),
        (4, MK::NodeNameNid),
        (3, MK::DupName),
        (6, MK::NodeAnnoGid),
        (6, MK::NodeAnnoNid),
        (6, MK::GraphAnnoId),
        (2, MK::DupAnnoKey),
        (4, MK::FlipGraphFinal),
        (3, MK::FlipCtxFinal),
        (4, MK::SwapNodes),
        (3, MK::SwapGraphs),
        (3, MK::DropNode),
        (3, MK::DupNode),
        (2, MK::DropGraph),
        (5, MK::CopyOp),
        (8, MK::ReplaceOp),
        (8, MK::CustomTag),
        (6, MK::NumLeaf),
        (3, MK::StrLeaf),
        (5, MK::TypeLeaf),
    ]
}

pub fn shape_kinds() -> Vec<(u32, MK)> {
    vec![
        (5, MK::DelField),
        (2, MK::DupField),
        (6, MK::Retype),
        (4, MK::BadNumber),
        (3, MK::UnknownOp),
        (3, MK::UnknownCustomTag),
        (6, MK::ConstEnvelope),
        (3, MK::Version),
        (4, MK::TruncInner),
        (3, MK::TruncOuter),
        (3, MK::OuterField),
        (3, MK::DataNotJson),
        // a little structure on top, so that combinations are reached
        (1, MK::NodeAnnoNid),
        (1, MK::GraphAnnoId),
        (1, MK::ReplaceOp),
    ]
}

fn id_variant(x: u64, len: u64, own: u64, v: u8) -> J {
    let t = [
        x.wrapping_add(1),
        x.wrapping_sub(1),
        len,
        len.wrapping_add(1),
        0,
        len.saturating_sub(1),
        1u64 << 32,
        u64::MAX,
        own,
        x ^ 1,
    ];
    json!(t[(v % 10) as usize])
}

fn n_graphs(inner: &J) -> usize {
    inner["graphs"].as_array().map(|a| a.len()).unwrap_or(0)
}
fn n_nodes(inner: &J, gi: usize) -> usize {
    inner["graphs"][gi]["nodes"].as_array().map(|a| a.len()).unwrap_or(0)
}

fn esc(k: &str) -> String {
    k.replace('~', "~0").replace('/', "~1")
}

/// JSON pointers of all values below `v` (depth-first), filtered
fn collect(v: &J, path: &str, out: &mut Vec<String>, pred: &dyn Fn(&J, &str) -> bool) {
    if pred(v, path) {
        out.push(path.to_string());
    }
    match v {
        J::Array(a) => {
            for (i, x) in a.iter().enumerate() {
                collect(x, &format!("{}/{}", path, i), out, pred);
            }
        }
        J::Object(o) => {
            for (k, x) in o {
                collect(x, &format!("{}/{}", path, esc(k)), out, pred);
            }
        }
        _ => {}
    }
}

fn op_paths(inner: &J) -> Vec<String> {
    let mut v = vec![];
    for gi in 0..n_graphs(inner) {
        for ni in 0..n_nodes(inner, gi) {
            v.push(format!("/graphs/{}/nodes/{}/operation", gi, ni));
        }
    }
    v
}

fn replacement_ops() -> Vec<J> {
    let mut v: Vec<J> = [
        "Add", "Subtract", "Multiply", "MixedMultiply", "Dot", "Matmul", "NOP", "A2B", "CreateTuple", "VectorGet", "Zip", "Call", "Iterate", "ArrayToVector",
        "VectorToArray", "CuckooHash", "InversePermutation", "CuckooToPermutation", "SegmentCumSum",
    ]
    .iter()
    .map(|s| json!(s))
    .collect();
    let big: J = serde_json::from_str("340282366920938463463374607431768211455").unwrap();
    v.extend(vec![
        json!({"Gemm": [true, false]}),
        json!({"Truncate": 0}),
        json!({"Truncate": big}),
        json!({"Sum": [0, 0]}),
        json!({"Sum": [7]}),
        json!({"CumSum": 3}),
        json!({"PermuteAxes": [0, 0]}),
        json!({"PermuteAxes": []}),
        json!({"Get": [9, 9, 9]}),
        json!({"Get": []}),
        json!({"GetSlice": [{"SingleIndex": -9}, "Ellipsis", "Ellipsis"]}),
        json!({"GetSlice": [{"SubArray": [null, null, 0]}]}),
        json!({"Reshape": {"Array": [[0], "i32"]}}),
        json!({"Reshape": {"Scalar": "bit"}}),
        json!({"Random": {"Tuple": []}}),
        json!({"PRF": [0, {"Vector": [3, {"Scalar": "i8"}]}]}),
        json!({"PermutationFromPRF": [1, 0]}),
        json!({"Stack": [0]}),
        json!({"Stack": [2, 2]}),
        json!({"Concatenate": 5}),
        json!({"B2A": "bit"}),
        json!({"B2A": "i128"}),
        json!({"CreateNamedTuple": ["a", "a"]}),
        json!({"CreateNamedTuple": []}),
        json!({"CreateVector": {"Scalar": "u8"}}),
        json!({"TupleGet": 18446744073709551615u64}),
        json!({"NamedTupleGet": ""}),
        json!({"Repeat": 0}),
        json!({"RandomPermutation": 0}),
        json!({"Gather": 9}),
        json!({"DecomposeSwitchingMap": 0}),
        json!({"Shard": {"num_shards": 0, "shard_size": 0, "shard_headers": []}}),
        json!({"ShardWithColumnMasks": {"num_shards": 2, "shard_size": 1, "shard_headers": ["x", "x"]}}),
        json!({"Join": ["Full", {}]}),
        json!({"Join": ["Inner", {"a": "a"}]}),
        json!({"JoinWithColumnMasks": ["Union", {"a": "b", "c": "b"}]}),
        json!({"ApplyPermutation": true}),
        json!({"Sort": ""}),
        json!({"Print": "m"}),
        json!({"Assert": "m"}),
        json!({"Input": {"Array": [[], "i32"]}}),
        json!({"Input": {"NamedTuple": [["a", {"Scalar": "i8"}], ["a", {"Scalar": "i8"}]]}}),
        json!({"Ones": {"Array": [[1, 0, 1], "bit"]}}),
        json!({"Constant": [{"Scalar": "i32"}, {"version": 2, "data": "{\"body\":{\"Bytes\":[1]}}"}]}),
        json!({"Constant": [{"Tuple": [{"Scalar": "bit"}]}, {"version": 2, "data": "{\"body\":{\"Vector\":[]}}"}]}),
        json!({"Constant": [{"Array": [[3], "bit"]}, {"version": 2, "data": "{\"body\":{\"Bytes\":[255]}}"}]}),
    ]);
    v
}

fn replacement_types() -> Vec<J> {
    vec![
        json!({"Scalar": "bit"}),
        json!({"Scalar": "u128"}),
        json!({"Array": [[0], "i32"]}),
        json!({"Array": [[], "i32"]}),
        json!({"Array": [[2, 3], "u128"]}),
        json!({"Vector": [0, {"Scalar": "bit"}]}),
        json!({"Vector": [2, {"Array": [[0], "u8"]}]}),
        json!({"Tuple": []}),
        json!({"Tuple": [{"Tuple": [{"Tuple": []}]}]}),
        json!({"NamedTuple": [["a", {"Scalar": "i8"}], ["a", {"Scalar": "i8"}]]}),
        json!({"NamedTuple": []}),
        json!({"NamedTuple": [["", {"Array": [[1], "bit"]}]]}),
    ]
}

fn is_type_json(v: &J) -> bool {
    match v.as_object() {
        Some(o) if o.len() == 1 => {
            let k = o.keys().next().unwrap();
            matches!(k.as_str(), "Scalar" | "Array" | "Vector" | "Tuple" | "NamedTuple")
        }
        _ => false,
    }
}

const SCALAR_NAMES: [&str; 11] = ["bit", "u8", "i8", "u16", "i16", "u32", "i32", "u64", "i64", "u128", "i128"];

/// table mutations: replace one id of an entry key, or insert an entry when the table is empty
fn table_id(inner: &mut J, table: &str, which: Option<usize>, m: &Mut, default_val: J) -> bool {
    let ng = n_graphs(inner) as u64;
    let gi0 = pick(m.a, ng.max(1) as usize) as u64;
    let nn0 = n_nodes(inner, gi0 as usize) as u64;
    let empty = inner[table].as_array().map(|a| a.is_empty()).unwrap_or(true);
    if !inner[table].is_array() {
        return false;
    }
    if empty {
        let key = match which {
            None => id_variant(gi0, ng, gi0, m.v),
            Some(0) => json!([id_variant(gi0, ng, gi0, m.v), pick(m.b, nn0.max(1) as usize)]),
            Some(_) => json!([gi0, id_variant(pick(m.b, nn0.max(1) as usize) as u64, nn0, 0, m.v)]),
        };
        inner[table].as_array_mut().unwrap().push(json!([key, default_val]));
        return true;
    }
    let len = inner[table].as_array().unwrap().len();
    let e = pick(m.c, len);
    match which {
        None => {
            let x = inner[table][e][0].as_u64().unwrap_or(0);
            inner[table][e][0] = id_variant(x, ng, gi0, m.v);
        }
        Some(0) => {
            let x = inner[table][e][0][0].as_u64().unwrap_or(0);
            inner[table][e][0][0] = id_variant(x, ng, gi0, m.v);
        }
        Some(_) => {
            let g = inner[table][e][0][0].as_u64().unwrap_or(0);
            let x = inner[table][e][0][1].as_u64().unwrap_or(0);
            let nn = n_nodes(inner, g as usize) as u64;
            inner[table][e][0][1] = id_variant(x, nn, 0, m.v);
        }
    }
    true
}

fn valid_envelope() -> J {
    json!({"version": 2, "data": "{\"body\":{\"Bytes\":[1]}}"})
}

fn corrupt_envelope(env: &mut J, v: u8) {
    let data = env["data"].as_str().unwrap_or("").to_string();
    match v % 12 {
        0 => env["version"] = json!(3),
        1 => env["data"] = json!(""),
        2 => {
            let mut cut = data.len() / 2;
            while !data.is_char_boundary(cut) {
                cut -= 1;
            }
            env["data"] = json!(data[..cut].to_string());
        }
        3 => env["data"] = json!("{}"),
        4 => env["data"] = json!("{\"body\":{\"Bytes\":[256]}}"),
        5 => env["data"] = json!("{\"body\":{\"Vector\":[]}}"),
        6 => env["data"] = json!(data.replacen("[", "[7,", 1)),
        7 => *env = json!("{\"body\":{\"Bytes\":[1]}}"),
        8 => env["data"] = json!("{\"body\":{\"Bytes\":[-1]}}"),
        9 => {
            env.as_object_mut().map(|o| o.remove("data"));
        }
        10 => env["data"] = json!("{\"body\":{\"Blob\":[1]}}"),
        _ => env["data"] = json!(format!("{} x", data)),
    }
}

enum TextOp {
    TruncInner(u16),
    TruncOuter(u16),
    DupInner,
    RawData(String),
}

fn truncate_at(s: &str, sel: u16) -> String {
    let mut cut = pick(sel, s.len().max(1));
    while cut > 0 && !s.is_char_boundary(cut) {
        cut -= 1;
    }
    s[..cut].to_string()
}

/// applies one mutation to the decoded envelope; returns the name actually applied
fn apply(outer: &mut J, inner: &mut J, text_ops: &mut Vec<TextOp>, m: &Mut) -> String {
    let ng = n_graphs(inner);
    let gi = pick(m.a, ng.max(1));
    let nn = n_nodes(inner, gi);
    let ni = pick(m.b, nn.max(1));
    let name = format!("{:?}", m.k);
    let noop = format!("noop-{:?}", m.k);
    match m.k {
        MK::NodeDep | MK::GraphDep => {
            let field = if m.k == MK::NodeDep { "node_dependencies" } else { "graph_dependencies" };
            // prefer a node that has such dependencies
            let cands: Vec<(usize, usize)> = (0..ng)
                .flat_map(|g| (0..n_nodes(inner, g)).map(move |n| (g, n)))
                .filter(|(g, n)| inner["graphs"][*g]["nodes"][*n][field].as_array().map(|a| !a.is_empty()).unwrap_or(false))
                .collect();
            if cands.is_empty() || m.v >= 200 {
                // add a dependency to some node
                if nn == 0 {
                    return noop;
                }
                let len = if m.k == MK::NodeDep { nn as u64 } else { ng as u64 };
                let own = if m.k == MK::NodeDep { ni as u64 } else { gi as u64 };
                if let Some(a) = inner["graphs"][gi]["nodes"][ni][field].as_array_mut() {
                    a.push(id_variant(own, len, own, m.v));
                    return format!("{}-added", name);
                }
                return noop;
            }
            let (g, n) = cands[pick(m.c, cands.len())];
            let deps = inner["graphs"][g]["nodes"][n][field].as_array().unwrap().len();
            let k = (m.v as usize / 10) % deps;
            let x = inner["graphs"][g]["nodes"][n][field][k].as_u64().unwrap_or(0);
            let (len, own) = if m.k == MK::NodeDep { (n_nodes(inner, g) as u64, n as u64) } else { (ng as u64, g as u64) };
            inner["graphs"][g]["nodes"][n][field][k] = id_variant(x, len, own, m.v);
            name
        }
        MK::OutputNode => {
            if ng == 0 {
                return noop;
            }
            let x = inner["graphs"][gi]["output_node"].as_u64();
            inner["graphs"][gi]["output_node"] = match (x, m.v % 11) {
                (_, 10) => J::Null,
                (Some(x), v) => id_variant(x, nn as u64, ni as u64, v),
                (None, v) => id_variant(ni as u64, nn as u64, ni as u64, v),
            };
            name
        }
        MK::MainGraph => {
            let x = inner["main_graph"].as_u64();
            inner["main_graph"] = match (x, m.v % 11) {
                (_, 10) => J::Null,
                (Some(x), v) => id_variant(x, ng as u64, gi as u64, v),
                (None, v) => id_variant(gi as u64, ng as u64, gi as u64, v),
            };
            name
        }
        MK::GraphNameId => {
            if table_id(inner, "graphs_names", None, m, json!("g")) {
                name
            } else {
                noop
            }
        }
        MK::NodeNameGid | MK::NodeNameNid => {
            if table_id(inner, "nodes_names", Some((m.k == MK::NodeNameNid) as usize), m, json!("n")) {
                name
            } else {
                noop
            }
        }
        MK::DupName => {
            // a second entry with an existing name (other key) or an existing key (other name)
            let table = if m.v & 1 == 0 { "nodes_names" } else { "graphs_names" };
            let len = inner[table].as_array().map(|a| a.len()).unwrap_or(0);
            if len == 0 {
                return noop;
            }
            let mut e = inner[table][pick(m.c, len)].clone();
            match (m.v >> 1) % 3 {
                0 => {}
                1 => e[1] = json!("other"),
                _ => {
                    if table == "nodes_names" {
                        let g = e[0][0].as_u64().unwrap_or(0);
                        e[0][1] = json!(pick(m.b, n_nodes(inner, g as usize).max(1)));
                    } else {
                        e[0] = json!(gi);
                    }
                }
            }
            inner[table].as_array_mut().unwrap().push(e);
            name
        }
        MK::NodeAnnoGid | MK::NodeAnnoNid => {
            if table_id(inner, "nodes_annotations", Some((m.k == MK::NodeAnnoNid) as usize), m, json!(["Private"])) {
                name
            } else {
                noop
            }
        }
        MK::GraphAnnoId => {
            if table_id(inner, "graphs_annotations", None, m, json!(["OneBitState"])) {
                name
            } else {
                noop
            }
        }
        MK::DupAnnoKey => {
            let table = if m.v & 1 == 0 { "nodes_annotations" } else { "graphs_annotations" };
            let len = inner[table].as_array().map(|a| a.len()).unwrap_or(0);
            if len == 0 {
                return noop;
            }
            let e = inner[table][pick(m.c, len)].clone();
            inner[table].as_array_mut().unwrap().push(e);
            name
        }
        MK::FlipGraphFinal => {
            if ng == 0 {
                return noop;
            }
            let x = inner["graphs"][gi]["finalized"].as_bool().unwrap_or(false);
            inner["graphs"][gi]["finalized"] = json!(!x);
            name
        }
        MK::FlipCtxFinal => {
            let x = inner["finalized"].as_bool().unwrap_or(false);
            inner["finalized"] = json!(!x);
            name
        }
        MK::SwapNodes => {
            if nn < 2 {
                return noop;
            }
            let nj = pick(m.c, nn);
            if let Some(a) = inner["graphs"][gi]["nodes"].as_array_mut() {
                a.swap(ni, nj);
            }
            name
        }
        MK::SwapGraphs => {
            if ng < 2 {
                return noop;
            }
            let gj = pick(m.c, ng);
            if let Some(a) = inner["graphs"].as_array_mut() {
                a.swap(gi, gj);
            }
            name
        }
        MK::DropNode => {
            if nn == 0 {
                return noop;
            }
            inner["graphs"][gi]["nodes"].as_array_mut().unwrap().remove(ni);
            name
        }
        MK::DupNode => {
            if nn == 0 {
                return noop;
            }
            let e = inner["graphs"][gi]["nodes"][ni].clone();
            let at = pick(m.c, nn + 1);
            inner["graphs"][gi]["nodes"].as_array_mut().unwrap().insert(at, e);
            name
        }
        MK::DropGraph => {
            if ng == 0 {
                return noop;
            }
            inner["graphs"].as_array_mut().unwrap().remove(gi);
            name
        }
        MK::CopyOp => {
            let ops = op_paths(inner);
            if ops.len() < 2 {
                return noop;
            }
            let from = inner.pointer(&ops[pick(m.c, ops.len())]).cloned().unwrap_or(J::Null);
            let to = &ops[pick(m.b, ops.len())];
            if let Some(x) = inner.pointer_mut(to) {
                *x = from;
            }
            name
        }
        MK::ReplaceOp => {
            let ops = op_paths(inner);
            if ops.is_empty() {
                return noop;
            }
            let table = replacement_ops();
            let r = table[pick(m.c, table.len())].clone();
            let tag = match &r {
                J::String(s) => s.clone(),
                J::Object(o) => o.keys().next().cloned().unwrap_or_default(),
                _ => String::new(),
            };
            if let Some(x) = inner.pointer_mut(&ops[pick(m.b, ops.len())]) {
                *x = r;
            }
            format!("ReplaceOp-{}", tag)
        }
        MK::CustomTag => {
            let ops = op_paths(inner);
            if ops.is_empty() {
                return noop;
            }
            // parameters that make instantiation loop 2^64 times are a cost hazard, not a decoding matter
            let lib: Vec<String> = library_custom_ops().into_iter().filter(|j| !j.contains("18446744073709551615") && !j.contains(":63")).collect();
            let op: J = serde_json::from_str(&lib[pick(m.c, lib.len())]).unwrap();
            let tag = op["body"]["type"].as_str().unwrap_or("").to_string();
            // prefer an existing Custom node (arguments of a custom op are already there)
            let customs: Vec<&String> = ops.iter().filter(|p| inner.pointer(p).map(|o| o.get("Custom").is_some()).unwrap_or(false)).collect();
            let target = if !customs.is_empty() && m.v & 1 == 0 { customs[pick(m.b, customs.len())].clone() } else { ops[pick(m.b, ops.len())].clone() };
            if let Some(x) = inner.pointer_mut(&target) {
                *x = json!({ "Custom": op });
            }
            format!("CustomTag-{}", tag)
        }
        MK::NumLeaf => {
            let mut ps = vec![];
            for p in op_paths(inner) {
                if let Some(v) = inner.pointer(&p) {
                    collect(v, &p, &mut ps, &|x, _| x.is_number());
                }
            }
            if ps.is_empty() {
                return noop;
            }
            let p = &ps[pick(m.c, ps.len())];
            let x = inner.pointer(p).and_then(|v| v.as_u64()).unwrap_or(3);
            let t = [0u64, 1, x.wrapping_add(1), x.saturating_sub(1), 2, 7, 64, 128, 255, 1 << 16, (1 << 32) - 1, 1 << 32, 1 << 63, u64::MAX, x.wrapping_mul(2), 3];
            // parameters of custom operations (iteration counts, precisions) only get small values: a huge
            // iteration count makes instantiation run for ever, which is cost and not a decoding fault
            // numbers that become a dimension (shapes, vector lengths, Repeat/RandomPermutation sizes ...) stay small too:
            // the library has no size limits outside its `fuzzing` feature, and a 2^32 dimension makes type inference /
            // instantiation spin for hours or allocate without bound (cost, not a decoding fault; see the report)
            let index_like = ["/Sum/", "/CumSum", "/Get/", "/GetSlice/", "/PermuteAxes/", "/Concatenate", "/TupleGet", "/Gather", "/Truncate", "/PRF/0", "/PermutationFromPRF/0"]
                .iter()
                .any(|k| p.contains(&format!("/operation{}", k)));
            let small = p.contains("/Custom/") || !index_like;
            let k = if small { (m.v % 10) as usize } else { (m.v % 16) as usize };
            let ts = [0u64, 1, x.wrapping_add(1), x.saturating_sub(1), 2, 7, 64, 128, 255, 3];
            let val = if p.contains("/Custom/") { ts[k % 6].min(40) } else if small { ts[k].min(300) } else { t[k] };
            *inner.pointer_mut(p).unwrap() = json!(val);
            name
        }
        MK::StrLeaf => {
            let mut ps = vec![];
            for p in op_paths(inner) {
                if let Some(v) = inner.pointer(&p) {
                    let root = p.clone();
                    collect(v, &p, &mut ps, &|x, path| x.is_string() && path != root.as_str() && !path.ends_with("/data"));
                }
            }
            if ps.is_empty() {
                return noop;
            }
            let p = &ps[pick(m.c, ps.len())];
            let cur = inner.pointer(p).and_then(|v| v.as_str()).unwrap_or("").to_string();
            let new = if SCALAR_NAMES.contains(&cur.as_str()) {
                SCALAR_NAMES[(m.v % 11) as usize].to_string()
            } else {
                ["", "key", "x", "a", NULL_HEADER, "id", "k"][(m.v % 7) as usize].to_string()
            };
            *inner.pointer_mut(p).unwrap() = json!(new);
            name
        }
        MK::TypeLeaf => {
            let mut ps = vec![];
            for p in op_paths(inner) {
                if let Some(v) = inner.pointer(&p) {
                    collect(v, &p, &mut ps, &|x, _| is_type_json(x));
                }
            }
            if ps.is_empty() {
                return noop;
            }
            let p = &ps[pick(m.c, ps.len())];
            let table = replacement_types();
            let r = if m.v >= 128 && ps.len() > 1 {
                inner.pointer(&ps[pick(m.b, ps.len())]).cloned().unwrap()
            } else {
                table[(m.v as usize) % table.len()].clone()
            };
            *inner.pointer_mut(p).unwrap() = r;
            name
        }
        MK::DelField => {
            let mut ps = vec![];
            collect(inner, "", &mut ps, &|x, _| x.as_object().map(|o| !o.is_empty()).unwrap_or(false));
            if ps.is_empty() {
                return noop;
            }
            let p = &ps[pick(m.c, ps.len())];
            if let Some(o) = inner.pointer_mut(p).and_then(|x| x.as_object_mut()) {
                let keys: Vec<String> = o.keys().cloned().collect();
                let k = &keys[pick(m.b, keys.len())];
                o.remove(k);
                return format!("DelField-{}", if keys.len() > 1 || p.is_empty() { k.as_str() } else { "variant" });
            }
            noop
        }
        MK::DupField => {
            text_ops.push(TextOp::DupInner);
            name
        }
        MK::Retype => {
            let mut ps = vec![];
            collect(inner, "", &mut ps, &|_, p| !p.is_empty());
            if ps.is_empty() {
                return noop;
            }
            let p = &ps[pick(m.c, ps.len())];
            let big: J = serde_json::from_str("18446744073709551616").unwrap();
            let t = [J::Null, json!(true), json!(0), json!(-1), json!(1.5), json!("x"), json!([]), json!({}), json!([[]]), big, json!([0, 0]), json!({"x": 1})];
            let cur = inner.pointer(p).cloned().unwrap_or(J::Null);
            let mut k = (m.v as usize) % t.len();
            if std::mem::discriminant(&t[k]) == std::mem::discriminant(&cur) {
                k = (k + 1) % t.len();
            }
            *inner.pointer_mut(p).unwrap() = t[k].clone();
            let leaf = p.rsplit('/').find(|s| s.parse::<usize>().is_err()).unwrap_or("");
            format!("Retype-{}", leaf)
        }
        MK::BadNumber => {
            let mut ps = vec![];
            collect(inner, "", &mut ps, &|x, _| x.is_number());
            if ps.is_empty() {
                return noop;
            }
            let p = &ps[pick(m.c, ps.len())];
            let big: J = serde_json::from_str("18446744073709551616").unwrap();
            let huge: J = serde_json::from_str("1e400").unwrap_or(json!(1e300));
            let t = [json!(-1), json!(1.5), big, json!("0"), huge, json!(-0.0)];
            *inner.pointer_mut(p).unwrap() = t[(m.v % 6) as usize].clone();
            name
        }
        MK::UnknownOp => {
            let ops = op_paths(inner);
            if ops.is_empty() {
                return noop;
            }
            let r = [json!("Bogus"), json!({"Bogus": 1}), json!({"Add": 1}), json!({"Input": null}), json!("Input"), json!({"Add": null, "NOP": null}), json!({}), json!("add")];
            *inner.pointer_mut(&ops[pick(m.b, ops.len())]).unwrap() = r[(m.v % 8) as usize].clone();
            name
        }
        MK::UnknownCustomTag => {
            let ops = op_paths(inner);
            if ops.is_empty() {
                return noop;
            }
            let r = [
                json!({"Custom": {"body": {"type": "Nope"}}}),
                json!({"Custom": {"body": {}}}),
                json!({"Custom": {"body": {"type": 7}}}),
                json!({"Custom": {"body": {"type": "Clip2K"}}}),
                json!({"Custom": {"body": {"type": "Clip2K", "k": "1"}}}),
                json!({"Custom": {"body": {"type": "Not", "extra": 1}}}),
                json!({"Custom": {}}),
                json!({"Custom": {"body": "Not"}}),
            ];
            *inner.pointer_mut(&ops[pick(m.b, ops.len())]).unwrap() = r[(m.v % 8) as usize].clone();
            name
        }
        MK::ConstEnvelope => {
            let ops = op_paths(inner);
            if ops.is_empty() {
                return noop;
            }
            let consts: Vec<&String> = ops.iter().filter(|p| inner.pointer(p).map(|o| o.get("Constant").is_some()).unwrap_or(false)).collect();
            if consts.is_empty() {
                let mut env = valid_envelope();
                corrupt_envelope(&mut env, m.v);
                *inner.pointer_mut(&ops[pick(m.b, ops.len())]).unwrap() = json!({"Constant": [{"Scalar": "bit"}, env]});
                return format!("ConstEnvelope-new-{}", m.v % 12);
            }
            let p = format!("{}/Constant/1", consts[pick(m.b, consts.len())]);
            if let Some(env) = inner.pointer_mut(&p) {
                corrupt_envelope(env, m.v);
            }
            format!("ConstEnvelope-{}", m.v % 12)
        }
        MK::Version => {
            let big: J = serde_json::from_str("18446744073709551616").unwrap();
            let t = [json!(0), json!(1), json!(3), big, json!("2"), J::Null, json!(-2), json!(2.0), json!(18446744073709551615u64), json!([2])];
            outer["version"] = t[(m.v % 10) as usize].clone();
            name
        }
        MK::TruncInner => {
            text_ops.push(TextOp::TruncInner(m.c));
            name
        }
        MK::TruncOuter => {
            text_ops.push(TextOp::TruncOuter(m.c));
            name
        }
        MK::OuterField => {
            match m.v % 7 {
                0 => {
                    outer.as_object_mut().map(|o| o.remove("version"));
                }
                1 => {
                    outer.as_object_mut().map(|o| o.remove("data"));
                    text_ops.push(TextOp::RawData(String::new()));
                }
                2 => outer["extra"] = json!([1, 2]),
                3 => *outer = json!([2, outer["data"].clone()]),
                4 => *outer = J::Null,
                5 => *outer = json!({"version": 2, "data": {"finalized": false}}),
                _ => *outer = json!({"Version": 2, "Data": ""}),
            }
            format!("OuterField-{}", m.v % 7)
        }
        MK::DataNotJson => {
            let t = ["", "null", "[]", "{}", "nul", "{\"finalized\":true}", "0", "\"x\"", "{\"finalized\":false,\"graphs\":[]", "\u{0}"];
            text_ops.push(TextOp::RawData(t[(m.v % 10) as usize].to_string()));
            format!("DataNotJson-{}", m.v % 10)
        }
    }
}

/// Decodes the envelope, applies the mutations, re-encodes. None when the original text is not an
/// envelope (cannot happen for texts produced by to_string).
pub fn mutate_text(text: &str, muts: &[Mut]) -> Option<(String, Vec<String>)> {
    let (mut outer, mut inner) = split_env(text)?;
    let mut text_ops = vec![];
    let mut applied = vec![];
    for m in muts {
        // an earlier mutation may have changed the shape the next one navigates: then it is a no-op
        match crate::util::catch(|| apply(&mut outer, &mut inner, &mut text_ops, m)) {
            Ok(a) => applied.push(a),
            Err(_) => applied.push(format!("noop-{:?}", m.k)),
        }
    }
    let mut inner_text = inner.to_string();
    let mut raw: Option<String> = None;
    for op in &text_ops {
        match op {
            TextOp::TruncInner(sel) => inner_text = truncate_at(&inner_text, *sel),
            TextOp::DupInner => inner_text = inner_text.replacen("{\"finalized\":", "{\"finalized\":false,\"finalized\":", 1),
            TextOp::RawData(s) => raw = Some(s.clone()),
            TextOp::TruncOuter(_) => {}
        }
    }
    if let Some(o) = outer.as_object_mut() {
        if o.contains_key("data") && o["data"].is_string() {
            o.insert("data".into(), J::String(raw.unwrap_or(inner_text)));
        }
    }
    let mut out = outer.to_string();
    for op in &text_ops {
        if let TextOp::TruncOuter(sel) = op {
            out = truncate_at(&out, *sel);
        }
    }
    Some((out, applied))
}
