//! C07 — inlining preserves Call/Iterate semantics in every mode.
//!
//! Cases are plain data: a list of sub-graph specifications (iterate bodies of the five families,
//! call wrappers, graphs that iterate inside a call, bodies that iterate inside an iteration, plain
//! helper graphs), a list of uses in the main graph (Iterate / Call) and an inlining configuration.
//! The interpreter `build_ctx` turns the case into a ciphercore context through the public builder.
//! Annotated bodies satisfy the contract of their annotation BY CONSTRUCTION:
//!  * AssociativeOperation: state type == element type, state update is an associative operation
//!    (left/right projection, XOR/AND/OR on bits, ADD/MUL in Z_2^w, n x n matrix product, affine
//!    composition packed in an array or in a tuple); the per-step output is any function of
//!    (old state, element);
//!  * OneBitState: state is a BIT scalar/array; every state bit is updated as a(x)*s + b(x) with
//!    a, b derived from the element only (this is every function of one bit);
//!  * SmallState: state is a BIT array (..., K), K in 1..=4, every row is updated from itself and
//!    the element only (XOR, vector-matrix product with a shared or per-row K x K matrix taken from
//!    the element, rotation, prefix-AND, table lookup with a table taken from the element or a
//!    constant).
//! Oracle: SimpleEvaluator's native Call/Iterate on the original context vs SimpleEvaluator on
//! `inline_operations(context, cfg).get_context()` on the same inputs.
use crate::core::*;
use crate::gen::pick;
use crate::graphgen as gg;
use crate::hv::*;
use ciphercore_base::data_types::{array_type, scalar_type, tuple_type, vector_type, ScalarType, Type, BIT, UINT64, UINT8};
use ciphercore_base::data_values::Value;
use ciphercore_base::evaluators::simple_evaluator::SimpleEvaluator;
use ciphercore_base::evaluators::Evaluator;
use ciphercore_base::graphs::{create_context, Context, Graph, GraphAnnotation, Node, Operation, SliceElement};
use ciphercore_base::inline::inline_common::DepthOptimizationLevel;
use ciphercore_base::inline::inline_ops::{inline_operations, InlineConfig, InlineMode};
use proptest::prelude::*;
use serde::{Deserialize, Serialize};
use serde_json::Value as J;

pub const RULE: &str = "contexts of 2-6 graphs: iterate bodies of the families general / empty state / associative (left, right, xor, and, or, add, mul, n x n matrix product, affine composition in array and tuple form) / one-bit state (scalar or batched, s' = a(x) s + b(x)) / small state ((...,K), K=1..4: xor, shared and per-row bit-matrix product, rotation, prefix-and, table lookup), call wrappers around them, Iterate inside Call, Iterate inside Iterate, plain helper graphs called from several places, bodies with Random nodes; main graph = 1-3 Iterate/Call uses, vector lengths 0..40 with 0,1,2,15,16,17,31,32,33 forced; configuration = generated (default mode x override_call_mode x override_iterate_mode) plus the three un-overridden modes Simple, DepthOptimized(Default), DepthOptimized(Extreme); \
oracle: native Call/Iterate evaluation of the original context == evaluation of inline_operations(context, cfg) on the same inputs (deterministic parts exactly; Random-derived leaves pairwise distinct, accumulator relation for a random state); \
non-trivial = (>=1 Iterate of length >= 2 or call nesting depth >= 2) and >=1 Iterate of length >= 2 resolved to a non-simple strategy (empty-state, associative, one-bit, small-state) under a checked configuration; distinct = distinct case";

// ---------------------------------------------------------------------------------------------
// case data

#[derive(Clone, Copy, Debug, Serialize, Deserialize, PartialEq, Eq, Hash, PartialOrd, Ord)]
pub enum Op {
    // general state (not annotated)
    GMulAdd,
    GRevSub,
    GSquare,
    GTuple,
    GRandAcc,
    GCallPlain,
    // empty state
    EMap,
    // associative
    ALeft,
    ARight,
    AXor,
    AAnd,
    AOr,
    AAdd,
    AMul,
    AMat,
    AAffine,
    AAffineT,
    // one-bit state
    BSame,
    BPair,
    BStack,
    BInt,
    // small state
    SXor,
    SMatShared,
    SMatRow,
    SRot,
    SPrefixAnd,
    SLookup,
    SLookupConst,
}

#[derive(Clone, Copy, Debug, PartialEq, Eq, Hash)]
pub enum Fam {
    General,
    Empty,
    Assoc,
    OneBit,
    Small,
}

pub fn fam_of(op: Op) -> Fam {
    use Op::*;
    match op {
        GMulAdd | GRevSub | GSquare | GTuple | GRandAcc | GCallPlain => Fam::General,
        EMap => Fam::Empty,
        ALeft | ARight | AXor | AAnd | AOr | AAdd | AMul | AMat | AAffine | AAffineT => Fam::Assoc,
        BSame | BPair | BStack | BInt => Fam::OneBit,
        SXor | SMatShared | SMatRow | SRot | SPrefixAnd | SLookup | SLookupConst => Fam::Small,
    }
}

#[derive(Clone, Debug, Serialize, Deserialize, PartialEq, Eq, Hash)]
pub struct BodySpec {
    pub op: Op,
    /// scalar type selector (index into ST9; ignored by the bit-only operations)
    pub st: u8,
    /// batch shape (dims 1..=4, rank 0..=2)
    pub shape: Vec<u8>,
    /// small-state width K = 1 + k % 4; matrix size of AMat = 2 + k % 2
    pub k: u8,
    /// one-bit coefficient selectors / rotation amount / variants
    pub pa: u8,
    pub pb: u8,
    /// output kind: 0 empty tuple, 1 new state, 2 old state, 3 element, 4 (new state, element), 5 old + new, 6 sum over the new state
    pub out: u8,
    /// the body draws randomness (in its per-step output)
    pub rand: bool,
    /// add the further annotations whose contract the body also satisfies
    pub extra_ann: bool,
    pub cseed: u64,
    /// GCallPlain: which plain graph
    pub of: u16,
}

#[derive(Clone, Debug, Serialize, Deserialize, PartialEq, Eq, Hash)]
pub enum GSpec {
    Body(BodySpec),
    /// same signature/role/annotations as an earlier graph; computes Call(of, inputs)
    Wrap { of: u16 },
    /// callable graph (state, vector of `len` elements) -> Iterate(of, state, vector)
    IterIn { of: u16, len: u8 },
    /// iterate body (s, x) -> Iterate(of, s, repeat(x, m)) (an iteration inside an iteration)
    Nest { of: u16, m: u8 },
    /// (a, b: U64[2]) -> (a*b + a [+ Q(a*b+a, b).0 + Q(a, b).0], (fresh random leaves...)), Q = an earlier plain graph
    Plain { rand: bool, of: Option<u16> },
}

#[derive(Clone, Debug, Serialize, Deserialize, PartialEq, Eq, Hash)]
pub enum Use {
    /// vec_mode: 0 vector input, 1 array input -> ArrayToVector, 2 Repeat of one element
    Iter { g: u16, len: u8, chain: bool, vec_mode: u8 },
    Call { g: u16, twice: bool },
}

#[derive(Clone, Copy, Debug, Serialize, Deserialize, PartialEq, Eq, Hash)]
pub enum Md {
    Noop,
    Simple,
    DoDefault,
    DoExtreme,
}

#[derive(Clone, Debug, Serialize, Deserialize, PartialEq, Eq, Hash)]
pub struct Cfg {
    pub default: Md,
    pub call: Option<Md>,
    pub iter: Option<Md>,
}

#[derive(Clone, Debug, Serialize, Deserialize, PartialEq, Eq, Hash)]
pub struct Case {
    pub graphs: Vec<GSpec>,
    pub uses: Vec<Use>,
    pub cfg: Cfg,
    pub vseed: u64,
    /// value distribution: 0 uniform, 1 sparse, 2 dense, 3 small, 4 extremes
    pub dens: u8,
    pub eval_seed: [u8; 16],
}

pub const ST9: [ScalarType; 9] = [
    ScalarType::Bit,
    ScalarType::U8,
    ScalarType::I8,
    ScalarType::U16,
    ScalarType::I16,
    ScalarType::U32,
    ScalarType::I32,
    ScalarType::U64,
    ScalarType::I64,
];

fn md_to(m: Md) -> InlineMode {
    match m {
        Md::Noop => InlineMode::Noop,
        Md::Simple => InlineMode::Simple,
        Md::DoDefault => InlineMode::DepthOptimized(DepthOptimizationLevel::Default),
        Md::DoExtreme => InlineMode::DepthOptimized(DepthOptimizationLevel::Extreme),
    }
}
fn md_name(m: Md) -> &'static str {
    match m {
        Md::Noop => "noop",
        Md::Simple => "simple",
        Md::DoDefault => "do-default",
        Md::DoExtreme => "do-extreme",
    }
}
fn omd_name(m: Option<Md>) -> &'static str {
    match m {
        None => "-",
        Some(m) => md_name(m),
    }
}
impl Cfg {
    fn to_config(&self) -> InlineConfig {
        InlineConfig {
            default_mode: md_to(self.default),
            override_call_mode: self.call.map(md_to),
            override_iterate_mode: self.iter.map(md_to),
        }
    }
    fn call_mode(&self) -> Md {
        self.call.unwrap_or(self.default)
    }
    fn iter_mode(&self) -> Md {
        self.iter.unwrap_or(self.default)
    }
    fn name(&self) -> String {
        format!("{}/{}/{}", md_name(self.default), omd_name(self.call), omd_name(self.iter))
    }
    fn plain(m: Md) -> Cfg {
        Cfg { default: m, call: None, iter: None }
    }
}

// ---------------------------------------------------------------------------------------------
// comparison masks: which parts of an output are deterministic (compared with the reference),
// fresh randomness (must be pairwise distinct) or random-derived (not compared)

#[derive(Clone, Debug, PartialEq)]
pub enum M {
    Det,
    Fresh,
    Skip,
    Node(Vec<M>),
    Rep(Box<M>),
}

impl M {
    fn all_det(&self) -> bool {
        match self {
            M::Det => true,
            M::Fresh | M::Skip => false,
            M::Node(v) => v.iter().all(|m| m.all_det()),
            M::Rep(m) => m.all_det(),
        }
    }
    fn has_fresh(&self) -> bool {
        match self {
            M::Fresh => true,
            M::Det | M::Skip => false,
            M::Node(v) => v.iter().any(|m| m.has_fresh()),
            M::Rep(m) => m.has_fresh(),
        }
    }
    fn norm(self) -> M {
        if self.all_det() {
            M::Det
        } else {
            self
        }
    }
}

fn cmp_masked(want: &HVal, got: &HVal, m: &M, path: &mut Vec<usize>, fresh: &mut Vec<Vec<u128>>) -> Result<(), (Vec<usize>, String)> {
    match m {
        M::Det => {
            if want == got {
                Ok(())
            } else {
                // locate the first differing child for the message
                if let (HVal::V(a), HVal::V(b)) = (want, got) {
                    if a.len() == b.len() {
                        for i in 0..a.len() {
                            path.push(i);
                            cmp_masked(&a[i], &b[i], &M::Det, path, fresh)?;
                            path.pop();
                        }
                    }
                }
                Err((path.clone(), format!("want {} got {}", trunc(want), trunc(got))))
            }
        }
        M::Skip => Ok(()),
        M::Fresh => {
            fresh.push(flat_elems(got));
            Ok(())
        }
        M::Node(ms) => match (want, got) {
            (HVal::V(a), HVal::V(b)) if a.len() == ms.len() && b.len() == ms.len() => {
                for i in 0..ms.len() {
                    path.push(i);
                    cmp_masked(&a[i], &b[i], &ms[i], path, fresh)?;
                    path.pop();
                }
                Ok(())
            }
            _ => Err((path.clone(), "container arity differs from the output type".to_string())),
        },
        M::Rep(mm) => match (want, got) {
            (HVal::V(a), HVal::V(b)) if a.len() == b.len() => {
                for i in 0..a.len() {
                    path.push(i);
                    cmp_masked(&a[i], &b[i], mm, path, fresh)?;
                    path.pop();
                }
                Ok(())
            }
            _ => Err((path.clone(), "vector length differs".to_string())),
        },
    }
}

fn trunc(h: &HVal) -> String {
    let s = format!("{:?}", h);
    s.chars().take(240).collect()
}

// ---------------------------------------------------------------------------------------------
// interpreter

#[derive(Clone)]
pub struct BodyInfo {
    pub op: Op,
    pub fam: Fam,
    pub anns: Vec<GraphAnnotation>,
    pub state_t: Type,
    pub elem_t: Type,
    pub out_t: Type,
    pub state_mask: M,
    pub out_mask: M,
    pub k: u64,
    pub rank: usize,
    pub out_kind: u8,
    pub rand: bool,
    /// random accumulator body: final state = initial state + sum of the outputs
    pub acc: bool,
    /// inlined copies per step (cost estimate of the most expensive strategy)
    pub mult: u64,
    pub wrap_depth: u32,
    pub nested_iter: bool,
}

#[derive(Clone)]
struct Role {
    g: Graph,
    ins: Vec<Type>,
    out: Type,
    mask: M,
    body: Option<BodyInfo>,
    /// estimated number of nodes of one inlined copy
    weight: u64,
    plain_sig: bool,
    /// call nesting depth below (0 = no calls inside)
    depth: u32,
}

fn is_empty_tuple(t: &Type) -> bool {
    matches!(t, Type::Tuple(v) if v.is_empty())
}

fn u64x2() -> Type {
    array_type(vec![2], UINT64)
}

fn leaf(st: ScalarType, shape: &[u64]) -> Type {
    if shape.is_empty() {
        scalar_type(st)
    } else {
        array_type(shape.to_vec(), st)
    }
}

fn gen_elem(rng: &mut u64, st: ScalarType, dens: u8) -> u128 {
    let r = ((gg::splitmix(rng) as u128) << 64) | gg::splitmix(rng) as u128;
    let sel = gg::splitmix(rng);
    let m = mask(st);
    let b = bits(st);
    if b == 1 {
        return match dens % 5 {
            0 => r & 1,
            1 => (sel % 8 == 0) as u128,
            2 => (sel % 8 != 0) as u128,
            3 => (sel % 3 == 0) as u128,
            _ => 1,
        };
    }
    match dens % 5 {
        0 => r & m,
        1 => {
            if sel % 4 == 0 {
                r & m
            } else {
                0
            }
        }
        2 => {
            if sel % 4 == 0 {
                r & m
            } else {
                [1u128, m][(sel as usize >> 3) % 2]
            }
        }
        3 => (r % 4) & m,
        _ => match sel % 6 {
            0 => 0,
            1 => 1,
            2 => m,
            3 => 1u128 << (b - 1),
            4 => (1u128 << (b - 1)) - 1,
            _ => r & m,
        },
    }
}

fn gen_hval(t: &Type, rng: &mut u64, dens: u8) -> HVal {
    if is_leaf(t) {
        let st = leaf_st(t);
        HVal::A((0..type_elems(t)).map(|_| gen_elem(rng, st, dens)).collect())
    } else {
        HVal::V(children_types(t).iter().map(|ct| gen_hval(ct, rng, dens)).collect())
    }
}

fn konst(g: &Graph, t: &Type, rng: &mut u64) -> Option<Node> {
    let st = leaf_st(t);
    let xs: Vec<u128> = (0..type_elems(t)).map(|_| gen_elem(rng, st, 0)).collect();
    g.constant(t.clone(), Value::from_bytes(encode_leaf(&xs, st))).ok()
}

struct Interp {
    ctx: Context,
    roles: Vec<Role>,
    skipped_specs: usize,
    /// every Iterate node created anywhere: (body info, length)
    iters: Vec<(BodyInfo, u64)>,
    labels: Vec<String>,
}

fn shape_of_spec(s: &BodySpec, max_rank: usize) -> Vec<u64> {
    let mut v: Vec<u64> = s.shape.iter().take(max_rank).map(|d| 1 + (*d as u64) % 4).collect();
    while v.iter().product::<u64>() > 8 {
        let (i, _) = v.iter().enumerate().max_by_key(|(_, d)| **d).unwrap();
        v[i] = (v[i] / 2).max(1);
    }
    v
}

/// one-hot encoding of the rows of a BIT array s of shape (..., K): result shape (..., 2^K),
/// position m is 1 iff the row equals the bits of m (bit j of m <-> column j)
fn one_hot_rows(g: &Graph, s: &Node, k: u64) -> Option<Node> {
    let mut cols = vec![];
    let mut ncols = vec![];
    let one = g.ones(scalar_type(BIT)).ok()?;
    for j in 0..k {
        let c = s.get_slice(vec![SliceElement::Ellipsis, SliceElement::SingleIndex(j as i64)]).ok()?;
        ncols.push(c.add(one.clone()).ok()?);
        cols.push(c);
    }
    let mut es = vec![];
    for m in 0..(1u64 << k) {
        let mut e: Option<Node> = None;
        for j in 0..k {
            let term = if (m >> j) & 1 == 1 { cols[j as usize].clone() } else { ncols[j as usize].clone() };
            e = Some(match e {
                None => term,
                Some(p) => p.multiply(term).ok()?,
            });
        }
        es.push(e?);
    }
    let et = es[0].get_type().ok()?;
    let arr = g.create_vector(et, es).ok()?.vector_to_array().ok()?; // (2^K, ...)
    let rank = arr.get_type().ok()?.get_shape().len();
    if rank == 1 {
        return Some(arr);
    }
    let mut perm: Vec<u64> = (0..rank as u64).collect();
    perm.rotate_left(1);
    arr.permute_axes(perm).ok()
}

/// columns of a (..., K) array stacked back into a (..., K) array
fn stack_cols(g: &Graph, cols: Vec<Node>) -> Option<Node> {
    let et = cols[0].get_type().ok()?;
    let arr = g.create_vector(et, cols).ok()?.vector_to_array().ok()?; // (K, ...)
    let rank = arr.get_type().ok()?.get_shape().len();
    if rank == 1 {
        return Some(arr);
    }
    let mut perm: Vec<u64> = (0..rank as u64).collect();
    perm.rotate_left(1);
    arr.permute_axes(perm).ok()
}

impl Interp {
    fn pick_role<F: Fn(&Role) -> bool>(&self, sel: u16, pred: F) -> Option<usize> {
        let c: Vec<usize> = (0..self.roles.len()).filter(|i| pred(&self.roles[*i])).collect();
        if c.is_empty() {
            None
        } else {
            Some(c[c.len() - 1 - pick(sel, c.len())])
        }
    }

    fn build_body(&mut self, s: &BodySpec) -> Option<Role> {
        use Op::*;
        let g = self.ctx.create_graph().ok()?;
        let mut rng = s.cseed ^ 0xC07C_07C0_7C07;
        let fam = fam_of(s.op);
        let st_any = ST9[(s.st % 9) as usize];
        let st_int = ST9[1 + (s.st % 8) as usize];
        let k = 1 + (s.k % 4) as u64;
        // state / element types
        let (state_t, elem_t): (Type, Type) = match s.op {
            GMulAdd | GRevSub | GSquare => {
                let t = leaf(st_any, &shape_of_spec(s, 2));
                (t.clone(), t)
            }
            GTuple => {
                let t = leaf(st_int, &shape_of_spec(s, 1));
                (tuple_type(vec![t.clone(), t.clone()]), t)
            }
            GRandAcc | GCallPlain => (u64x2(), u64x2()),
            EMap => (tuple_type(vec![]), leaf(st_any, &shape_of_spec(s, 2))),
            ALeft | ARight | AAdd | AMul => {
                let t = leaf(st_any, &shape_of_spec(s, 2));
                (t.clone(), t)
            }
            AXor | AAnd | AOr => {
                let t = leaf(BIT, &shape_of_spec(s, 2));
                (t.clone(), t)
            }
            AMat => {
                let n = 2 + (s.k % 2) as u64;
                let mut sh = shape_of_spec(s, 1);
                if s.pa % 3 == 0 {
                    sh.clear();
                }
                sh.push(n);
                sh.push(n);
                let t = array_type(sh, st_any);
                (t.clone(), t)
            }
            AAffine => {
                let mut sh = vec![2u64];
                sh.extend(shape_of_spec(s, 1));
                let t = array_type(sh, st_any);
                (t.clone(), t)
            }
            AAffineT => {
                let t = leaf(st_any, &shape_of_spec(s, 1));
                let tt = tuple_type(vec![t.clone(), t]);
                (tt.clone(), tt)
            }
            BSame | BPair | BStack | BInt => {
                let mut sh = shape_of_spec(s, 2);
                if s.k % 5 == 4 && !sh.is_empty() {
                    sh.push(1); // the optional trailing dimension of size 1
                }
                let t = leaf(BIT, &sh);
                let e = match s.op {
                    BSame => t.clone(),
                    BPair => tuple_type(vec![t.clone(), t.clone()]),
                    BStack => {
                        let mut sh2 = vec![2u64];
                        sh2.extend(sh.clone());
                        array_type(sh2, BIT)
                    }
                    _ => scalar_type(UINT8),
                };
                (t, e)
            }
            SXor | SRot | SPrefixAnd | SLookupConst => {
                let mut sh = shape_of_spec(s, 2);
                sh.push(k);
                let t = array_type(sh, BIT);
                let e = if s.op == SXor && s.pa & 1 == 1 { array_type(vec![k], BIT) } else { t.clone() };
                (t, e)
            }
            SMatShared => {
                let mut sh = shape_of_spec(s, 2);
                sh.push(k);
                (array_type(sh, BIT), array_type(vec![k, k], BIT))
            }
            SMatRow => {
                let b = shape_of_spec(s, 2);
                let mut sh = b.clone();
                sh.push(k);
                let mut se = b;
                se.push(k);
                se.push(k);
                (array_type(sh, BIT), array_type(se, BIT))
            }
            SLookup => {
                let mut sh = shape_of_spec(s, 2);
                sh.push(k);
                (array_type(sh, BIT), array_type(vec![1 << k, k], BIT))
            }
        };
        let sn = g.input(state_t.clone()).ok()?;
        let xn = g.input(elem_t.clone()).ok()?;
        let mut extra_fresh: Option<(Node, M)> = None;
        let mut depth = 0u32;
        let mut weight_extra = 0u64;
        let mut state_mask = M::Det;
        let mut acc = false;
        // new state
        let s2: Node = match s.op {
            GMulAdd => sn.multiply(xn.clone()).ok()?.add(konst(&g, &state_t, &mut rng)?).ok()?,
            GRevSub => xn.subtract(sn.clone()).ok()?,
            GSquare => sn.multiply(sn.clone()).ok()?.add(xn.clone()).ok()?,
            GTuple => {
                let cnt = sn.tuple_get(0).ok()?;
                let accu = sn.tuple_get(1).ok()?;
                let c2 = cnt.add(konst(&g, &elem_t, &mut rng)?).ok()?;
                let a2 = accu.multiply(xn.clone()).ok()?.add(cnt).ok()?;
                g.create_tuple(vec![c2, a2]).ok()?
            }
            GRandAcc => {
                let r = g.random(u64x2()).ok()?;
                extra_fresh = Some((r.clone(), M::Fresh));
                state_mask = M::Skip;
                acc = true;
                sn.add(r).ok()?
            }
            GCallPlain => {
                let pi = self.pick_role(s.of, |r| r.plain_sig)?;
                let p = self.roles[pi].clone();
                let r = g.call(p.g.clone(), vec![sn.clone(), xn.clone()]).ok()?;
                depth = p.depth + 1;
                weight_extra = p.weight;
                if let M::Node(ms) = &p.mask {
                    if !ms[1].all_det() {
                        extra_fresh = Some((r.tuple_get(1).ok()?, ms[1].clone()));
                    }
                }
                r.tuple_get(0).ok()?
            }
            EMap => {
                if s.pa & 1 == 1 {
                    g.create_tuple(vec![]).ok()?
                } else {
                    sn.clone()
                }
            }
            ALeft => sn.clone(),
            ARight => xn.clone(),
            AXor | AAdd => sn.add(xn.clone()).ok()?,
            AAnd | AMul => sn.multiply(xn.clone()).ok()?,
            AOr => sn.add(xn.clone()).ok()?.add(sn.multiply(xn.clone()).ok()?).ok()?,
            AMat => sn.matmul(xn.clone()).ok()?,
            AAffine => {
                let (a, b) = (sn.get(vec![0]).ok()?, sn.get(vec![1]).ok()?);
                let (c, d) = (xn.get(vec![0]).ok()?, xn.get(vec![1]).ok()?);
                let ac = a.multiply(c.clone()).ok()?;
                let bcd = b.multiply(c).ok()?.add(d).ok()?;
                g.stack(vec![ac, bcd], vec![2]).ok()?
            }
            AAffineT => {
                let (a, b) = (sn.tuple_get(0).ok()?, sn.tuple_get(1).ok()?);
                let (c, d) = (xn.tuple_get(0).ok()?, xn.tuple_get(1).ok()?);
                let ac = a.multiply(c.clone()).ok()?;
                let bcd = b.multiply(c).ok()?.add(d).ok()?;
                g.create_tuple(vec![ac, bcd]).ok()?
            }
            BSame | BPair | BStack | BInt => {
                let (xa, xb, pa, pb) = match s.op {
                    BSame => (xn.clone(), xn.clone(), s.pa, s.pb),
                    BPair => (xn.tuple_get(0).ok()?, xn.tuple_get(1).ok()?, s.pa | 1, s.pb | 1),
                    BStack => (xn.get(vec![0]).ok()?, xn.get(vec![1]).ok()?, s.pa | 1, s.pb | 1),
                    _ => {
                        let bitsn = xn.a2b().ok()?;
                        (
                            bitsn.get(vec![(s.pa % 8) as u64]).ok()?,
                            bitsn.get(vec![(s.pb % 8) as u64]).ok()?,
                            (s.pa >> 3) | 1,
                            s.pb >> 3,
                        )
                    }
                };
                let mut lin = |v: Node, p: u8| -> Option<Node> {
                    let mut terms = vec![];
                    if p & 1 == 1 {
                        terms.push(v);
                    }
                    if p & 2 == 2 {
                        terms.push(g.ones(state_t.clone()).ok()?);
                    }
                    if p & 4 == 4 {
                        terms.push(konst(&g, &state_t, &mut rng)?);
                    }
                    if terms.is_empty() {
                        return g.zeros(state_t.clone()).ok();
                    }
                    let mut it = terms.into_iter();
                    let mut accn = it.next().unwrap();
                    for t in it {
                        accn = accn.add(t).ok()?;
                    }
                    Some(accn)
                };
                let a = lin(xa, pa)?;
                let b = lin(xb, pb)?;
                // zeros(state) + ... keeps the state shape when a and b are scalars
                a.multiply(sn.clone()).ok()?.add(b).ok()?
            }
            SXor => sn.add(xn.clone()).ok()?,
            SMatShared => {
                let m = sn.matmul(xn.clone()).ok()?;
                if s.pb & 1 == 1 {
                    m.add(konst(&g, &state_t, &mut rng)?).ok()?
                } else {
                    m
                }
            }
            SMatRow => {
                let sh = state_t.get_shape();
                let mut sh3 = sh[..sh.len() - 1].to_vec();
                sh3.push(1);
                sh3.push(k);
                let s3 = sn.reshape(array_type(sh3, BIT)).ok()?;
                s3.matmul(xn.clone()).ok()?.reshape(state_t.clone()).ok()?
            }
            SRot => {
                let r = if k == 1 { 0 } else { 1 + (s.pa as u64) % (k - 1) };
                let rot = if r == 0 {
                    sn.clone()
                } else {
                    let hi = sn.get_slice(vec![SliceElement::Ellipsis, SliceElement::SubArray(Some(r as i64), None, None)]).ok()?;
                    let lo = sn.get_slice(vec![SliceElement::Ellipsis, SliceElement::SubArray(None, Some(r as i64), None)]).ok()?;
                    let axis = state_t.get_shape().len() as u64 - 1;
                    g.concatenate(vec![hi, lo], axis).ok()?
                };
                rot.add(xn.clone()).ok()?
            }
            SPrefixAnd => {
                let t = sn.add(xn.clone()).ok()?;
                let mut cols = vec![];
                for j in 0..k {
                    cols.push(t.get_slice(vec![SliceElement::Ellipsis, SliceElement::SingleIndex(j as i64)]).ok()?);
                }
                for j in 1..k as usize {
                    cols[j] = cols[j].multiply(cols[j - 1].clone()).ok()?;
                }
                stack_cols(&g, cols)?
            }
            SLookup => one_hot_rows(&g, &sn, k)?.matmul(xn.clone()).ok()?,
            SLookupConst => {
                let t = sn.add(xn.clone()).ok()?;
                let table = konst(&g, &array_type(vec![1 << k, k], BIT), &mut rng)?;
                one_hot_rows(&g, &t, k)?.matmul(table).ok()?
            }
        };
        // the state must keep its type (generator self-check)
        if s2.get_type().ok()? != state_t {
            return None;
        }
        // deterministic per-step output
        let leaf_state = is_leaf(&state_t);
        let out_kind = if s.op == GRandAcc { 0 } else { s.out % 7 };
        let det_out: Node = if s.op == EMap {
            if out_kind == 0 {
                g.create_tuple(vec![]).ok()?
            } else {
                xn.multiply(xn.clone()).ok()?.add(konst(&g, &elem_t, &mut rng)?).ok()?
            }
        } else {
            match out_kind {
                0 => g.create_tuple(vec![]).ok()?,
                1 => s2.clone(),
                2 => sn.clone(),
                3 => xn.clone(),
                4 => g.create_tuple(vec![s2.clone(), xn.clone()]).ok()?,
                5 => {
                    if leaf_state {
                        sn.add(s2.clone()).ok()?
                    } else {
                        g.create_tuple(vec![sn.clone(), s2.clone()]).ok()?
                    }
                }
                _ => {
                    if state_t.is_array() {
                        let axes: Vec<u64> = (0..state_t.get_shape().len() as u64).collect();
                        s2.sum(axes).ok()?
                    } else {
                        s2.clone()
                    }
                }
            }
        };
        let mut parts: Vec<(Node, M)> = vec![];
        if let Some(p) = extra_fresh {
            parts.push(p);
        }
        if s.rand && s.op != GRandAcc {
            parts.push((g.random(u64x2()).ok()?, M::Fresh));
        }
        let (out, out_mask) = if s.op == GRandAcc {
            parts.remove(0)
        } else if parts.is_empty() {
            (det_out, M::Det)
        } else {
            let mut ns = vec![det_out];
            let mut ms = vec![M::Det];
            for (n, m) in parts {
                ns.push(n);
                ms.push(m);
            }
            (g.create_tuple(ns).ok()?, M::Node(ms))
        };
        let out_t = out.get_type().ok()?;
        let o = g.create_tuple(vec![s2, out]).ok()?;
        g.set_output_node(o.clone()).ok()?;
        // annotations
        let mut anns = vec![];
        let small_ok = |t: &Type| t.is_array() && leaf_st(t) == BIT && *t.get_shape().last().unwrap() <= 4;
        match fam {
            Fam::Assoc => {
                anns.push(GraphAnnotation::AssociativeOperation);
                if s.extra_ann && matches!(s.op, AXor | AAnd | AOr) {
                    anns.push(GraphAnnotation::OneBitState);
                    if small_ok(&state_t) {
                        anns.push(GraphAnnotation::SmallState);
                    }
                }
            }
            Fam::OneBit => {
                anns.push(GraphAnnotation::OneBitState);
                if s.extra_ann && small_ok(&state_t) {
                    anns.push(GraphAnnotation::SmallState);
                }
            }
            Fam::Small => anns.push(GraphAnnotation::SmallState),
            _ => {}
        }
        if s.pb & 64 != 0 {
            anns.reverse();
        }
        for a in &anns {
            g.add_annotation(a.clone()).ok()?;
        }
        g.finalize().ok()?;
        let n_nodes = g.get_nodes().len() as u64 + weight_extra;
        let mult = match fam {
            Fam::Small => (1u64 << k) + 3,
            Fam::OneBit => 4,
            Fam::Assoc => 7,
            _ => 1,
        };
        let rank = if is_leaf(&state_t) { leaf_shape(&state_t).len() } else { 0 };
        let info = BodyInfo {
            op: s.op,
            fam,
            anns,
            state_t: state_t.clone(),
            elem_t: elem_t.clone(),
            out_t,
            state_mask: state_mask.clone(),
            out_mask: out_mask.clone(),
            k,
            rank,
            out_kind,
            rand: s.rand || s.op == GRandAcc,
            acc,
            mult,
            wrap_depth: 0,
            nested_iter: false,
        };
        Some(Role {
            g,
            ins: vec![state_t, elem_t],
            out: o.get_type().ok()?,
            mask: M::Node(vec![state_mask, out_mask]).norm(),
            body: Some(info),
            weight: n_nodes,
            plain_sig: false,
            depth,
        })
    }

    fn build_spec(&mut self, spec: &GSpec) -> Option<Role> {
        match spec {
            GSpec::Body(b) => self.build_body(b),
            GSpec::Wrap { of } => {
                let ti = self.pick_role(*of, |_| true)?;
                let t = self.roles[ti].clone();
                let g = self.ctx.create_graph().ok()?;
                let mut ins = vec![];
                for it in &t.ins {
                    ins.push(g.input(it.clone()).ok()?);
                }
                let r = g.call(t.g.clone(), ins).ok()?;
                g.set_output_node(r).ok()?;
                let mut body = t.body.clone();
                if let Some(b) = body.as_mut() {
                    for a in &b.anns {
                        g.add_annotation(a.clone()).ok()?;
                    }
                    b.wrap_depth += 1;
                }
                g.finalize().ok()?;
                Some(Role { g, ins: t.ins.clone(), out: t.out.clone(), mask: t.mask.clone(), body, weight: t.weight + 3, plain_sig: t.plain_sig, depth: t.depth + 1 })
            }
            GSpec::IterIn { of, len } => {
                let ti = self.pick_role(*of, |r| r.body.is_some())?;
                let t = self.roles[ti].clone();
                let b = t.body.clone().unwrap();
                let len = clamp_len(*len as u64 % 41, &t, 6000);
                let g = self.ctx.create_graph().ok()?;
                let s0 = g.input(b.state_t.clone()).ok()?;
                let vt = vector_type(len, b.elem_t.clone());
                let v = g.input(vt.clone()).ok()?;
                let r = g.iterate(t.g.clone(), s0, v).ok()?;
                g.set_output_node(r.clone()).ok()?;
                g.finalize().ok()?;
                self.iters.push((b.clone(), len));
                Some(Role {
                    g,
                    ins: vec![b.state_t.clone(), vt],
                    out: r.get_type().ok()?,
                    mask: M::Node(vec![b.state_mask.clone(), M::Rep(Box::new(b.out_mask.clone()))]).norm(),
                    body: None,
                    weight: 3 + len * step_cost(&t),
                    plain_sig: false,
                    depth: t.depth + 1,
                })
            }
            GSpec::Nest { of, m } => {
                let ti = self.pick_role(*of, |r| r.body.is_some())?;
                let t = self.roles[ti].clone();
                let b = t.body.clone().unwrap();
                let m = 1 + (*m as u64) % 3;
                let g = self.ctx.create_graph().ok()?;
                let s0 = g.input(b.state_t.clone()).ok()?;
                let x = g.input(b.elem_t.clone()).ok()?;
                let v = g.repeat(x, m).ok()?;
                let r = g.iterate(t.g.clone(), s0, v).ok()?;
                g.set_output_node(r.clone()).ok()?;
                g.finalize().ok()?;
                self.iters.push((b.clone(), m));
                let out_t = vector_type(m, b.out_t.clone());
                let out_mask = M::Rep(Box::new(b.out_mask.clone())).norm();
                let fam = if is_empty_tuple(&b.state_t) { Fam::Empty } else { Fam::General };
                let info = BodyInfo {
                    op: b.op,
                    fam,
                    anns: vec![],
                    state_t: b.state_t.clone(),
                    elem_t: b.elem_t.clone(),
                    out_t,
                    state_mask: b.state_mask.clone(),
                    out_mask: out_mask.clone(),
                    k: b.k,
                    rank: b.rank,
                    out_kind: b.out_kind,
                    rand: b.rand,
                    acc: false,
                    mult: 1,
                    wrap_depth: b.wrap_depth,
                    nested_iter: true,
                };
                Some(Role {
                    g,
                    ins: vec![b.state_t.clone(), b.elem_t.clone()],
                    out: r.get_type().ok()?,
                    mask: M::Node(vec![b.state_mask.clone(), out_mask]).norm(),
                    body: Some(info),
                    weight: 3 + m * step_cost(&t),
                    plain_sig: false,
                    depth: t.depth + 1,
                })
            }
            GSpec::Plain { rand, of } => {
                let q = match of {
                    Some(sel) => self.pick_role(*sel, |r| r.plain_sig).map(|i| self.roles[i].clone()),
                    None => None,
                };
                let g = self.ctx.create_graph().ok()?;
                let a = g.input(u64x2()).ok()?;
                let b = g.input(u64x2()).ok()?;
                let ab = a.multiply(b.clone()).ok()?.add(a.clone()).ok()?;
                let mut det = ab.clone();
                let mut fresh_nodes = vec![];
                let mut fresh_masks = vec![];
                let mut weight = 8;
                let mut depth = 0;
                if *rand {
                    fresh_nodes.push(g.random(u64x2()).ok()?);
                    fresh_masks.push(M::Fresh);
                }
                if let Some(q) = &q {
                    // the same graph called from two places
                    let q1 = g.call(q.g.clone(), vec![ab, b.clone()]).ok()?;
                    let q2 = g.call(q.g.clone(), vec![a.clone(), b]).ok()?;
                    det = det.add(q1.tuple_get(0).ok()?).ok()?.add(q2.tuple_get(0).ok()?).ok()?;
                    if let M::Node(ms) = &q.mask {
                        if !ms[1].all_det() {
                            fresh_nodes.push(q1.tuple_get(1).ok()?);
                            fresh_masks.push(ms[1].clone());
                            fresh_nodes.push(q2.tuple_get(1).ok()?);
                            fresh_masks.push(ms[1].clone());
                        }
                    }
                    weight += 2 * q.weight;
                    depth = q.depth + 1;
                }
                let fl = g.create_tuple(fresh_nodes).ok()?;
                let o = g.create_tuple(vec![det, fl]).ok()?;
                g.set_output_node(o.clone()).ok()?;
                g.finalize().ok()?;
                Some(Role {
                    g,
                    ins: vec![u64x2(), u64x2()],
                    out: o.get_type().ok()?,
                    mask: M::Node(vec![M::Det, M::Node(fresh_masks).norm()]),
                    body: None,
                    weight,
                    plain_sig: true,
                    depth,
                })
            }
        }
    }
}

/// lengths are clamped so that one inlined use stays below `cap` nodes (cost bound, stated in evidence)
fn step_cost(r: &Role) -> u64 {
    let b = r.body.as_ref().unwrap();
    match b.fam {
        Fam::Small if !b.nested_iter => (1 << b.k) * r.weight + (1 << (2 * b.k)) * (2 * b.k + 2) + 20,
        Fam::OneBit if !b.nested_iter => 2 * r.weight + 12,
        Fam::Assoc if !b.nested_iter => 7 * r.weight,
        _ => r.weight,
    }
}

fn clamp_len(len: u64, r: &Role, cap: u64) -> u64 {
    let per_step = step_cost(r).max(1);
    if len * per_step > cap {
        (cap / per_step).max(1).min(len)
    } else {
        len
    }
}

pub struct AccCheck {
    /// position of the use in the main output tuple
    pub pos: usize,
    pub s0_input: usize,
}

pub struct IterUse {
    pub pos: usize,
    pub body: BodyInfo,
    pub len: u64,
    pub requested_len: u64,
}

pub struct BuiltCtx {
    pub ctx: Context,
    pub main: Graph,
    pub in_types: Vec<Type>,
    pub out_t: Type,
    pub mask: M,
    /// every Iterate node in the context (body info, length)
    pub iters: Vec<(BodyInfo, u64)>,
    pub main_iters: Vec<IterUse>,
    /// per main output position: description for messages/signatures
    pub use_desc: Vec<String>,
    pub accs: Vec<AccCheck>,
    pub assoc_bodies: Vec<(Graph, BodyInfo)>,
    pub max_depth: u32,
    pub n_graphs: usize,
    pub skipped_specs: usize,
    pub n_calls_main: usize,
    pub labels: Vec<String>,
}

pub fn build_ctx(c: &Case, node_cap: u64) -> Option<BuiltCtx> {
    let ctx = create_context().ok()?;
    let mut ip = Interp { ctx: ctx.clone(), roles: vec![], skipped_specs: 0, iters: vec![], labels: vec![] };
    for spec in &c.graphs {
        match ip.build_spec(spec) {
            Some(r) => ip.roles.push(r),
            None => {
                ip.skipped_specs += 1;
                let what = match spec {
                    GSpec::Body(b) => format!("{:?}", b.op),
                    GSpec::Wrap { .. } => "Wrap".to_string(),
                    GSpec::IterIn { .. } => "IterIn".to_string(),
                    GSpec::Nest { .. } => "Nest".to_string(),
                    GSpec::Plain { .. } => "Plain".to_string(),
                };
                ip.labels.push(format!("spec-not-built:{}", what));
            }
        }
    }
    if ip.roles.is_empty() {
        return None;
    }
    let g = ctx.create_graph().ok()?;
    let mut in_types: Vec<Type> = vec![];
    let mut results: Vec<Node> = vec![];
    let mut masks: Vec<M> = vec![];
    let mut use_desc: Vec<String> = vec![];
    let mut main_iters: Vec<IterUse> = vec![];
    let mut accs = vec![];
    let mut prev_states: Vec<(Type, Node)> = vec![];
    let mut max_depth = 0u32;
    let mut n_calls_main = 0usize;
    let mut labels = vec![];
    for u in &c.uses {
        match u {
            Use::Iter { g: sel, len, chain, vec_mode } => {
                let ri = match ip.pick_role(*sel, |r| r.body.is_some()) {
                    Some(i) => i,
                    None => continue,
                };
                let r = ip.roles[ri].clone();
                let b = r.body.clone().unwrap();
                let requested = *len as u64 % 41;
                let len = clamp_len(requested, &r, node_cap);
                if len != requested {
                    labels.push("len-clamped".to_string());
                }
                // initial state
                let mut s0_input = None;
                let s0 = match (chain, prev_states.iter().rev().find(|(t, _)| *t == b.state_t)) {
                    (true, Some((_, n))) => {
                        labels.push("chained-state".to_string());
                        n.clone()
                    }
                    _ => {
                        let n = g.input(b.state_t.clone()).ok()?;
                        s0_input = Some(in_types.len());
                        in_types.push(b.state_t.clone());
                        n
                    }
                };
                // input vector
                let vm = vec_mode % 3;
                let v = if vm == 1 && len > 0 && b.elem_t.is_array() {
                    let mut sh = vec![len];
                    sh.extend(b.elem_t.get_shape());
                    let at = array_type(sh, leaf_st(&b.elem_t));
                    let a = g.input(at.clone()).ok()?;
                    in_types.push(at);
                    labels.push("vec:array-to-vector".to_string());
                    a.array_to_vector().ok()?
                } else if vm == 2 && len > 0 {
                    let e = g.input(b.elem_t.clone()).ok()?;
                    in_types.push(b.elem_t.clone());
                    labels.push("vec:repeat".to_string());
                    g.repeat(e, len).ok()?
                } else {
                    let vt = vector_type(len, b.elem_t.clone());
                    let n = g.input(vt.clone()).ok()?;
                    in_types.push(vt);
                    labels.push("vec:input".to_string());
                    n
                };
                let it = g.iterate(r.g.clone(), s0, v).ok()?;
                ip.iters.push((b.clone(), len));
                if b.state_mask.all_det() {
                    prev_states.push((b.state_t.clone(), it.tuple_get(0).ok()?));
                }
                if b.acc {
                    if let Some(i) = s0_input {
                        if b.out_mask == M::Fresh {
                            accs.push(AccCheck { pos: results.len(), s0_input: i });
                        }
                    }
                }
                use_desc.push(format!("iterate:{:?}", b.op));
                main_iters.push(IterUse { pos: results.len(), body: b.clone(), len, requested_len: requested });
                masks.push(M::Node(vec![b.state_mask.clone(), M::Rep(Box::new(b.out_mask.clone()))]).norm());
                results.push(it);
                max_depth = max_depth.max(r.depth + 1);
            }
            Use::Call { g: sel, twice } => {
                let ri = match ip.pick_role(*sel, |_| true) {
                    Some(i) => i,
                    None => continue,
                };
                let r = ip.roles[ri].clone();
                let mut args = vec![];
                for t in &r.ins {
                    args.push(g.input(t.clone()).ok()?);
                    in_types.push(t.clone());
                }
                let reps = if *twice { 2 } else { 1 };
                for _ in 0..reps {
                    let cn = g.call(r.g.clone(), args.clone()).ok()?;
                    use_desc.push("call".to_string());
                    masks.push(r.mask.clone());
                    results.push(cn);
                    n_calls_main += 1;
                }
                max_depth = max_depth.max(r.depth + 1);
            }
        }
    }
    if results.is_empty() {
        return None;
    }
    let o = g.create_tuple(results).ok()?;
    g.set_output_node(o.clone()).ok()?;
    g.finalize().ok()?;
    ctx.set_main_graph(g.clone()).ok()?;
    ctx.finalize().ok()?;
    let assoc_bodies: Vec<(Graph, BodyInfo)> = ip
        .roles
        .iter()
        .filter_map(|r| match &r.body {
            Some(b) if b.anns.contains(&GraphAnnotation::AssociativeOperation) => Some((r.g.clone(), b.clone())),
            _ => None,
        })
        .collect();
    labels.extend(ip.labels.clone());
    Some(BuiltCtx {
        ctx: ctx.clone(),
        main: g,
        in_types,
        out_t: o.get_type().ok()?,
        mask: M::Node(masks).norm(),
        iters: ip.iters,
        main_iters,
        use_desc,
        accs,
        assoc_bodies,
        max_depth,
        n_graphs: ctx.get_graphs().len(),
        skipped_specs: ip.skipped_specs,
        n_calls_main,
        labels,
    })
}

// ---------------------------------------------------------------------------------------------
// strategy prediction (labels / non-triviality only; never used to decide pass/fail)

pub fn strategy(b: &BodyInfo, mode: Md, len: u64) -> (&'static str, &'static str) {
    let level = match mode {
        Md::Noop => return ("noop", "-"),
        Md::Simple => return ("simple", "-"),
        Md::DoDefault => 0,
        Md::DoExtreme => 1,
    };
    let alg = |empty_out: bool| -> &'static str {
        if len == 0 {
            "len0"
        } else if empty_out {
            "logsum"
        } else if level == 1 {
            "ascent"
        } else if len < 16 {
            "sqrt"
        } else {
            "segtree"
        }
    };
    let empty_out = is_empty_tuple(&b.out_t);
    if is_empty_tuple(&b.state_t) {
        ("empty", "-")
    } else if b.anns.contains(&GraphAnnotation::AssociativeOperation) {
        ("assoc", alg(empty_out))
    } else if b.anns.contains(&GraphAnnotation::OneBitState) {
        ("onebit", alg(empty_out))
    } else if b.anns.contains(&GraphAnnotation::SmallState) {
        ("small", alg(empty_out))
    } else {
        ("simple-fallback", "-")
    }
}

fn len_bucket(n: u64) -> String {
    match n {
        0 | 1 | 2 | 15 | 16 | 17 | 31 | 32 | 33 => n.to_string(),
        3..=14 => "3-14".to_string(),
        18..=30 => "18-30".to_string(),
        _ => "34-40".to_string(),
    }
}

fn fam_name(b: &BodyInfo) -> &'static str {
    if is_empty_tuple(&b.state_t) {
        return "empty";
    }
    match b.fam {
        Fam::General => "general",
        Fam::Empty => "empty",
        Fam::Assoc => "assoc",
        Fam::OneBit => "onebit",
        Fam::Small => "small",
    }
}

// ---------------------------------------------------------------------------------------------
// oracle

fn eval_main(ctx: &Context, inputs: Vec<Value>, seed: [u8; 16]) -> Result<Result<Value, String>, String> {
    crate::util::catch(|| {
        let mut ev = SimpleEvaluator::new(Some(seed)).map_err(|e| e.to_string())?;
        ev.preprocess(ctx).map_err(|e| e.to_string())?;
        ev.evaluate_graph(ctx.get_main_graph().map_err(|e| e.to_string())?, inputs).map_err(|e| e.to_string())
    })
}

fn eval_graph(g: &Graph, inputs: Vec<Value>, seed: [u8; 16]) -> Option<Value> {
    crate::util::catch(|| {
        let mut ev = SimpleEvaluator::new(Some(seed)).ok()?;
        ev.preprocess(&g.get_context()).ok()?;
        ev.evaluate_graph(g.clone(), inputs).ok()
    })
    .ok()
    .flatten()
}

fn inconclusive(msg: String) -> ! {
    println!("INCONCLUSIVE: C07 generator self-check failed: {}", msg);
    std::process::exit(2);
}

fn all_distinct(fresh: &[Vec<u128>]) -> bool {
    let mut s = std::collections::HashSet::new();
    fresh.iter().all(|f| s.insert(f.clone()))
}

fn check_acc(b: &BuiltCtx, got: &HVal, in_vals: &[HVal]) -> Result<(), String> {
    for a in &b.accs {
        let u = match got {
            HVal::V(us) => &us[a.pos],
            _ => return Err("main output is not a tuple".to_string()),
        };
        if let HVal::V(parts) = u {
            let st = flat_elems(&parts[0]);
            let mut sum = flat_elems(&in_vals[a.s0_input]);
            if let HVal::V(outs) = &parts[1] {
                for o in outs {
                    let r = flat_elems(o);
                    for i in 0..sum.len() {
                        sum[i] = sum[i].wrapping_add(r[i]) & mask(UINT64);
                    }
                }
            }
            if st != sum {
                return Err(format!("use {}: final state {:?} != initial state + sum of the per-step random outputs {:?}", a.pos, st, sum));
            }
        }
    }
    Ok(())
}

pub const NODE_CAP: u64 = 60_000;
pub const SWEEP_NODE_CAP: u64 = 250_000;

/// cost bound per Iterate use (estimated inlined nodes); VH_C07_NODE_CAP overrides it for experiments
pub fn node_cap() -> u64 {
    std::env::var("VH_C07_NODE_CAP").ok().and_then(|s| s.parse().ok()).unwrap_or(NODE_CAP)
}

pub fn cfgs_of(c: &Case) -> Vec<Cfg> {
    let mut v = vec![c.cfg.clone()];
    for m in [Md::DoDefault, Md::DoExtreme, Md::Simple] {
        let p = Cfg::plain(m);
        if !v.contains(&p) {
            v.push(p);
        }
    }
    v
}

pub fn oracle(c: &Case) -> Outcome {
    oracle_with(c, &cfgs_of(c), node_cap())
}

pub fn oracle_sweep(c: &Case) -> Outcome {
    oracle_with(c, &cfgs_of(c), SWEEP_NODE_CAP)
}

pub fn oracle_with(c: &Case, cfgs: &[Cfg], cap: u64) -> Outcome {
    let b = match build_ctx(c, cap) {
        Some(b) => b,
        None => return Outcome::skip("unbuildable"),
    };
    let mut rng = c.vseed;
    let in_vals: Vec<HVal> = b.in_types.iter().map(|t| gen_hval(t, &mut rng, c.dens)).collect();
    let inputs: Vec<Value> = in_vals.iter().zip(b.in_types.iter()).map(|(v, t)| encode(v, t)).collect();

    // generator self-check: annotated associative bodies are associative on generated values
    for (g, bi) in &b.assoc_bodies {
        let mut r2 = c.vseed ^ 0xA550C;
        let vs: Vec<Value> = (0..3).map(|_| encode(&gen_hval(&bi.state_t, &mut r2, c.dens), &bi.state_t)).collect();
        let comb = |x: &Value, y: &Value| -> Option<Value> {
            let r = eval_graph(g, vec![x.clone(), y.clone()], c.eval_seed)?;
            r.to_vector().ok().map(|v| v[0].clone())
        };
        let l = comb(&vs[0], &vs[1]).and_then(|ab| comb(&ab, &vs[2]));
        let r = comb(&vs[1], &vs[2]).and_then(|bc| comb(&vs[0], &bc));
        match (l, r) {
            (Some(l), Some(r)) => {
                if decode(&l, &bi.state_t) != decode(&r, &bi.state_t) {
                    inconclusive(format!("body {:?} is annotated associative but (a.b).c != a.(b.c)", bi.op));
                }
            }
            _ => inconclusive(format!("body {:?} cannot be evaluated stand-alone", bi.op)),
        }
    }

    // reference: native Call/Iterate
    let want = match eval_main(&b.ctx, inputs.clone(), c.eval_seed) {
        Ok(Ok(v)) => v,
        Ok(Err(e)) => return Outcome::skip("native-eval-error").label(format!("native-error:{}", e.chars().take(60).collect::<String>())),
        Err(p) => return Outcome::skip("native-eval-panic").label(format!("native-panic:{}", p.chars().take(60).collect::<String>())),
    };
    let want = match decode(&want, &b.out_t) {
        Ok(h) => h,
        Err(e) => return Outcome::skip("native-type-mismatch").label(format!("native-type:{}", e)),
    };
    {
        // the relations demanded from the inlined graph must hold for the native evaluation too
        let mut fresh = vec![];
        let _ = cmp_masked(&want, &want, &b.mask, &mut vec![], &mut fresh);
        if !all_distinct(&fresh) {
            inconclusive("native evaluation produced equal values for two fresh Random leaves".to_string());
        }
        if let Err(e) = check_acc(&b, &want, &in_vals) {
            inconclusive(format!("native evaluation violates the accumulator relation: {}", e));
        }
    }

    let mut labels: Vec<String> = b.labels.clone();
    let mut nonsimple = false;
    for cfg in cfgs {
        labels.push(format!("cfg-default:{}", md_name(cfg.default)));
        labels.push(format!("cfg-call-override:{}", omd_name(cfg.call)));
        labels.push(format!("cfg-iterate-override:{}", omd_name(cfg.iter)));
        let strat_of = |pos: usize| -> String {
            match b.main_iters.iter().find(|u| u.pos == pos) {
                Some(u) => {
                    let (s, a) = strategy(&u.body, cfg.iter_mode(), u.len);
                    format!("{}-{}", s, a)
                }
                None => format!("call-{}", md_name(cfg.call_mode())),
            }
        };
        let first_strat = || -> String {
            // the most specific strategy present (for failures that cannot be attributed to one use)
            let mut v: Vec<String> = b.iters.iter().map(|(bi, l)| strategy(bi, cfg.iter_mode(), *l).0.to_string()).collect();
            v.sort();
            v.dedup();
            v.join("+")
        };
        let mapped = match crate::util::catch(|| inline_operations(&b.ctx, cfg.to_config())) {
            Ok(Ok(m)) => m,
            Ok(Err(e)) => return Outcome::fail(&format!("inline-error:{}", first_strat()), format!("cfg {}: inline_operations returned Err: {}", cfg.name(), e)),
            Err(p) => return Outcome::fail(&format!("inline-panic:{}", first_strat()), format!("cfg {}: inline_operations panicked: {}", cfg.name(), p)),
        };
        let ictx = mapped.get_context();
        let imain = match ictx.get_main_graph() {
            Ok(g) => g,
            Err(e) => return Outcome::fail("inlined-no-main", format!("cfg {}: {}", cfg.name(), e)),
        };
        // interface: same inputs, same output type
        let itypes: Vec<Type> = imain
            .get_nodes()
            .iter()
            .filter_map(|n| match n.get_operation() {
                Operation::Input(t) => Some(t),
                _ => None,
            })
            .collect();
        if itypes != b.in_types {
            return Outcome::fail("inlined-interface", format!("cfg {}: input types changed: {:?} -> {:?}", cfg.name(), b.in_types, itypes));
        }
        match imain.get_output_node().and_then(|n| n.get_type()) {
            Ok(t) if t == b.out_t => {}
            other => return Outcome::fail("inlined-output-type", format!("cfg {}: output type {:?}, want {}", cfg.name(), other.map(|t| t.to_string()), b.out_t)),
        }
        let mut residual = (0usize, 0usize, 0usize);
        for gr in ictx.get_graphs() {
            for n in gr.get_nodes() {
                match n.get_operation() {
                    Operation::Call => residual.0 += 1,
                    Operation::Iterate => residual.1 += 1,
                    Operation::Random(_) => residual.2 += 1,
                    _ => {}
                }
            }
        }
        if cfg.call_mode() != Md::Noop && cfg.iter_mode() != Md::Noop && (residual.0 > 0 || residual.1 > 0) {
            labels.push("residual-call-or-iterate-nodes".to_string());
        }
        let got = match eval_main(&ictx, inputs.clone(), c.eval_seed) {
            Ok(Ok(v)) => v,
            Ok(Err(e)) => return Outcome::fail(&format!("inlined-eval-error:{}", first_strat()), format!("cfg {}: inlined graph fails to evaluate: {}", cfg.name(), e)),
            Err(p) => return Outcome::fail(&format!("inlined-eval-panic:{}", first_strat()), format!("cfg {}: inlined graph panics: {}", cfg.name(), p)),
        };
        let got = match decode(&got, &b.out_t) {
            Ok(h) => h,
            Err(e) => return Outcome::fail("inlined-value-type", format!("cfg {}: value of the inlined graph does not have the output type: {}", cfg.name(), e)),
        };
        let mut fresh = vec![];
        if let Err((path, msg)) = cmp_masked(&want, &got, &b.mask, &mut vec![], &mut fresh) {
            let pos = path.first().copied().unwrap_or(0);
            let what = match path.get(1) {
                Some(0) if b.main_iters.iter().any(|u| u.pos == pos) => "final-state",
                Some(1) if b.main_iters.iter().any(|u| u.pos == pos) => "outputs",
                _ => "value",
            };
            return Outcome::fail(
                &format!("mismatch:{}:{}", strat_of(pos), what),
                format!("cfg {}: use #{} ({}) at path {:?}: {}", cfg.name(), pos, b.use_desc.get(pos).cloned().unwrap_or_default(), path, msg),
            );
        }
        if !all_distinct(&fresh) {
            return Outcome::fail(
                &format!("random-shared:{}", first_strat()),
                format!("cfg {}: two inlined copies returned the same 128-bit random value: a Random node is shared between copies ({} fresh leaves, {} Random nodes)", cfg.name(), fresh.len(), residual.2),
            );
        }
        if let Err(e) = check_acc(&b, &got, &in_vals) {
            return Outcome::fail("random-acc-relation", format!("cfg {}: {}", cfg.name(), e));
        }
        if !fresh.is_empty() {
            labels.push(format!("fresh-leaves-checked:{}", if fresh.len() >= 8 { ">=8" } else { "1-7" }));
        }
        // labels per Iterate
        for (bi, len) in &b.iters {
            let (s, a) = strategy(bi, cfg.iter_mode(), *len);
            if *len >= 2 && matches!(s, "empty" | "assoc" | "onebit" | "small") {
                nonsimple = true;
            }
            labels.push(format!("strat:{}/{}/{}", fam_name(bi), s, a));
        }
        for u in &b.main_iters {
            let (s, a) = strategy(&u.body, cfg.iter_mode(), u.len);
            if matches!(s, "assoc" | "onebit" | "small") {
                labels.push(format!("{}:{}:len={}", s, a, len_bucket(u.len)));
            }
        }
    }
    for (bi, len) in &b.iters {
        labels.push(format!("fam:{}", fam_name(bi)));
        labels.push(format!("op:{:?}", bi.op));
        labels.push(format!("len:{}", len_bucket(*len)));
        labels.push(format!("out-kind:{}", bi.out_kind));
        if bi.fam == Fam::Small {
            labels.push(format!("small:K={},rank={}", bi.k, bi.rank));
        }
        if bi.fam == Fam::OneBit {
            labels.push(format!("onebit:rank={}", bi.rank));
        }
        if bi.rand {
            labels.push("body-with-random".to_string());
        }
        if bi.wrap_depth > 0 {
            labels.push(format!("body-wrap-depth:{}", bi.wrap_depth.min(3)));
        }
        if bi.nested_iter {
            labels.push("iterate-in-iterate".to_string());
        }
        if bi.anns.len() > 1 {
            labels.push("multi-annotation".to_string());
        }
    }
    labels.push(format!("graphs:{}", b.n_graphs.min(7)));
    labels.push(format!("call-depth:{}", b.max_depth.min(5)));
    labels.push(format!("main-calls:{}", b.n_calls_main.min(4)));
    if b.skipped_specs > 0 {
        labels.push("skipped-spec".to_string());
    }
    labels.sort();
    labels.dedup();
    let big = b.iters.iter().any(|(_, l)| *l >= 2) || b.max_depth >= 2;
    Outcome::pass(big && nonsimple).labels(labels)
}

// ---------------------------------------------------------------------------------------------
// second sub-check: un-annotated random bodies from the shared graph-recipe generator

#[derive(Clone, Debug, Serialize, Deserialize)]
pub struct RecipeCase {
    pub recipe: gg::Recipe,
    pub cfg: Cfg,
    pub eval_seed: [u8; 16],
}

fn recipe_kinds() -> Vec<(u32, gg::K)> {
    use gg::K;
    vec![
        (6, K::Input),
        (2, K::InputBits),
        (2, K::Const),
        (5, K::Add),
        (4, K::Sub),
        (5, K::Mul),
        (2, K::MixedMul),
        (2, K::Dot),
        (2, K::Matmul),
        (2, K::Sum),
        (2, K::Permute),
        (2, K::Get),
        (2, K::Slice),
        (2, K::Reshape),
        (2, K::Stack),
        (2, K::Concat),
        (2, K::Repeat),
        (3, K::MkTuple),
        (2, K::MkNamed),
        (2, K::MkVector),
        (3, K::TupleGet),
        (2, K::NamedGet),
        (2, K::VectorGet),
        (2, K::Zip),
        (2, K::A2V),
        (2, K::V2A),
        (2, K::A2B),
        (2, K::B2A),
        (12, K::Call),
        (12, K::Iterate),
    ]
}

fn has_128(t: &Type) -> bool {
    if is_leaf(t) {
        bits(leaf_st(t)) == 128
    } else {
        match t {
            Type::Vector(_, et) => has_128(et),
            _ => children_types(t).iter().any(has_128),
        }
    }
}

pub fn oracle_recipe(c: &RecipeCase) -> Outcome {
    let built = match gg::build(&c.recipe, 64) {
        Some(b) => b,
        None => return Outcome::skip("unbuildable-recipe"),
    };
    // 128-bit structural evaluator paths are a known evaluator defect (DESIGN §4 O2) that is not
    // about inlining: keep them out of the differential
    for g in built.context.get_graphs() {
        for n in g.get_nodes() {
            if let Ok(t) = n.get_type() {
                if has_128(&t) {
                    return Outcome::skip("128-bit-type");
                }
            }
        }
    }
    let in_types: Vec<Type> = built.inputs.iter().map(|(_, t, _)| t.clone()).collect();
    let in_vals = gg::input_values(&c.recipe, &built.inputs, 0);
    let inputs: Vec<Value> = in_vals.iter().zip(in_types.iter()).map(|(v, t)| encode(v, t)).collect();
    let out_t = match built.main.get_output_node().and_then(|n| n.get_type()) {
        Ok(t) => t,
        Err(_) => return Outcome::skip("no-output-type"),
    };
    let mut n_call = 0;
    let mut n_iter = 0;
    let mut max_len = 0u64;
    for g in built.context.get_graphs() {
        for n in g.get_nodes() {
            match n.get_operation() {
                Operation::Call => n_call += 1,
                Operation::Iterate => {
                    n_iter += 1;
                    if let Ok(Type::Vector(l, _)) = n.get_node_dependencies()[1].get_type() {
                        max_len = max_len.max(l);
                    }
                }
                _ => {}
            }
        }
    }
    if n_call + n_iter == 0 {
        return Outcome::skip("no-call-or-iterate");
    }
    let want = match eval_main(&built.context, inputs.clone(), c.eval_seed) {
        Ok(Ok(v)) => v,
        Ok(Err(_)) => return Outcome::skip("native-eval-error"),
        Err(_) => return Outcome::skip("native-eval-panic"),
    };
    let want = match decode(&want, &out_t) {
        Ok(h) => h,
        Err(_) => return Outcome::skip("native-type-mismatch"),
    };
    let mut cfgs = vec![c.cfg.clone()];
    for m in [Md::Simple, Md::DoDefault, Md::DoExtreme] {
        if !cfgs.contains(&Cfg::plain(m)) {
            cfgs.push(Cfg::plain(m));
        }
    }
    let mut labels = vec![format!("calls:{}", n_call.min(4)), format!("iterates:{}", n_iter.min(4)), format!("max-len:{}", max_len)];
    for cfg in &cfgs {
        labels.push(format!("cfg-default:{}", md_name(cfg.default)));
        labels.push(format!("cfg-call-override:{}", omd_name(cfg.call)));
        labels.push(format!("cfg-iterate-override:{}", omd_name(cfg.iter)));
        let mapped = match crate::util::catch(|| inline_operations(&built.context, cfg.to_config())) {
            Ok(Ok(m)) => m,
            Ok(Err(e)) => return Outcome::fail("recipe-inline-error", format!("cfg {}: inline_operations returned Err: {}", cfg.name(), e)),
            Err(p) => return Outcome::fail("recipe-inline-panic", format!("cfg {}: inline_operations panicked: {}", cfg.name(), p)),
        };
        let ictx = mapped.get_context();
        let got = match eval_main(&ictx, inputs.clone(), c.eval_seed) {
            Ok(Ok(v)) => v,
            Ok(Err(e)) => return Outcome::fail("recipe-inlined-eval-error", format!("cfg {}: inlined graph fails to evaluate: {}", cfg.name(), e)),
            Err(p) => return Outcome::fail("recipe-inlined-eval-panic", format!("cfg {}: inlined graph panics: {}", cfg.name(), p)),
        };
        match decode(&got, &out_t) {
            Ok(h) => {
                if h != want {
                    return Outcome::fail("recipe-mismatch", format!("cfg {}: want {} got {}", cfg.name(), trunc(&want), trunc(&h)));
                }
            }
            Err(e) => return Outcome::fail("recipe-inlined-value-type", format!("cfg {}: {}", cfg.name(), e)),
        }
    }
    labels.sort();
    labels.dedup();
    // un-annotated bodies always take the simple strategy: these cases are never counted non-trivial
    Outcome::pass(false).labels(labels)
}

// ---------------------------------------------------------------------------------------------
// strategies

fn arb_md() -> BoxedStrategy<Md> {
    prop_oneof![1 => Just(Md::Noop), 4 => Just(Md::Simple), 6 => Just(Md::DoDefault), 6 => Just(Md::DoExtreme)].boxed()
}
fn arb_omd() -> BoxedStrategy<Option<Md>> {
    prop_oneof![
        6 => Just(None),
        2 => Just(Some(Md::Noop)),
        1 => Just(Some(Md::Simple)),
        1 => Just(Some(Md::DoDefault)),
        1 => Just(Some(Md::DoExtreme)),
    ]
    .boxed()
}
pub fn arb_cfg() -> BoxedStrategy<Cfg> {
    (arb_md(), arb_omd(), arb_omd()).prop_map(|(default, call, iter)| Cfg { default, call, iter }).boxed()
}

pub const FORCED_LENS: [u8; 9] = [0, 1, 2, 15, 16, 17, 31, 32, 33];

fn arb_len() -> BoxedStrategy<u8> {
    prop_oneof![4 => proptest::sample::select(FORCED_LENS.to_vec()), 5 => 0u8..=40, 2 => 0u8..=6].boxed()
}

pub const ALL_OPS: [Op; 28] = [
    Op::GMulAdd,
    Op::GRevSub,
    Op::GSquare,
    Op::GTuple,
    Op::GRandAcc,
    Op::GCallPlain,
    Op::EMap,
    Op::ALeft,
    Op::ARight,
    Op::AXor,
    Op::AAnd,
    Op::AOr,
    Op::AAdd,
    Op::AMul,
    Op::AMat,
    Op::AAffine,
    Op::AAffineT,
    Op::BSame,
    Op::BPair,
    Op::BStack,
    Op::BInt,
    Op::SXor,
    Op::SMatShared,
    Op::SMatRow,
    Op::SRot,
    Op::SPrefixAnd,
    Op::SLookup,
    Op::SLookupConst,
];

fn arb_op() -> BoxedStrategy<Op> {
    let w: Vec<(u32, BoxedStrategy<Op>)> = ALL_OPS
        .iter()
        .map(|op| {
            let wt = match fam_of(*op) {
                Fam::General => 1,
                Fam::Empty => 3,
                Fam::Assoc => 3,
                Fam::OneBit => 4,
                Fam::Small => 3,
            };
            (wt, Just(*op).boxed())
        })
        .collect();
    proptest::strategy::Union::new_weighted(w).boxed()
}

pub fn arb_body() -> BoxedStrategy<BodySpec> {
    (
        arb_op(),
        any::<u8>(),
        proptest::collection::vec(0u8..4, 0..=2),
        0u8..20,
        any::<u8>(),
        any::<u8>(),
        prop_oneof![2 => Just(0u8), 2 => Just(1u8), 1 => Just(2u8), 1 => Just(3u8), 1 => Just(4u8), 3 => Just(5u8), 1 => Just(6u8)],
        prop_oneof![6 => Just(false), 1 => Just(true)],
        prop_oneof![5 => Just(false), 1 => Just(true)],
        any::<u64>(),
        any::<u16>(),
    )
        .prop_map(|(op, st, shape, k, pa, pb, out, rand, extra_ann, cseed, of)| BodySpec { op, st, shape, k, pa, pb, out, rand, extra_ann, cseed, of })
        .boxed()
}

fn arb_gspec() -> BoxedStrategy<GSpec> {
    prop_oneof![
        8 => arb_body().prop_map(GSpec::Body),
        3 => any::<u16>().prop_map(|of| GSpec::Wrap { of }),
        1 => (any::<u16>(), arb_len()).prop_map(|(of, len)| GSpec::IterIn { of, len }),
        2 => (any::<u16>(), 0u8..3).prop_map(|(of, m)| GSpec::Nest { of, m }),
        2 => (any::<bool>(), proptest::option::of(any::<u16>())).prop_map(|(rand, of)| GSpec::Plain { rand, of }),
    ]
    .boxed()
}

fn arb_use() -> BoxedStrategy<Use> {
    prop_oneof![
        8 => (prop_oneof![2 => Just(0u16), 1 => any::<u16>()], arb_len(), prop_oneof![3 => Just(false), 1 => Just(true)], prop_oneof![4 => Just(0u8), 1 => Just(1u8), 1 => Just(2u8)])
            .prop_map(|(g, len, chain, vec_mode)| Use::Iter { g, len, chain, vec_mode }),
        2 => (any::<u16>(), any::<bool>()).prop_map(|(g, twice)| Use::Call { g, twice }),
    ]
    .boxed()
}

pub fn arb_case() -> BoxedStrategy<Case> {
    (
        arb_body(),
        proptest::collection::vec(arb_gspec(), 0..=3),
        proptest::collection::vec(arb_use(), 1..=3),
        arb_cfg(),
        any::<u64>(),
        prop_oneof![4 => Just(0u8), 1 => Just(1u8), 1 => Just(2u8), 1 => Just(3u8), 1 => Just(4u8)],
        any::<[u8; 16]>(),
    )
        .prop_map(|(first, rest, uses, cfg, vseed, dens, eval_seed)| {
            let mut graphs = vec![];
            // a plain helper first when the first body needs one
            if first.op == Op::GCallPlain {
                graphs.push(GSpec::Plain { rand: first.rand, of: None });
            }
            graphs.push(GSpec::Body(first));
            for g in rest {
                if let GSpec::Body(b) = &g {
                    if b.op == Op::GCallPlain {
                        graphs.push(GSpec::Plain { rand: b.rand, of: Some(0) });
                    }
                }
                graphs.push(g);
            }
            Case { graphs, uses, cfg, vseed, dens, eval_seed }
        })
        .boxed()
}

pub fn arb_recipe_case() -> BoxedStrategy<RecipeCase> {
    (gg::arb_recipe(recipe_kinds(), 3, 10, 3), arb_cfg(), any::<[u8; 16]>())
        .prop_map(|(recipe, cfg, eval_seed)| RecipeCase { recipe, cfg, eval_seed })
        .boxed()
}

// ---------------------------------------------------------------------------------------------
// sweep: every annotated operation x every length 0..=40 (x all un-overridden modes in the oracle)

pub fn sweep_cases(variants: u64, seed: u64) -> Vec<Case> {
    let mut out = vec![];
    let mut rng = seed ^ 0x5EE9;
    for op in ALL_OPS.iter().filter(|o| !matches!(fam_of(**o), Fam::General)) {
        for len in 0u8..=40 {
            for v in 0..variants {
                let r = gg::splitmix(&mut rng);
                let spec = BodySpec {
                    op: *op,
                    st: (r >> 8) as u8,
                    shape: match (r >> 16) % 3 {
                        0 => vec![],
                        1 => vec![(r >> 20) as u8 % 4],
                        _ => vec![(r >> 20) as u8 % 4, (r >> 24) as u8 % 4],
                    },
                    k: ((len as u64 + v + (r >> 28) % 2) % 4) as u8,
                    pa: (r >> 32) as u8,
                    pb: (r >> 40) as u8 & 63,
                    // even variants: non-empty per-step output (prefix-sum algorithms), odd: empty (log-depth sum)
                    out: if v % 2 == 0 { [5u8, 1, 6, 2, 4, 5][((r >> 48) % 6) as usize] } else { 0 },
                    rand: false,
                    extra_ann: false,
                    cseed: r,
                    of: 0,
                };
                out.push(Case {
                    graphs: vec![GSpec::Body(spec)],
                    uses: vec![Use::Iter { g: 0, len, chain: false, vec_mode: 0 }],
                    cfg: Cfg::plain(Md::DoDefault),
                    vseed: gg::splitmix(&mut rng),
                    dens: (v % 5) as u8,
                    eval_seed: [7; 16],
                });
            }
        }
    }
    out
}

pub fn run(env: &Env) {
    env.assume("reference semantics = SimpleEvaluator's native Call/Iterate (evaluators.rs); the inliner is the code under test");
    env.assume("annotated bodies satisfy the contract of their annotation by construction; associativity is re-checked on generated values (failure = exit 2, generator bug)");
    env.assume("128-bit scalar types are not used in bodies (structural evaluator paths truncate them: DESIGN §4 O2, not an inlining matter)");
    env.assume("Random nodes: only deterministic parts are compared with the reference; 128-bit fresh random leaves of different copies must be pairwise distinct (collision probability < 2^-100 per case)");
    env.assume("cost bound: the length of an Iterate use is clamped so that its estimated inlined size stays below node_cap_per_use nodes (affects only K>=3 small-state bodies and nested bodies; label len-clamped); the length sweep uses the larger sweep_node_cap, under which no length is clamped");
    env.note("node_cap_per_use", serde_json::json!(node_cap()));
    env.note("sweep_node_cap", serde_json::json!(SWEEP_NODE_CAP));
    env.set_shrink_iters(600);
    env.campaign("families", RULE, env.n(5000, 150_000), arb_case, oracle);
    let variants = env.pick(2, 12);
    env.enumerate_opt(
        "length-sweep",
        "every annotated/empty-state operation x every length 0..=40 x modes {Simple, DO(Default), DO(Extreme)}; body parameters and inputs pseudo-random from VERIF_SEED",
        sweep_cases(variants, env.seed),
        false,
        oracle_sweep,
    );
    env.campaign(
        "recipes",
        "graph recipes (shared generator) with un-annotated Call/Iterate sub-graphs called from several places; generated configuration + the three un-overridden modes",
        env.n(40_000, 1_000_000),
        arb_recipe_case,
        oracle_recipe,
    );
}

pub fn replay(check: &str, case: J) -> Outcome {
    match check {
        "recipes" => replay_with::<RecipeCase, _>(case, oracle_recipe),
        "length-sweep" => replay_with::<Case, _>(case, oracle_sweep),
        _ => replay_with::<Case, _>(case, oracle),
    }
}
