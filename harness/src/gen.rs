//! proptest strategies for types and values (DESIGN §2.1).
use crate::hv::*;
use ciphercore_base::data_types::{
    array_type, named_tuple_type, scalar_type, tuple_type, vector_type, ScalarType, Type,
};
use proptest::prelude::*;

pub fn arb_st() -> BoxedStrategy<ScalarType> {
    proptest::sample::select(ALL_ST.to_vec()).boxed()
}
pub fn arb_st_nonbit() -> BoxedStrategy<ScalarType> {
    proptest::sample::select(ALL_ST[1..].to_vec()).boxed()
}

/// shape with rank 0..=max_rank (rank 0 = scalar is NOT produced here; rank>=1), dims 1..=max_dim,
/// with a deliberate share of size-1 dimensions; total elements capped.
pub fn arb_shape(max_rank: usize, max_dim: u64, cap: u64) -> BoxedStrategy<Vec<u64>> {
    proptest::collection::vec(
        prop_oneof![2 => Just(1u64), 6 => 1..=max_dim],
        1..=max_rank,
    )
    .prop_map(move |mut s| {
        // enforce the element cap by shrinking the largest dims
        while s.iter().product::<u64>() > cap {
            let (i, _) = s.iter().enumerate().max_by_key(|(_, d)| **d).unwrap();
            s[i] = (s[i] / 2).max(1);
        }
        s
    })
    .boxed()
}

pub fn arb_leaf_type_of(st: ScalarType, max_rank: usize, max_dim: u64, cap: u64) -> BoxedStrategy<Type> {
    prop_oneof![
        1 => Just(scalar_type(st)),
        5 => arb_shape(max_rank, max_dim, cap).prop_map(move |s| array_type(s, st)),
    ]
    .boxed()
}

pub fn arb_leaf_type(max_rank: usize, max_dim: u64, cap: u64) -> BoxedStrategy<Type> {
    arb_st()
        .prop_flat_map(move |st| arb_leaf_type_of(st, max_rank, max_dim, cap))
        .boxed()
}

pub fn arb_name() -> BoxedStrategy<String> {
    proptest::sample::select(vec!["a", "b", "c", "key", "x1", "col", "Z", "n_0"])
        .prop_map(|s| s.to_string())
        .boxed()
}

/// nested type of depth <= depth (tuples, named tuples with unique names, vectors incl. length 0)
pub fn arb_type(depth: u32) -> BoxedStrategy<Type> {
    let leaf = arb_leaf_type(3, 4, 24);
    if depth == 0 {
        return leaf;
    }
    let sub = arb_type(depth - 1);
    prop_oneof![
        4 => leaf,
        2 => proptest::collection::vec(sub.clone(), 0..4).prop_map(tuple_type),
        2 => proptest::collection::vec(sub.clone(), 1..4).prop_map(|ts| {
            let names = ["a", "b", "c", "d"];
            named_tuple_type(ts.into_iter().enumerate().map(|(i, t)| (names[i].to_string(), t)).collect())
        }),
        2 => (0u64..5, sub).prop_map(|(n, t)| vector_type(n, t)),
    ]
    .boxed()
}

/// one element of scalar type st: extremes with high weight, then uniform
pub fn arb_elem(st: ScalarType) -> BoxedStrategy<u128> {
    let b = bits(st);
    let m = mask(st);
    if b == 1 {
        return (0u128..2).boxed();
    }
    prop_oneof![
        2 => Just(0u128),
        2 => Just(1u128),
        2 => Just(m),                         // -1 / max unsigned
        2 => Just(1u128 << (b - 1)),          // min signed / 2^(w-1)
        2 => Just((1u128 << (b - 1)) - 1),    // max signed
        3 => (0..b).prop_map(|k| 1u128 << k),
        2 => (1..b).prop_map(move |k| ((1u128 << k) + 1) & m),
        2 => (1..b).prop_map(|k| (1u128 << k) - 1),
        2 => (0u128..256).prop_map(move |x| x & m),
        2 => (0u128..256).prop_map(move |x| x.wrapping_neg() & m),
        8 => any::<u128>().prop_map(move |x| x & m),
    ]
    .boxed()
}

pub fn is_extreme(x: u128, st: ScalarType) -> bool {
    let b = bits(st);
    let m = mask(st);
    if b == 1 {
        return false;
    }
    x == m || x == 1u128 << (b - 1) || x == (1u128 << (b - 1)) - 1 || (b == 128 && x >> 64 != 0)
}

pub fn arb_hval(t: &Type) -> BoxedStrategy<HVal> {
    if is_leaf(t) {
        let n = type_elems(t);
        let st = leaf_st(t);
        proptest::collection::vec(arb_elem(st), n).prop_map(HVal::A).boxed()
    } else {
        let ts = children_types(t);
        if ts.is_empty() {
            return Just(HVal::V(vec![])).boxed();
        }
        let strs: Vec<BoxedStrategy<HVal>> = ts.iter().map(arb_hval).collect();
        strs.prop_map(HVal::V).boxed()
    }
}

/// uniform elements only (for junk)
pub fn arb_hval_uniform(t: &Type) -> BoxedStrategy<HVal> {
    if is_leaf(t) {
        let n = type_elems(t);
        let st = leaf_st(t);
        let m = mask(st);
        proptest::collection::vec(any::<u128>().prop_map(move |x| x & m), n)
            .prop_map(HVal::A)
            .boxed()
    } else {
        let ts = children_types(t);
        if ts.is_empty() {
            return Just(HVal::V(vec![])).boxed();
        }
        let strs: Vec<BoxedStrategy<HVal>> = ts.iter().map(arb_hval_uniform).collect();
        strs.prop_map(HVal::V).boxed()
    }
}

pub fn arb_typed(depth: u32) -> BoxedStrategy<(Type, HVal)> {
    arb_type(depth)
        .prop_flat_map(|t| {
            let tt = t.clone();
            arb_hval(&t).prop_map(move |v| (tt.clone(), v))
        })
        .boxed()
}

pub fn arb_seed16() -> BoxedStrategy<[u8; 16]> {
    any::<[u8; 16]>().boxed()
}

/// monotone index mapping (shrinks towards 0)
pub fn pick(i: u16, len: usize) -> usize {
    if len == 0 {
        0
    } else {
        ((i as usize) * len) >> 16
    }
}
