//! Node-by-node evaluation keeping every node value (DESIGN §2.6) and the three-party executor
//! (DESIGN §2.4).
use ciphercore_base::data_values::Value;
use ciphercore_base::evaluators::simple_evaluator::SimpleEvaluator;
use ciphercore_base::evaluators::Evaluator;
use ciphercore_base::graphs::{Graph, Node, NodeAnnotation, Operation};

/// Evaluates `graph` with `ev`, returning the value of every node (Call/Iterate through the
/// evaluator's native recursion). Err(message) on a runtime error; panics are NOT caught here.
pub fn walk_graph<E: Evaluator>(ev: &mut E, graph: &Graph, inputs: &[Value]) -> Result<Vec<Value>, String> {
    let nodes = graph.get_nodes();
    let mut vals: Vec<Value> = Vec::with_capacity(nodes.len());
    let mut next_input = 0usize;
    for node in nodes.iter() {
        let deps: Vec<Value> = node
            .get_node_dependencies()
            .iter()
            .map(|d| vals[d.get_id() as usize].clone())
            .collect();
        let v = match node.get_operation() {
            Operation::Input(t) => {
                let v = inputs
                    .get(next_input)
                    .ok_or_else(|| "too few inputs".to_string())?
                    .clone();
                next_input += 1;
                if !v.check_type(t).map_err(|e| e.to_string())? {
                    return Err("input value does not match input type".to_string());
                }
                v
            }
            Operation::Call | Operation::Iterate => ev
                .evaluate_call_iterate(node.clone(), deps)
                .map_err(|e| format!("node {} ({}): {}", node.get_id(), node.get_operation(), e))?,
            _ => ev
                .evaluate_node(node.clone(), deps)
                .map_err(|e| format!("node {} ({}): {}", node.get_id(), node.get_operation(), e))?,
        };
        vals.push(v);
    }
    Ok(vals)
}

pub fn sends_of(node: &Node) -> Vec<(u64, u64)> {
    node.get_annotations()
        .unwrap_or_default()
        .into_iter()
        .filter_map(|a| match a {
            NodeAnnotation::Send(s, r) => Some((s, r)),
            _ => None,
        })
        .collect()
}

#[derive(Clone, Debug)]
pub struct Msg {
    pub node: u64,
    pub from: u64,
    pub to: u64,
    pub value: Option<Value>,
}

pub struct Run3 {
    /// per party: value of the output node (None = the party could not derive it: a local
    /// evaluation on junk failed, or it depends on such a value)
    pub out: [Option<Value>; 3],
    pub transcript: Vec<Msg>,
    /// number of node evaluations that failed locally for some party (on junk)
    pub local_failures: [usize; 3],
    /// first local failure message per party (diagnostics)
    pub first_failure: [Option<String>; 3],
    pub n_sends: usize,
}

/// Three separate parties execute an inlined graph: each party evaluates every node on ITS OWN
/// values of the dependencies with ITS OWN evaluator (own random tape); at a node annotated
/// Send(s, r) the receiver's value is replaced by the sender's value (several Send annotations are
/// applied in order); nothing else crosses between parties.
pub fn run3(graph: &Graph, inputs: [&[Value]; 3], seeds: [[u8; 16]; 3]) -> Result<Run3, String> {
    let nodes = graph.get_nodes();
    let mut evs: Vec<SimpleEvaluator> = vec![];
    for s in seeds.iter() {
        evs.push(SimpleEvaluator::new(Some(*s)).map_err(|e| e.to_string())?);
    }
    let mut vals: [Vec<Option<Value>>; 3] = [vec![], vec![], vec![]];
    let mut transcript = vec![];
    let mut local_failures = [0usize; 3];
    let mut first_failure: [Option<String>; 3] = [None, None, None];
    let mut next_input = 0usize;
    let mut n_sends = 0usize;
    for node in nodes.iter() {
        let op = node.get_operation();
        if matches!(op, Operation::Call | Operation::Iterate) {
            return Err("run3 needs a fully inlined graph".to_string());
        }
        for p in 0..3 {
            let v = match &op {
                Operation::Input(t) => {
                    let v = inputs[p]
                        .get(next_input)
                        .ok_or_else(|| "too few inputs".to_string())?
                        .clone();
                    if !v.check_type(t.clone()).map_err(|e| e.to_string())? {
                        return Err(format!("party {} input {} does not match its type", p, next_input));
                    }
                    Some(v)
                }
                _ => {
                    let mut deps = vec![];
                    let mut ok = true;
                    for d in node.get_node_dependencies() {
                        match &vals[p][d.get_id() as usize] {
                            Some(v) => deps.push(v.clone()),
                            None => {
                                ok = false;
                                break;
                            }
                        }
                    }
                    if !ok {
                        None
                    } else {
                        match crate::util::catch(|| evs[p].evaluate_node(node.clone(), deps)) {
                            Ok(Ok(v)) => Some(v),
                            Ok(Err(e)) => {
                                local_failures[p] += 1;
                                if first_failure[p].is_none() {
                                    first_failure[p] = Some(format!("node {} ({}): {}", node.get_id(), op, e));
                                }
                                None
                            }
                            Err(pm) => {
                                local_failures[p] += 1;
                                if first_failure[p].is_none() {
                                    first_failure[p] = Some(format!("node {} ({}): PANIC {}", node.get_id(), op, pm));
                                }
                                None
                            }
                        }
                    }
                }
            };
            vals[p].push(v);
        }
        if op.is_input() {
            next_input += 1;
        }
        let id = node.get_id() as usize;
        for (s, r) in sends_of(node) {
            if s > 2 || r > 2 {
                return Err(format!("Send({},{}) with an invalid party id", s, r));
            }
            n_sends += 1;
            let sv = vals[s as usize][id].clone();
            transcript.push(Msg { node: id as u64, from: s, to: r, value: sv.clone() });
            vals[r as usize][id] = sv;
        }
    }
    let out_id = graph.get_output_node().map_err(|e| e.to_string())?.get_id() as usize;
    Ok(Run3 {
        out: [vals[0][out_id].clone(), vals[1][out_id].clone(), vals[2][out_id].clone()],
        transcript,
        local_failures,
        first_failure,
        n_sends,
    })
}
