//! C08 — custom-operation instantiation is total and meaning-preserving.
//!
//! `pairs`: for every argument-type tuple of a fixed list, every unordered pair of distinct library
//! operations / parameterisations that accept it is put into one context (enumerated completely).
//! `mix`: random contexts (1-3 graphs) of library custom operations with generated parameters and
//! argument types, fed into one another, with two harness-defined wrapper operations for nesting.
//! Oracle (both): run_instantiation_pass must return Ok when every custom_op call returned Ok, and
//! every node of the instantiated main graph must evaluate to what the operation's own definition
//! (the single-node context of exactly that operation and argument types, instantiated alone) gives.
use crate::c08_util::*;
use crate::core::*;
use crate::gen::pick;
use crate::hv::*;
use crate::util::catch;
use ciphercore_base::custom_ops::CustomOperation;
use ciphercore_base::data_types::{array_type, named_tuple_type, scalar_type, ScalarType, Type, BIT, INT128, INT32, INT64, UINT128, UINT16, UINT64, UINT8};
use ciphercore_base::data_values::Value;
use ciphercore_base::graphs::{create_context, Context, Graph, Node};
use proptest::prelude::*;
use serde::{Deserialize, Serialize};
use serde_json::Value as J;
use std::collections::HashMap;

pub const RULE: &str = "pairs: all unordered pairs of distinct library custom operations / parameterisations (25 structs, parameter grids) accepted on the same argument-type tuple (fixed list of bit, INT64/UINT64/128-bit and table types), both in one context; \
mix: random contexts of 1-3 graphs, 3-14 steps over all library custom operations with generated parameters (signedness, sort key, clip k, fixed-point precision/debug, iteration counts/caps, Taylor terms, PWL precision/buckets), operands picked from a typed pool (results feed later operations; A2B/B2A/tuple getters/table builders/Call as glue) plus harness-defined wrapper operations C08Twice/C08Both for nesting and shared sub-instantiations; \
oracle: run_instantiation_pass is Ok and every main-graph node evaluates as the per-node definition (single-node context instantiated alone); \
non-trivial = >=2 custom nodes share the operation struct but differ in parameters or argument types, or nesting depth >=2; distinct = distinct generated case";

fn seed16(s: u64) -> [u8; 16] {
    let mut x = s ^ 0xC08;
    let a = sm(&mut x).to_le_bytes();
    let b = sm(&mut x).to_le_bytes();
    let mut out = [0u8; 16];
    out[..8].copy_from_slice(&a);
    out[8..].copy_from_slice(&b);
    out
}

fn bits_t(shape: &[u64]) -> Type {
    if shape.is_empty() {
        scalar_type(BIT)
    } else {
        array_type(shape.to_vec(), BIT)
    }
}
fn leaf_t(st: ScalarType, shape: &[u64]) -> Type {
    if shape.is_empty() {
        scalar_type(st)
    } else {
        array_type(shape.to_vec(), st)
    }
}

fn table_menu(i: usize) -> Type {
    let nt = |v: Vec<(&str, Type)>| named_tuple_type(v.into_iter().map(|(n, t)| (n.to_string(), t)).collect());
    match i % 4 {
        0 => nt(vec![("a", leaf_t(INT64, &[3])), ("b", leaf_t(INT64, &[3]))]),
        1 => nt(vec![("y_pred", leaf_t(INT64, &[3])), ("y_true", leaf_t(INT64, &[3]))]),
        2 => nt(vec![("a", leaf_t(UINT8, &[4])), ("b", leaf_t(BIT, &[4])), ("c", leaf_t(INT32, &[4, 2]))]),
        _ => nt(vec![("k", leaf_t(UINT16, &[2])), ("a", leaf_t(INT64, &[2]))]),
    }
}

// ---------------------------------------------------------------------------------------------
// pairs

#[derive(Clone, Debug, Serialize, Deserialize)]
pub struct PairCase {
    pub a: Spec,
    pub b: Spec,
    pub types: Vec<Type>,
    pub seed: u64,
    /// signatures of open known findings at generation time (only used to pick which collision to report)
    #[serde(default)]
    pub excl: Vec<String>,
}

pub fn catalogue(thorough: bool) -> Vec<Spec> {
    let mut v = vec![Spec::Not, Spec::Or, Spec::Mux, Spec::Equal, Spec::NotEqual];
    for s in [false, true] {
        v.extend([Spec::Lt(s), Spec::Le(s), Spec::Gt(s), Spec::Ge(s), Spec::Min(s), Spec::Max(s), Spec::BinAdd(s), Spec::LongDiv(s)]);
    }
    let ks: &[u64] = if thorough { &[0, 1, 2, 3, 6, 14] } else { &[0, 1, 2, 5] };
    v.extend(ks.iter().map(|k| Spec::Clip(*k)));
    for k in ["a", "b", "y_pred", "y_true", "k", "c"] {
        v.push(Spec::SortKey(k.to_string()));
    }
    let fracs: &[u64] = if thorough { &[1, 3, 10, 15] } else { &[3, 15] };
    for f in fracs {
        for d in [false, true] {
            v.push(Spec::FixMul { frac: *f, debug: d });
        }
    }
    let ic: &[(u64, u64)] = if thorough { &[(1, 4), (2, 4), (3, 4), (2, 8), (5, 10), (1, 10)] } else { &[(1, 4), (2, 4), (2, 8), (5, 10)] };
    for (it, cap) in ic {
        v.push(Spec::Newton { it: *it, cap: *cap });
        v.push(Spec::Gold { it: *it, cap: *cap });
        v.push(Spec::InvSqrt { it: *it, cap: *cap });
    }
    let tf: &[(u64, u64)] = if thorough { &[(1, 4), (3, 4), (5, 4), (5, 10), (3, 10), (3, 0)] } else { &[(3, 4), (5, 4), (5, 10)] };
    for (terms, fpp) in tf {
        v.push(Spec::Taylor { terms: *terms, fpp: *fpp });
    }
    let precs: &[u64] = if thorough { &[6, 8, 15] } else { &[8, 15] };
    for p in precs {
        v.push(Spec::ApproxExp { prec: *p });
    }
    let pl: &[(u64, u64)] = if thorough { &[(8, 4), (8, 5), (15, 5), (15, 3), (15, 6), (6, 3)] } else { &[(8, 4), (8, 5), (15, 5), (15, 3)] };
    for (prec, lb) in pl {
        v.push(Spec::ApproxSigmoid { prec: *prec, lb: *lb });
        v.push(Spec::ApproxGelu { prec: *prec, lb: *lb });
        v.push(Spec::ApproxGeluD { prec: *prec, lb: *lb });
    }
    for (frac, debug) in [(10, false), (10, true), (15, false)] {
        v.push(Spec::Auc { frac, debug });
    }
    v
}

pub fn type_tuples(thorough: bool) -> Vec<Vec<Type>> {
    let b = bits_t;
    let i = |s: &[u64]| leaf_t(INT64, s);
    let u = |s: &[u64]| leaf_t(UINT64, s);
    let mut v = vec![
        // bit, binary
        vec![b(&[2, 8]), b(&[2, 8])],
        vec![b(&[2, 8]), b(&[8])],
        vec![b(&[4]), b(&[4])],
        vec![b(&[1]), b(&[1])],
        vec![b(&[3, 16]), b(&[1, 16])],
        vec![b(&[]), b(&[])],
        // bit, unary
        vec![b(&[8])],
        vec![b(&[2, 16])],
        vec![b(&[])],
        // mux
        vec![b(&[2, 1]), b(&[2, 8]), b(&[2, 8])],
        vec![b(&[]), i(&[2]), i(&[2])],
        // 64-bit, unary
        vec![i(&[])],
        vec![i(&[3])],
        vec![u(&[2])],
        // 64-bit and wider, binary / ternary
        vec![i(&[3]), i(&[3])],
        vec![i(&[]), i(&[])],
        vec![i(&[2, 2]), i(&[2])],
        vec![u(&[2]), u(&[2])],
        vec![leaf_t(INT128, &[2]), leaf_t(INT128, &[2])],
        vec![i(&[2]), i(&[2]), i(&[2])],
        // tables
        vec![table_menu(0)],
        vec![table_menu(1)],
        vec![table_menu(2)],
        vec![table_menu(3)],
    ];
    if thorough {
        v.extend([
            vec![b(&[2, 64]), b(&[64])],
            vec![b(&[2, 2, 4]), b(&[2, 1, 4])],
            vec![b(&[2]), b(&[2])],
            vec![b(&[64])],
            vec![b(&[3])],
            vec![i(&[2, 2])],
            vec![u(&[])],
            vec![leaf_t(UINT128, &[]), leaf_t(UINT128, &[])],
            vec![u(&[2]), u(&[2]), u(&[2])],
            vec![i(&[1]), i(&[1])],
        ]);
    }
    v
}

/// builds `ops[i](inputs of `types`)` for every i in one main graph; None if some op rejects
fn build_same_args(ops: &[CustomOperation], types: &[Type]) -> Result<Option<Context>, String> {
    catch(|| -> Option<Context> {
        let c = create_context().ok()?;
        let g = c.create_graph().ok()?;
        let mut ins = vec![];
        for t in types {
            ins.push(g.input(t.clone()).ok()?);
        }
        let mut outs = vec![];
        for op in ops {
            outs.push(g.custom_op(op.clone(), ins.clone()).ok()?);
        }
        let o = g.create_tuple(outs).ok()?;
        g.set_output_node(o).ok()?;
        g.finalize().ok()?;
        c.set_main_graph(g).ok()?;
        c.finalize().ok()?;
        Some(c)
    })
}

fn accepts(s: &Spec, types: &[Type]) -> bool {
    matches!(build_same_args(&[to_op(s)], types), Ok(Some(_)))
}

pub fn pair_cases(thorough: bool, excl: &[String]) -> Vec<PairCase> {
    let cat = catalogue(thorough);
    let mut out = vec![];
    for (ti, types) in type_tuples(thorough).into_iter().enumerate() {
        let acc: Vec<&Spec> = cat.iter().filter(|s| accepts(s, &types)).collect();
        for i in 0..acc.len() {
            for j in 0..i {
                out.push(PairCase {
                    a: acc[j].clone(),
                    b: acc[i].clone(),
                    types: types.clone(),
                    seed: (ti * 1_000_003 + i * 1009 + j) as u64,
                    excl: excl.to_vec(),
                });
            }
        }
    }
    out
}

pub fn oracle_pair(c: &PairCase) -> Outcome {
    let ops = [to_op(&c.a), to_op(&c.b)];
    let ctx = match build_same_args(&ops, &c.types) {
        Ok(Some(x)) => x,
        Ok(None) => return Outcome::skip("rejected-at-custom_op"),
        Err(_) => return Outcome::skip("panic-at-custom_op"),
    };
    let mut w = Work::default();
    let rounds = 3u64;
    let mut distinguished = false;
    let mut last = None;
    for r in 0..rounds {
        let mut s = c.seed.wrapping_mul(0x9E37_79B9).wrapping_add(r * 77 + 1);
        let inputs: Vec<Value> = c.types.iter().map(|t| encode(&gen_value(t, &mut s), t)).collect();
        match check_context(&mut w, &ctx, &inputs, seed16(c.seed ^ r), &c.excl) {
            Ok(ch) => {
                let n = ch.ref_vals.len();
                // nodes: inputs, a, b, tuple
                if n >= 3 {
                    if let (Some(x), Some(y)) = (&ch.ref_vals[n - 3], &ch.ref_vals[n - 2]) {
                        if x != y {
                            distinguished = true;
                        }
                    }
                }
                last = Some(ch);
            }
            Err(o) => return o,
        }
    }
    let ch = last.unwrap();
    let same_family = fam(&c.a) == fam(&c.b);
    let nt = ch.shared_family || ch.max_depth >= 2;
    Outcome::pass(nt)
        .labels(ch.labels)
        .label(if same_family { format!("two-parameterisations:{}", fam(&c.a)) } else { "two-operations".to_string() })
        .label(if distinguished { "values-distinguish-the-two" } else { "values-equal-or-incomparable" })
}

// ---------------------------------------------------------------------------------------------
// mix

#[derive(Clone, Debug, Serialize, Deserialize, PartialEq, Eq, Hash)]
pub enum StepK {
    Op(Spec),
    A2B,
    B2A,
    TupleGet,
    NamedGet,
    MkTable,
    Add,
    Call,
}

#[derive(Clone, Debug, Serialize, Deserialize, PartialEq, Eq, Hash)]
pub struct MStep {
    pub k: StepK,
    pub a: u16,
    pub b: u16,
    pub c: u16,
    pub p: [u16; 3],
}

#[derive(Clone, Debug, Serialize, Deserialize, PartialEq, Eq, Hash)]
pub struct SubG {
    pub ins: Vec<u16>,
    pub steps: Vec<MStep>,
    pub out: u16,
}

#[derive(Clone, Debug, Serialize, Deserialize)]
pub struct MixCase {
    pub subs: Vec<SubG>,
    pub steps: Vec<MStep>,
    pub seed: u64,
    /// open known-finding signatures excluded by construction (a step that would create such a
    /// collision is skipped and counted)
    #[serde(default)]
    pub excl: Vec<String>,
}

const BIT_SHAPES: [&[u64]; 14] = [&[8], &[2, 8], &[1, 8], &[4], &[2, 4], &[16], &[1], &[2, 1], &[64], &[2, 64], &[3], &[2, 2, 8], &[2], &[]];

fn bit_menu(i: u16) -> Type {
    bits_t(BIT_SHAPES[i as usize % BIT_SHAPES.len()])
}
fn int_menu(i: u16) -> Type {
    match i % 8 {
        0 => leaf_t(INT64, &[]),
        1 | 2 => leaf_t(INT64, &[2]),
        3 => leaf_t(INT64, &[3]),
        4 => leaf_t(INT64, &[2, 2]),
        5 => leaf_t(UINT64, &[]),
        6 => leaf_t(UINT64, &[2]),
        _ => leaf_t(INT64, &[1, 2]),
    }
}
fn wide_menu(i: u16) -> Type {
    match i % 6 {
        0 => leaf_t(INT128, &[2]),
        1 => leaf_t(UINT128, &[]),
        _ => int_menu(i / 6),
    }
}
fn any_menu(i: u16) -> Type {
    match i % 5 {
        0 | 1 => bit_menu(i / 5),
        2 => int_menu(i / 5),
        3 => wide_menu(i / 5),
        _ => table_menu((i / 5) as usize),
    }
}

fn shape_of(t: &Type) -> Vec<u64> {
    leaf_shape(t)
}
fn is_bits(t: &Type) -> bool {
    is_leaf(t) && leaf_st(t) == BIT
}
fn is_bit_arr(t: &Type) -> bool {
    t.is_array() && leaf_st(t) == BIT
}
fn is_st(t: &Type, sts: &[ScalarType]) -> bool {
    is_leaf(t) && sts.contains(&leaf_st(t))
}
use crate::graphgen::broadcastable;

struct Pool {
    g: Graph,
    nodes: Vec<Node>,
    types: Vec<Type>,
}
impl Pool {
    fn push(&mut self, n: Node) -> usize {
        let t = n.get_type().expect("node without type");
        self.nodes.push(n);
        self.types.push(t);
        self.nodes.len() - 1
    }
    fn pick_where<F: Fn(&Type) -> bool>(&self, sel: u16, pred: F) -> Option<usize> {
        let cands: Vec<usize> = (0..self.nodes.len()).filter(|i| pred(&self.types[*i])).collect();
        if cands.is_empty() {
            None
        } else {
            Some(cands[cands.len() - 1 - pick(sel, cands.len())])
        }
    }
}

pub struct MixBuilt {
    pub ctx: Context,
    pub in_types: Vec<Type>,
    pub labels: Vec<String>,
    pub n_custom: usize,
}

struct MB<'a> {
    w: &'a mut Work,
    excl: &'a [String],
    /// instantiation name -> (key, tag) of everything the context needs so far
    registry: HashMap<String, (String, String)>,
    subs: Vec<(Graph, Vec<Type>)>,
    in_types: Vec<Type>,
    allow_inputs: bool,
    labels: Vec<String>,
    n_custom: usize,
}

fn innermost(s: &Spec) -> &Spec {
    match s {
        Spec::Twice(i, _) => innermost(i),
        Spec::Both(a, _) => innermost(a),
        x => x,
    }
}

impl<'a> MB<'a> {
    fn fresh(&mut self, pool: &mut Pool, t: Type) -> Option<usize> {
        if self.allow_inputs && self.in_types.len() < 8 {
            let n = pool.g.input(t.clone()).ok()?;
            self.in_types.push(t);
            Some(pool.push(n))
        } else {
            // inside sub-graphs: a zero constant of that type (leaf types only)
            if is_leaf(&t) {
                pool.g.zeros(t).ok().map(|n| pool.push(n))
            } else {
                None
            }
        }
    }
    fn pick_or_fresh<F: Fn(&Type) -> bool>(&mut self, pool: &mut Pool, sel: u16, force_fresh: bool, pred: F, t: Type) -> Option<usize> {
        if !force_fresh {
            if let Some(i) = pool.pick_where(sel, &pred) {
                return Some(i);
            }
        }
        self.fresh(pool, t)
    }

    /// operands for the operation, constructed to fit its domain
    fn operands(&mut self, pool: &mut Pool, spec: &Spec, s: &MStep) -> Option<Vec<usize>> {
        let ff = s.p[2] % 7 == 0; // sometimes force a fresh first operand
        match innermost(spec) {
            Spec::Not => Some(vec![self.pick_or_fresh(pool, s.a, ff, is_bits, bit_menu(s.p[0]))?]),
            Spec::Or => {
                let ia = self.pick_or_fresh(pool, s.a, ff, is_bits, bit_menu(s.p[0]))?;
                let sa = shape_of(&pool.types[ia]);
                let ib = pool.pick_where(s.b, |t| is_bits(t) && broadcastable(&shape_of(t), &sa)).unwrap_or(ia);
                Some(vec![ia, ib])
            }
            Spec::Equal | Spec::NotEqual | Spec::Lt(_) | Spec::Le(_) | Spec::Gt(_) | Spec::Ge(_) | Spec::Min(_) | Spec::Max(_) | Spec::BinAdd(_) | Spec::LongDiv(_) => {
                let heavy = matches!(innermost(spec), Spec::LongDiv(_));
                let ia = self.pick_or_fresh(
                    pool,
                    s.a,
                    ff,
                    |t| is_bit_arr(t) && (!heavy || matches!(*shape_of(t).last().unwrap(), 1 | 2 | 4 | 8 | 16)),
                    bits_t(BIT_SHAPES[s.p[0] as usize % if heavy { 8 } else { 13 }]),
                )?;
                let sa = shape_of(&pool.types[ia]);
                let ib = if s.p[1] % 5 == 0 && sa.len() > 1 {
                    // a broadcasting partner: the bit-string dimension only
                    let want = bits_t(&sa[sa.len() - 1..]);
                    let w2 = want.clone();
                    self.pick_or_fresh(pool, s.b, false, move |t| *t == w2, want)?
                } else {
                    pool.pick_where(s.b, |t| is_bit_arr(t) && shape_of(t).last() == sa.last() && broadcastable(&shape_of(t), &sa)).unwrap_or(ia)
                };
                Some(vec![ia, ib])
            }
            Spec::Mux => {
                let ix = self.pick_or_fresh(pool, s.a, ff, is_leaf, any_menu(s.p[0] - s.p[0] % 5 + (s.p[0] % 4)))?;
                let tx = pool.types[ix].clone();
                let sx = shape_of(&tx);
                let st = leaf_st(&tx);
                let iy = pool.pick_where(s.b, |t| is_leaf(t) && leaf_st(t) == st && broadcastable(&shape_of(t), &sx)).unwrap_or(ix);
                let ic = self.pick_or_fresh(pool, s.c, false, |t| is_bits(t) && broadcastable(&shape_of(t), &sx), scalar_type(BIT))?;
                Some(vec![ic, ix, iy])
            }
            Spec::Clip(_) => Some(vec![self.pick_or_fresh(pool, s.a, ff, |t| is_bit_arr(t) && *shape_of(t).last().unwrap() >= 2, bits_t(BIT_SHAPES[[0usize, 1, 3, 4, 5, 8, 11][s.p[0] as usize % 7]]))?]),
            Spec::SortKey(k) => {
                let k = k.clone();
                let fresh_t = (0..4).map(table_menu).find(|t| t.get_named_types().map(|v| v.iter().any(|(n, _)| *n == k)).unwrap_or(false))?;
                Some(vec![self.pick_or_fresh(
                    pool,
                    s.a,
                    ff,
                    |t| t.is_named_tuple() && t.get_named_types().map(|v| v.iter().any(|(n, _)| *n == k)).unwrap_or(false),
                    fresh_t,
                )?])
            }
            Spec::Auc { .. } => {
                let ia = self.pick_or_fresh(pool, s.a, ff, |t| t.is_array() && leaf_st(t) == INT64 && shape_of(t).len() == 1, leaf_t(INT64, &[[2u64, 3][s.p[0] as usize % 2]]))?;
                let ta = pool.types[ia].clone();
                let ib = pool.pick_where(s.b, |t| *t == ta).unwrap_or(ia);
                Some(vec![ia, ib])
            }
            Spec::FixMul { .. } => {
                let ia = self.pick_or_fresh(pool, s.a, ff, |t| is_st(t, &[INT64]), leaf_t(INT64, &shape_of(&int_menu(s.p[0]))))?;
                let sa = shape_of(&pool.types[ia]);
                let ib = pool.pick_where(s.b, |t| is_st(t, &[INT64]) && broadcastable(&shape_of(t), &sa)).unwrap_or(ia);
                Some(vec![ia, ib])
            }
            Spec::Taylor { .. } | Spec::ApproxExp { .. } | Spec::ApproxSigmoid { .. } | Spec::ApproxGelu { .. } | Spec::ApproxGeluD { .. } => {
                Some(vec![self.pick_or_fresh(pool, s.a, ff, |t| is_st(t, &[INT64]), leaf_t(INT64, &shape_of(&int_menu(s.p[0]))))?])
            }
            Spec::Newton { .. } | Spec::InvSqrt { .. } => {
                let ia = self.pick_or_fresh(pool, s.a, ff, |t| is_st(t, &[INT64, UINT64]), int_menu(s.p[0]))?;
                if s.p[1] % 4 == 0 {
                    let ta = pool.types[ia].clone();
                    let ib = pool.pick_where(s.b, |t| *t == ta).unwrap_or(ia);
                    Some(vec![ia, ib])
                } else {
                    Some(vec![ia])
                }
            }
            Spec::Gold { .. } => {
                let ia = self.pick_or_fresh(pool, s.a, ff, |t| is_st(t, &[INT64, UINT64, INT128, UINT128]), wide_menu(s.p[0]))?;
                let ta = pool.types[ia].clone();
                let (st, sa) = (leaf_st(&ta), shape_of(&ta));
                let ib = pool.pick_where(s.b, |t| is_leaf(t) && leaf_st(t) == st && broadcastable(&shape_of(t), &sa)).unwrap_or(ia);
                if s.p[1] % 4 == 0 {
                    let tb = pool.types[ib].clone();
                    let ic = pool.pick_where(s.c, |t| *t == tb).unwrap_or(ib);
                    Some(vec![ia, ib, ic])
                } else {
                    Some(vec![ia, ib])
                }
            }
            Spec::Twice(..) | Spec::Both(..) => unreachable!(),
        }
    }

    fn custom(&mut self, pool: &mut Pool, spec: &Spec, s: &MStep) -> Option<usize> {
        let idx = self.operands(pool, spec, s)?;
        let types: Vec<Type> = idx.iter().map(|i| pool.types[*i].clone()).collect();
        // Clip: fit k to the bit width (construction over rejection)
        let spec = match spec {
            Spec::Clip(k) => {
                let wd = *shape_of(&types[0]).last().unwrap();
                Spec::Clip(k % (wd - 1))
            }
            x => x.clone(),
        };
        let op = to_op(&spec);
        // exclusion of open known findings by construction
        let infos = self.w.closure(&op, &types);
        let mut all: Vec<InstInfo> = infos.clone();
        for i in &infos {
            if let Some((k, t)) = self.registry.get(&i.name) {
                all.push(InstInfo { name: i.name.clone(), key: k.clone(), tag: t.clone(), depth: 1 });
            }
        }
        for c in collisions(&all) {
            if self.excl.contains(&c.sig) {
                self.labels.push(format!("step-excluded-known:{}", c.sig));
                return None;
            }
        }
        let args: Vec<Node> = idx.iter().map(|i| pool.nodes[*i].clone()).collect();
        let g = pool.g.clone();
        match catch(|| g.custom_op(op, args)) {
            Ok(Ok(n)) => {
                for i in infos {
                    self.registry.entry(i.name.clone()).or_insert((i.key, i.tag));
                }
                self.n_custom += 1;
                self.labels.push(format!("step:{}", fam(&spec)));
                Some(pool.push(n))
            }
            Ok(Err(_)) => {
                self.labels.push(format!("step-rejected:{}", fam(&spec)));
                None
            }
            Err(_) => {
                self.labels.push(format!("step-panicked:{}", fam(&spec)));
                None
            }
        }
    }

    fn step(&mut self, pool: &mut Pool, s: &MStep) -> Option<usize> {
        let g = pool.g.clone();
        match &s.k {
            StepK::Op(spec) => self.custom(pool, spec, s),
            StepK::A2B => {
                let ia = pool.pick_where(s.a, |t| is_leaf(t) && leaf_st(t) != BIT)?;
                g.a2b(pool.nodes[ia].clone()).ok().map(|n| pool.push(n))
            }
            StepK::B2A => {
                let ia = pool.pick_where(s.a, |t| is_bit_arr(t) && matches!(shape_of(t).last(), Some(64 | 16 | 8)))?;
                let wd = *shape_of(&pool.types[ia]).last().unwrap();
                let st = match (wd, s.p[0] % 3) {
                    (64, 0) => UINT64,
                    (64, _) => INT64,
                    (16, _) => UINT16,
                    _ => UINT8,
                };
                g.b2a(pool.nodes[ia].clone(), st).ok().map(|n| pool.push(n))
            }
            StepK::TupleGet => {
                let ia = pool.pick_where(s.a, |t| matches!(t, Type::Tuple(ts) if !ts.is_empty()))?;
                let n = children_types(&pool.types[ia]).len();
                g.tuple_get(pool.nodes[ia].clone(), (s.p[0] as usize % n) as u64).ok().map(|n| pool.push(n))
            }
            StepK::NamedGet => {
                let ia = pool.pick_where(s.a, |t| t.is_named_tuple())?;
                let names: Vec<String> = pool.types[ia].get_named_types().ok()?.into_iter().map(|x| x.0).collect();
                g.named_tuple_get(pool.nodes[ia].clone(), names[s.p[0] as usize % names.len()].clone()).ok().map(|n| pool.push(n))
            }
            StepK::MkTable => {
                let ia = pool.pick_where(s.a, |t| t.is_array() && shape_of(t)[0] <= 4)?;
                let n = shape_of(&pool.types[ia])[0];
                let ib = pool.pick_where(s.b, |t| t.is_array() && shape_of(t)[0] == n).unwrap_or(ia);
                let names = [["a", "b"], ["y_pred", "y_true"], ["k", "a"], ["b", "c"]][s.p[0] as usize % 4];
                g.create_named_tuple(vec![(names[0].to_string(), pool.nodes[ia].clone()), (names[1].to_string(), pool.nodes[ib].clone())])
                    .ok()
                    .map(|n| pool.push(n))
            }
            StepK::Add => {
                let ia = pool.pick_where(s.a, is_leaf)?;
                let ta = pool.types[ia].clone();
                let ib = pool.pick_where(s.b, |t| *t == ta).unwrap_or(ia);
                g.add(pool.nodes[ia].clone(), pool.nodes[ib].clone()).ok().map(|n| pool.push(n))
            }
            StepK::Call => {
                if self.subs.is_empty() || !self.allow_inputs {
                    return None;
                }
                let (sg, ins) = self.subs[pick(s.p[0], self.subs.len())].clone();
                let sels = [s.a, s.b, s.c];
                let mut args = vec![];
                for (j, t) in ins.iter().enumerate() {
                    let tt = t.clone();
                    let i = self.pick_or_fresh(pool, sels[j % 3], false, move |x| *x == tt, t.clone())?;
                    args.push(pool.nodes[i].clone());
                }
                let r = g.call(sg, args).ok().map(|n| pool.push(n));
                if r.is_some() {
                    self.labels.push("step:Call".into());
                }
                r
            }
        }
    }
}

pub fn build_mix(c: &MixCase, w: &mut Work) -> Option<MixBuilt> {
    let ctx = create_context().ok()?;
    let mut b = MB { w, excl: &c.excl, registry: HashMap::new(), subs: vec![], in_types: vec![], allow_inputs: false, labels: vec![], n_custom: 0 };
    for sub in &c.subs {
        let g = ctx.create_graph().ok()?;
        let mut pool = Pool { g: g.clone(), nodes: vec![], types: vec![] };
        let mut ins = vec![];
        for sel in sub.ins.iter().take(2) {
            let t = any_menu(*sel);
            pool.push(g.input(t.clone()).ok()?);
            ins.push(t);
        }
        if ins.is_empty() {
            continue;
        }
        let before = b.n_custom;
        for s in &sub.steps {
            let _ = b.step(&mut pool, s);
        }
        if b.n_custom == before {
            // a callee without custom operations adds nothing; keep it anyway as a plain graph
        }
        let io = pool.pick_where(sub.out, |_| true)?;
        if g.set_output_node(pool.nodes[io].clone()).is_ok() && g.finalize().is_ok() {
            b.subs.push((g, ins));
        } else {
            return None;
        }
    }
    let g = ctx.create_graph().ok()?;
    let mut pool = Pool { g: g.clone(), nodes: vec![], types: vec![] };
    b.allow_inputs = true;
    for s in &c.steps {
        let _ = b.step(&mut pool, s);
    }
    if pool.nodes.is_empty() {
        return None;
    }
    let out = pool.nodes.last().unwrap().clone();
    g.set_output_node(out).ok()?;
    g.finalize().ok()?;
    ctx.set_main_graph(g).ok()?;
    ctx.finalize().ok()?;
    b.labels.push(format!("graphs:{}", 1 + b.subs.len()));
    Some(MixBuilt { ctx, in_types: b.in_types, labels: b.labels, n_custom: b.n_custom })
}

pub fn oracle_mix(c: &MixCase) -> Outcome {
    let mut w = Work::default();
    let built = match build_mix(c, &mut w) {
        Some(b) => b,
        None => return Outcome::skip("unbuildable"),
    };
    if built.n_custom == 0 {
        return Outcome::skip("no-custom-node").labels(built.labels);
    }
    let mut s = c.seed;
    let inputs: Vec<Value> = built.in_types.iter().map(|t| encode(&gen_value(t, &mut s), t)).collect();
    match check_context(&mut w, &built.ctx, &inputs, seed16(c.seed), &c.excl) {
        Ok(ch) => {
            let nt = ch.shared_family || ch.max_depth >= 2;
            let mut l = built.labels;
            l.sort();
            l.dedup();
            Outcome::pass(nt).labels(ch.labels).labels(l)
        }
        Err(o) => o.labels(built.labels),
    }
}

// ---------------------------------------------------------------------------------------------
// strategies

fn sel<T: Clone + std::fmt::Debug + 'static>(v: &[T]) -> BoxedStrategy<T> {
    proptest::sample::select(v.to_vec()).boxed()
}

/// library operations; parameter values come from small sets so that equal AND different
/// parameterisations of one operation meet in one context
pub fn arb_leaf_spec() -> BoxedStrategy<Spec> {
    let itcap = || (sel(&[1u64, 2, 3]), sel(&[4u64, 6, 10]));
    let pl = || (sel(&[6u64, 10, 15]), sel(&[3u64, 4, 5]));
    prop_oneof![
        2 => Just(Spec::Not),
        2 => Just(Spec::Or),
        3 => Just(Spec::Mux),
        1 => Just(Spec::Equal),
        1 => Just(Spec::NotEqual),
        2 => any::<bool>().prop_map(Spec::Lt),
        1 => any::<bool>().prop_map(Spec::Le),
        2 => any::<bool>().prop_map(Spec::Gt),
        1 => any::<bool>().prop_map(Spec::Ge),
        2 => any::<bool>().prop_map(Spec::Min),
        2 => any::<bool>().prop_map(Spec::Max),
        3 => any::<bool>().prop_map(Spec::BinAdd),
        4 => sel(&[0u64, 1, 2, 3, 6]).prop_map(Spec::Clip),
        2 => any::<bool>().prop_map(Spec::LongDiv),
        5 => sel(&["a", "b", "y_pred", "y_true", "k", "c"]).prop_map(|k| Spec::SortKey(k.to_string())),
        5 => (sel(&[3u64, 10, 15]), any::<bool>()).prop_map(|(frac, debug)| Spec::FixMul { frac, debug }),
        3 => itcap().prop_map(|(it, cap)| Spec::Newton { it, cap }),
        3 => itcap().prop_map(|(it, cap)| Spec::InvSqrt { it, cap }),
        3 => itcap().prop_map(|(it, cap)| Spec::Gold { it, cap }),
        2 => (sel(&[2u64, 3, 5]), sel(&[4u64, 10])).prop_map(|(terms, fpp)| Spec::Taylor { terms, fpp }),
        2 => sel(&[6u64, 10, 15]).prop_map(|prec| Spec::ApproxExp { prec }),
        3 => pl().prop_map(|(prec, lb)| Spec::ApproxSigmoid { prec, lb }),
        3 => pl().prop_map(|(prec, lb)| Spec::ApproxGelu { prec, lb }),
        3 => pl().prop_map(|(prec, lb)| Spec::ApproxGeluD { prec, lb }),
        1 => (sel(&[10u64, 15]), any::<bool>()).prop_map(|(frac, debug)| Spec::Auc { frac, debug }),
    ]
    .boxed()
}

/// another parameterisation of the same operation struct (or the same one)
fn reparam(s: &Spec, r: u64) -> Spec {
    let b = r & 1 == 1;
    let it = 1 + r % 3;
    let cap = [4u64, 6, 10][(r / 3 % 3) as usize];
    let prec = [6u64, 10, 15][(r % 3) as usize];
    let lb = [3u64, 4, 5][(r / 3 % 3) as usize];
    match s {
        Spec::Lt(_) => Spec::Lt(b),
        Spec::Le(_) => Spec::Le(b),
        Spec::Gt(_) => Spec::Gt(b),
        Spec::Ge(_) => Spec::Ge(b),
        Spec::Min(_) => Spec::Min(b),
        Spec::Max(_) => Spec::Max(b),
        Spec::BinAdd(_) => Spec::BinAdd(b),
        Spec::LongDiv(_) => Spec::LongDiv(b),
        Spec::Clip(_) => Spec::Clip(r % 4),
        Spec::SortKey(_) => Spec::SortKey(["a", "b", "y_pred", "y_true", "k", "c"][(r % 6) as usize].to_string()),
        Spec::FixMul { .. } => Spec::FixMul { frac: [3u64, 10, 15][(r / 2 % 3) as usize], debug: b },
        Spec::Newton { .. } => Spec::Newton { it, cap },
        Spec::InvSqrt { .. } => Spec::InvSqrt { it, cap },
        Spec::Gold { .. } => Spec::Gold { it, cap },
        Spec::Taylor { .. } => Spec::Taylor { terms: [2u64, 3, 5][(r % 3) as usize], fpp: [4u64, 10][(r / 3 % 2) as usize] },
        Spec::ApproxExp { .. } => Spec::ApproxExp { prec },
        Spec::ApproxSigmoid { .. } => Spec::ApproxSigmoid { prec, lb },
        Spec::ApproxGelu { .. } => Spec::ApproxGelu { prec, lb },
        Spec::ApproxGeluD { .. } => Spec::ApproxGeluD { prec, lb },
        Spec::Auc { .. } => Spec::Auc { frac: [10u64, 15][(r / 2 % 2) as usize], debug: b },
        x => x.clone(),
    }
}

/// partner operation accepting the same kind of arguments (for C08Both)
fn partner(s: &Spec, r: u64) -> Spec {
    let b = r & 1 == 1;
    let bitbin = [Spec::Equal, Spec::NotEqual, Spec::Lt(b), Spec::Ge(b), Spec::Min(b), Spec::Max(b), Spec::BinAdd(b), Spec::Or];
    let un64 = [Spec::ApproxExp { prec: 10 }, Spec::ApproxSigmoid { prec: 10, lb: 4 }, Spec::ApproxGelu { prec: 15, lb: 5 }, Spec::Taylor { terms: 3, fpp: 4 }, Spec::Newton { it: 2, cap: 6 }, Spec::InvSqrt { it: 2, cap: 6 }];
    if r % 3 != 0 {
        return reparam(s, r / 3);
    }
    match s {
        Spec::Equal | Spec::NotEqual | Spec::Lt(_) | Spec::Le(_) | Spec::Gt(_) | Spec::Ge(_) | Spec::Min(_) | Spec::Max(_) | Spec::BinAdd(_) | Spec::LongDiv(_) | Spec::Or => {
            bitbin[(r / 3 % 8) as usize].clone()
        }
        Spec::Taylor { .. } | Spec::ApproxExp { .. } | Spec::ApproxSigmoid { .. } | Spec::ApproxGelu { .. } | Spec::ApproxGeluD { .. } => un64[(r / 3 % 6) as usize].clone(),
        x => reparam(x, r / 3),
    }
}

pub fn arb_spec() -> BoxedStrategy<Spec> {
    (arb_leaf_spec(), 0u8..12, any::<u64>(), 0u8..3)
        .prop_map(|(s, wrap, r, tag)| match wrap {
            0 => Spec::Twice(Box::new(s), tag),
            1 => {
                let p = partner(&s, r);
                Spec::Both(Box::new(s), Box::new(p))
            }
            2 => {
                let p = partner(&s, r);
                Spec::Twice(Box::new(Spec::Both(Box::new(s), Box::new(p))), tag)
            }
            3 => Spec::Twice(Box::new(Spec::Twice(Box::new(s), tag)), 0),
            _ => s,
        })
        .boxed()
}

fn arb_mstep(in_sub: bool) -> BoxedStrategy<MStep> {
    let k = prop_oneof![
        20 => arb_spec().prop_map(StepK::Op),
        2 => Just(StepK::A2B),
        2 => Just(StepK::B2A),
        3 => Just(StepK::TupleGet),
        2 => Just(StepK::NamedGet),
        2 => Just(StepK::MkTable),
        1 => Just(StepK::Add),
        if in_sub { 0 } else { 3 } => Just(StepK::Call),
    ];
    (k, any::<u16>(), any::<u16>(), any::<u16>(), any::<[u16; 3]>()).prop_map(|(k, a, b, c, p)| MStep { k, a, b, c, p }).boxed()
}

pub fn arb_mix(max_steps: usize, excl: Vec<String>) -> BoxedStrategy<MixCase> {
    let sub = (proptest::collection::vec(any::<u16>(), 1..3), proptest::collection::vec(arb_mstep(true), 1..4), any::<u16>())
        .prop_map(|(ins, steps, out)| SubG { ins, steps, out });
    (
        prop_oneof![3 => Just(0usize), 2 => Just(1usize), 1 => Just(2usize)].prop_flat_map(move |n| proptest::collection::vec(sub.clone(), n)),
        proptest::collection::vec(arb_mstep(false), 3..=max_steps),
        any::<u64>(),
    )
        .prop_map(move |(subs, steps, seed)| MixCase { subs, steps, seed, excl: excl.clone() })
        .boxed()
}

// ---------------------------------------------------------------------------------------------
// pinned cases: one minimal input per confirmed name collision (DESIGN §4 O5 and relatives)

pub fn pinned_pairs() -> Vec<(&'static str, PairCase)> {
    let mk = |a: Spec, b: Spec, types: Vec<Type>| PairCase { a, b, types, seed: 1, excl: vec![] };
    vec![
        (
            "name-collision-SortByIntegerKey",
            mk(Spec::SortKey("a".into()), Spec::SortKey("b".into()), vec![table_menu(0)]),
        ),
        (
            "name-collision-FixedMultiply",
            mk(Spec::FixMul { frac: 15, debug: false }, Spec::FixMul { frac: 15, debug: true }, vec![scalar_type(INT64), scalar_type(INT64)]),
        ),
        (
            "name-collision-ApproxSigmoid",
            mk(Spec::ApproxSigmoid { prec: 15, lb: 5 }, Spec::ApproxSigmoid { prec: 15, lb: 4 }, vec![scalar_type(INT64)]),
        ),
        (
            "name-collision-ApproxGelu",
            mk(Spec::ApproxGelu { prec: 15, lb: 5 }, Spec::ApproxGelu { prec: 15, lb: 4 }, vec![scalar_type(INT64)]),
        ),
        (
            "name-collision-ApproxGeluDerivative",
            mk(Spec::ApproxGeluD { prec: 15, lb: 5 }, Spec::ApproxGeluD { prec: 15, lb: 4 }, vec![scalar_type(INT64)]),
        ),
    ]
}

/// AucScore sorts its (y_pred, y_true) table by y_pred internally; a user's SortByIntegerKey of the
/// same table type by y_true collides with that nested instantiation (same root cause as F-C08-1)
pub fn pinned_auc_vs_sort() -> MixCase {
    let st = |k: StepK, p0: u16| MStep { k, a: 0, b: 0, c: 0, p: [p0, 1, 1] };
    MixCase {
        subs: vec![],
        steps: vec![
            st(StepK::Op(Spec::Auc { frac: 10, debug: false }), 1),
            st(StepK::MkTable, 1),
            st(StepK::Op(Spec::SortKey("y_true".to_string())), 0),
        ],
        seed: 5,
        excl: vec![],
    }
}

fn open_sigs(env: &Env) -> Vec<String> {
    env.known.iter().filter(|k| k.status == "open").map(|k| k.signature.clone()).collect()
}

pub fn run(env: &Env) {
    env.assume("the definition of a custom operation on given argument types = SimpleEvaluator on the context containing only that node, instantiated alone (approximate operations are compared to themselves, not to real functions: that is C20)");
    env.assume("a custom_op call that returns Err (or panics) is a rejection by type inference: the step is skipped and counted, not judged");
    env.assume("parameters stay in the documented/tested ranges (iterations>=1, caps 4..10, precision 6..15, log buckets 3..6, Taylor terms>=1)");
    let excl = open_sigs(env);
    let thorough = env.tier == Tier::Thorough;
    env.set_shrink_iters(300);
    // VH_C08_ONLY=pairs|mix restricts the run to one sub-check (used for sensitivity experiments)
    let only = std::env::var("VH_C08_ONLY").unwrap_or_default();
    // pinned regression cases for the known collisions
    for (name, case) in if only.is_empty() { pinned_pairs() } else { vec![] } {
        let mut case = case;
        case.excl = vec![];
        env.pinned(name, &case, oracle_pair);
    }
    if only.is_empty() {
        env.pinned("mix", &pinned_auc_vs_sort(), oracle_mix);
    }
    let t0 = std::time::Instant::now();
    let cases = if only == "mix" { vec![] } else { pair_cases(thorough, &excl) };
    env.note("pairs_enumeration_build_s", serde_json::json!((t0.elapsed().as_secs_f64() * 10.0).round() / 10.0));
    env.note("catalogue_size", serde_json::json!(catalogue(thorough).len()));
    env.note("type_tuples", serde_json::json!(type_tuples(thorough).len()));
    if !cases.is_empty() {
    env.enumerate(
        "pairs",
        "every unordered pair of distinct catalogue operations/parameterisations accepted on the same argument-type tuple, both in one context, 3 input vectors",
        cases,
        oracle_pair,
    );
    }
    if only == "pairs" {
        return;
    }
    let steps = env.pick(12, 16);
    let ex = excl.clone();
    env.campaign("mix", RULE, env.n(1200, 40_000), move || arb_mix(steps, ex.clone()), oracle_mix);
}

pub fn replay(check: &str, case: J) -> Outcome {
    match check {
        "mix" => replay_with::<MixCase, _>(case, oracle_mix),
        _ => replay_with::<PairCase, _>(case, oracle_pair),
    }
}
